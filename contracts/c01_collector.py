# C01 (and every refactoring that edits text) — rope.base.codeanalyze.ChangeCollector.get_changed:
# the result is the text with exactly the (sorted, non-overlapping) edit ranges replaced and everything else untouched.
M = "rope.base.codeanalyze:"
CH = "Seq[Tuple[Int,Int,Str]]"
record("ChangeCollector", fields={"text": "Str", "changes": CH}, pyclass="rope.base.codeanalyze:ChangeCollector")
specfun("sorted_key2", [CH], CH, note="the list after self.changes.sort(key=lambda x: x[:2])")
specdef("pend", {"s": CH, "k": "Int"}, "Int", "ite(k <= 0, 0, s[k - 1][1])")           # end of the previous edit
specdef("nonoverlap", {"s": CH, "n": "Int"}, "Bool",
        "forall(lambda j: implies(0 <= j and j < len(s), 0 <= s[j][0] and pend(s, j) <= s[j][0] and s[j][0] <= s[j][1] and s[j][1] <= n))")
specfun("offs", [CH, "Int"], "Int", note="length of the output produced before edit k's gap")
axiom("offs_zero", {"s": CH}, "offs(s, 0) == 0", patterns=["offs(s, 0)"])
axiom("offs_step", {"s": CH, "k": "Int"},
      "implies(0 <= k and k < len(s), offs(s, k + 1) == offs(s, k) + (s[k][0] - pend(s, k)) + len(s[k][2]))", patterns=["offs(s, k + 1)"],
      note="definition of offs by recurrence")
specfun("ordered", [CH], "Bool", note="the edits are sorted and pairwise non-overlapping")
axiom("ordered_def", {"s": CH, "j": "Int"},
      "implies(ordered(s) and 0 <= j and j < len(s), 0 <= s[j][0] and pend(s, j) <= s[j][0] and s[j][0] <= s[j][1])",
      note="definition (one direction is all the proofs use); call sites establish it from the finder contract: occurrences come in increasing, disjoint ranges")
induction("offs_mono", {"s": CH}, "k", "implies(k < len(s), 0 <= offs(s, k) and offs(s, k) <= offs(s, k + 1))",
          hyps=["ordered(s)"], note="offsets are non-negative and non-decreasing")
induction("offs_le", {"s": CH, "a": "Int"}, "b", "implies(0 <= a and a <= b and b <= len(s), offs(s, a) <= offs(s, b))",
          hyps=["ordered(s)"], note="monotone over any distance")
specfun("str_join", ["Str", "Seq[Str]"], "Str", note="sep.join(parts)")
axiom("join_empty", {"p": "Seq[Str]"}, "implies(len(p) == 0, str_join('', p) == '')", patterns=["str_join('', p)"])
axiom("join_snoc", {"p": "Seq[Str]", "x": "Str"}, "str_join('', p + [x]) == str_join('', p) + x", patterns=["str_join('', p + [x])"],
      note="''.join(parts + [x]) == ''.join(parts) + x (defining property of str.join with an empty separator)")

specdef("gapB", {"R": "Str", "t": "Str", "s": CH, "j": "Int"}, "Bool",
        "R[offs(s, j):offs(s, j) + (s[j][0] - pend(s, j))] == t[pend(s, j):s[j][0]]")
specdef("replC", {"R": "Str", "s": CH, "j": "Int"}, "Bool", "R[offs(s, j) + (s[j][0] - pend(s, j)):offs(s, j + 1)] == s[j][2]")

contract("ChangeCollector.get_changed", source=M + "ChangeCollector.get_changed", params={"self": "ChangeCollector"}, returns="Opt[Str]",
         requires=["nonoverlap(sorted_key2(self.changes), len(self.text))", "ordered(sorted_key2(self.changes))"],
         modifies=["self.changes"], raises={},
         locals={"pieces": "Seq[Str]"},
         ensures=[
             "implies(len(old(self.changes)) == 0, is_none(result))",
             "implies(not is_none(result), val(result) != self.text)",
             # with S the sorted edits, n their number and R the returned text (or the unchanged text when None is returned):
             "implies(len(old(self.changes)) > 0, len(ite(is_none(result), self.text, val(result))) == "
             "        offs(sorted_key2(old(self.changes)), len(old(self.changes))) + len(self.text) - pend(sorted_key2(old(self.changes)), len(old(self.changes))))",
             "forall(lambda j: implies(0 <= j and j < len(old(self.changes)), gapB(ite(is_none(result), self.text, val(result)), self.text, sorted_key2(old(self.changes)), j)))",
             "forall(lambda j: implies(0 <= j and j < len(old(self.changes)), replC(ite(is_none(result), self.text, val(result)), sorted_key2(old(self.changes)), j)))",
             "implies(len(old(self.changes)) > 0, ite(is_none(result), self.text, val(result))[offs(sorted_key2(old(self.changes)), len(old(self.changes))):len(ite(is_none(result), self.text, val(result)))] "
             "        == self.text[pend(sorted_key2(old(self.changes)), len(old(self.changes))):len(self.text)])"],
         loops={1: {"index": "i", "inv": [
             "self.changes == sorted_key2(old(self.changes))",
             "last_changed == pend(self.changes, i)",
             "len(str_join('', pieces)) == offs(self.changes, i)",
             "forall(lambda j: implies(0 <= j and j < i, gapB(str_join('', pieces), self.text, self.changes, j) and replC(str_join('', pieces), self.changes, j)))"]}},
         note="positional specification: (A) length, (B) every gap kept at its offset, (C) every replacement placed right after it, (D) tail kept -- "
              "together they determine every character of the result")

from bounded import c02_binder as _bb, c01_projects as _bp
bounded_check(name="c01-rename-binder", props=["C01"], fn=_bb.rename_case, domain=_bb.domain, exhaustive=True,
              label="B3: 30 single-module programs (one per scoping feature): every binding renamed from every one of its tokens; result parses, binder partition "
                    "preserved under the token map (alpha-equivalence), same output")
bounded_check(name="c01-rename-projects", props=["C01"], fn=_bp.run_case, domain=_bp.domain, exhaustive=True,
              label="B3: 9 multi-module projects (from-import with same-named parameter, __init__/__call__ keywords, nested packages with two renames in one session, "
                    "multi-name global, variable named like its module, **kwargs, methods across modules, aliases, rf-strings): rename from every occurrence, run, compare output")

# ---- CPython cross-check: the positional specification evaluated on the real ChangeCollector (spec functions computed natively) ----------
def _xc_offs(s, k):
    o = 0
    for j in range(0, k):
        o += (s[j][0] - (0 if j == 0 else s[j - 1][1])) + len(s[j][2])
    return o


def _xc_ordered(s):
    return all(0 <= s[j][0] and (0 if j == 0 else s[j - 1][1]) <= s[j][0] <= s[j][1] for j in range(len(s)))


def _xc_cc_domain(tier, seed):
    import itertools
    texts = ["", "a", "abc", "abcde"] if tier != "thorough" else ["", "a", "abc", "abcde", "abcdefg"]
    reps = ["", "X", "YZ"]
    for t in texts:
        n = len(t)
        spans = [(a, b) for a in range(n + 1) for b in range(a, n + 1)]
        for r in range(0, 3):
            for chosen in itertools.combinations(spans, r):
                # keep only non-overlapping sets (the precondition), but hand them over in BOTH orders: get_changed sorts
                ok = all(chosen[i][1] <= chosen[i + 1][0] for i in range(len(chosen) - 1))
                if not ok:
                    continue
                for texts_ in itertools.product(reps, repeat=r):
                    edits = [(a, b, x) for (a, b), x in zip(chosen, texts_)]
                    yield (t, edits)
                    if r == 2:
                        yield (t, edits[::-1])


def _xc_cc_build(case):
    from rope.base import codeanalyze
    t, edits = case
    c = codeanalyze.ChangeCollector(t)
    c.changes = list(edits)
    return {"self": c}


bounded_check(name="c01-get-changed-native", props=["C01", "C03", "C06", "C19"], contract="ChangeCollector.get_changed", build=_xc_cc_build, domain=_xc_cc_domain,
              exhaustive=True, env={"sorted_key2": lambda s: sorted(s, key=lambda x: x[:2]), "offs": _xc_offs, "ordered": _xc_ordered,
                                    "str_join": lambda sep, parts: sep.join(parts)},
              label="CPython cross-check: get_changed's positional contract (length, gaps, replacements, tail) on the real collector: texts of <= 5 (thorough 7) "
                    "characters x every set of <= 2 non-overlapping edits (both orders) x 3 replacement texts")

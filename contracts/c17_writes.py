# C17 — encapsulate field: closing a pending setter call.  rope.refactor.encapsulate_field._FindChangesForModule._manage_writes
# While the right-hand side of `obj.attr = <value>` is being copied, `last_set` is the offset where the assignment ends and
# result[set_index:] the pieces of <value>.  At the first occurrence at or after that end the pieces are joined into `value)`.
M = "rope.refactor.encapsulate_field:"
record("_FindChangesForModule", fields={"last_modified": "Int", "last_set": "Opt[Int]", "set_index": "Opt[Int]"})
specfun("src_of", ["_FindChangesForModule"], "Str", note="self.source (the module text; cached property)")
contract("_FindChangesForModule.source", abstract=True, is_property=True, pure=True, heap_independent=True, params={"self": "_FindChangesForModule"}, returns="Str",
         ensures=["result == src_of(self)"])
contract("Str.strip", external=True, pure=True, params={"self": "Str"}, returns="Str", note="str.strip()")
specfun("strip_of", ["Str"], "Str")
specfun("str_join", ["Str", "Seq[Str]"], "Str", note="sep.join(parts)")
REG.contracts["Str.strip"].ensures = ["result == strip_of(self)"]
contract("_FindChangesForModule._manage_writes", source=M + "_FindChangesForModule._manage_writes",
         params={"self": "_FindChangesForModule", "offset": "Int", "result": "Seq[Str]"}, mutates=["result"],
         requires=["implies(not is_none(self.last_set), not is_none(self.set_index) and 0 <= val(self.set_index) and val(self.set_index) <= len(result) and "
                   "        0 <= self.last_modified and self.last_modified <= val(self.last_set) and val(self.last_set) <= len(src_of(self)))"],
         modifies=["self.last_modified", "self.last_set"], raises={},
         ensures=[
             # nothing pending, or the occurrence still lies inside the assignment: untouched
             "implies(is_none(old(self.last_set)) or offset < val(old(self.last_set)), "
             "        final(result) == old(result) and self.last_set == old(self.last_set) and self.last_modified == old(self.last_modified))",
             # otherwise (the occurrence is AT or after the end of the assignment) the setter call is closed exactly at that end
             "implies(not is_none(old(self.last_set)) and val(old(self.last_set)) <= offset, "
             "        is_none(self.last_set) and self.last_modified == val(old(self.last_set)) and len(final(result)) == val(self.set_index) + 1 and "
             "        forall(lambda k: implies(0 <= k and k < val(self.set_index), final(result)[k] == old(result)[k])) and "
             "        final(result)[val(self.set_index)] == strip_of(str_join('', old(result)[val(self.set_index):len(old(result))] + "
             "                 [src_of(self)[old(self.last_modified):val(old(self.last_set))]])) + ')')"],
         note="the value of the assignment is everything copied since the setter call was opened plus the source up to the end of the assignment, stripped, then `)`")

# ---- CPython cross-check on a real _FindChangesForModule (source given through a stand-in pymodule) ------------------------------------------
class _XcPm:
    def __init__(self, src):
        self.source_code = src


def _xc_mw_domain(tier, seed):
    src = "obj.attr = value + 1\nrest = obj.attr\n"
    for last_modified in (0, 5, 11):
        for last_set in (None, 11, 20, 21):
            for offset in (0, 10, 11, 20, 21, 30):
                for pieces in ([], ["set_attr("], ["x", "set_attr(", " value"]):
                    for set_index in (0, 1, len(pieces)):
                        if set_index <= len(pieces):
                            yield (src, last_modified, last_set, offset, pieces, set_index)


def _xc_mw_build(case):
    from rope.refactor import encapsulate_field as ef
    src, lm, ls, offset, pieces, si = case
    f = object.__new__(ef._FindChangesForModule)
    f.resource, f.pymodule = None, _XcPm(src)
    f.last_modified, f.last_set, f.set_index = lm, ls, si
    return {"self": f, "offset": offset, "result": list(pieces)}


bounded_check(name="c17-manage-writes-native", props=["C17"], contract="_FindChangesForModule._manage_writes", build=_xc_mw_build, domain=_xc_mw_domain, exhaustive=True,
              env={"src_of": lambda f: f.source, "strip_of": lambda s: s.strip(), "str_join": lambda sep, parts: sep.join(parts)},
              label="CPython cross-check: _manage_writes' contract on a real object: pending / no pending setter call x offsets before, AT and after the end of the assignment")

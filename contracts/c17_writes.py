# C17 — encapsulate field: closing a pending setter call.  rope.refactor.encapsulate_field._FindChangesForModule._manage_writes
# While the right-hand side of `obj.attr = <value>` is being copied, `last_set` is the offset where the assignment ends and
# result[set_index:] the pieces of <value>.  At the first occurrence at or after that end the pieces are joined into `value)`.
M = "rope.refactor.encapsulate_field:"
record("_FindChangesForModule", fields={"last_modified": "Int", "last_set": "Opt[Int]", "set_index": "Opt[Int]"})
specfun("src_of", ["_FindChangesForModule"], "Str", note="self.source (the module text; cached property)")
contract("_FindChangesForModule.source", abstract=True, is_property=True, pure=True, heap_independent=True, params={"self": "_FindChangesForModule"}, returns="Str",
         ensures=["result == src_of(self)"])
contract("Str.strip", external=True, pure=True, params={"self": "Str"}, returns="Str", note="str.strip()")
specfun("strip_of", ["Str"], "Str")
specfun("str_join", ["Str", "Seq[Str]"], "Str", note="sep.join(parts)")
REG.contracts["Str.strip"].ensures = ["result == strip_of(self)"]
contract("_FindChangesForModule._manage_writes", source=M + "_FindChangesForModule._manage_writes",
         params={"self": "_FindChangesForModule", "offset": "Int", "result": "Seq[Str]"}, mutates=["result"],
         requires=["implies(not is_none(self.last_set), not is_none(self.set_index) and 0 <= val(self.set_index) and val(self.set_index) <= len(result) and "
                   "        0 <= self.last_modified and self.last_modified <= val(self.last_set) and val(self.last_set) <= len(src_of(self)))"],
         modifies=["self.last_modified", "self.last_set"], raises={},
         ensures=[
             # nothing pending, or the occurrence still lies inside the assignment: untouched
             "implies(is_none(old(self.last_set)) or offset < val(old(self.last_set)), "
             "        final(result) == old(result) and self.last_set == old(self.last_set) and self.last_modified == old(self.last_modified))",
             # otherwise (the occurrence is AT or after the end of the assignment) the setter call is closed exactly at that end
             "implies(not is_none(old(self.last_set)) and val(old(self.last_set)) <= offset, "
             "        is_none(self.last_set) and self.last_modified == val(old(self.last_set)) and len(final(result)) == val(self.set_index) + 1 and "
             "        forall(lambda k: implies(0 <= k and k < val(self.set_index), final(result)[k] == old(result)[k])) and "
             "        final(result)[val(self.set_index)] == strip_of(str_join('', old(result)[val(self.set_index):len(old(result))] + "
             "                 [src_of(self)[old(self.last_modified):val(old(self.last_set))]])) + ')')"],
         note="the value of the assignment is everything copied since the setter call was opened plus the source up to the end of the assignment, stripped, then `)`")

# C20 — code assist: which local names are not yet defined at the cursor; is this word a keyword argument name?
A = "rope.contrib.codeassist:"
W = "rope.base.worder:"
record("Module", fields={})
record("PyObject", fields={})
record("Scope", fields={"pyobject": "PyObject"})
record("PyName", fields={})
record("_PythonCodeAssist", fields={})
specfun("defloc", ["PyName"], "Opt[Tuple[Module,Opt[Int]]]", note="pyname.get_definition_location(): (module, line) or None")
specfun("module_of", ["PyObject"], "Module")
specfun("end_of", ["Scope"], "Int")
contract("PyName.get_definition_location", abstract=True, pure=True, heap_independent=True, params={"self": "PyName"}, returns="Opt[Tuple[Module,Opt[Int]]]",
         ensures=["result == defloc(self)"])
contract("PyObject.get_module", abstract=True, pure=True, heap_independent=True, params={"self": "PyObject"}, returns="Module", ensures=["result == module_of(self)"])
contract("Scope.get_end", abstract=True, pure=True, heap_independent=True, params={"self": "Scope"}, returns="Int", ensures=["result == end_of(self)"])
contract("_PythonCodeAssist._is_defined_after", source=A + "_PythonCodeAssist._is_defined_after",
         params={"self": "_PythonCodeAssist", "scope": "Scope", "pyname": "PyName", "lineno": "Int"}, returns="Opt[Bool]", modifies=[], raises={},
         ensures=[
             # a name is "defined later" only if it is defined in THIS module, at or after the cursor line, inside the scope
             "(not is_none(result) and val(result)) == (not is_none(defloc(pyname)) and not is_none(val(defloc(pyname))[1]) and "
             "        val(defloc(pyname))[0] == module_of(scope.pyobject) and lineno <= val(val(defloc(pyname))[1]) and val(val(defloc(pyname))[1]) <= end_of(scope))"],
         note="a name imported from another module whose definition line happens to fall into the range is NOT hidden from the proposals")

record("_RealFinder", fields={"code": "Str", "raw": "Str"})
specfun("wend", ["_RealFinder", "Int"], "Int", note="_find_word_end(offset) (c14_worder.py)")
specfun("wstart", ["_RealFinder", "Int"], "Int", note="_find_word_start(offset) (c14_worder.py)")
specfun("fnsc", ["_RealFinder", "Int"], "Int", note="_find_first_non_space_char(offset)")
specfun("lnsc", ["_RealFinder", "Int"], "Int", note="_find_last_non_space_char(offset) (c14_worder.py)")
contract("_RealFinder._find_word_end", abstract=True, pure=True, heap_independent=True, params={"self": "_RealFinder", "offset": "Int"}, returns="Int",
         ensures=["result == wend(self, offset)", "result >= offset"])
contract("_RealFinder._find_word_start", abstract=True, pure=True, heap_independent=True, params={"self": "_RealFinder", "offset": "Int"}, returns="Int",
         ensures=["result == wstart(self, offset)"])
contract("_RealFinder._find_first_non_space_char", abstract=True, pure=True, heap_independent=True, params={"self": "_RealFinder", "offset": "Int"}, returns="Int",
         ensures=["result == fnsc(self, offset)", "result >= 0"])
contract("_RealFinder._find_last_non_space_char", abstract=True, pure=True, heap_independent=True, params={"self": "_RealFinder", "offset": "Int"}, returns="Int",
         ensures=["result == lnsc(self, offset)", "result < len(self.code)"])
specdef("nxt", {"f": "_RealFinder", "o": "Int"}, "Int", "fnsc(f, wend(f, o) + 1)")
specdef("prv", {"f": "_RealFinder", "o": "Int"}, "Int", "lnsc(f, wstart(f, o) - 1)")
contract("_RealFinder.is_function_keyword_parameter", source=W + "_RealFinder.is_function_keyword_parameter", params={"self": "_RealFinder", "offset": "Int"}, returns="Bool",
         requires=["0 <= offset and offset < len(self.code)", "wend(self, offset) < len(self.code)"], modifies=[], raises={},
         ensures=[
             # `word =` but not `word ==`, and the word follows `(` or `,` (not at the very start of the text)
             "result == (wend(self, offset) + 1 != len(self.code) and self.code[nxt(self, offset):nxt(self, offset) + 1] == '=' and "
             "           self.code[nxt(self, offset):nxt(self, offset) + 2] != '==' and prv(self, offset) - 1 >= 0 and "
             "           (self.code[prv(self, offset)] == ',' or self.code[prv(self, offset)] == '('))"],
         note="a comparison `f(count == limit)` is not a keyword argument")

# ---- CPython cross-checks on the real finder / fake name objects ----------------------------------------------------------------------------
def _xc_kw_domain(tier, seed):
    texts = ["f(a=1)", "f(a==1)", "f(b, a = 2)", "f(b,a=2)", "a = 1", "f(x)(a=1)", "f(a =1, c==a)", "(a=1)", "f(\n a=1)", "f(a) = 1", "a=1", " a =1", "g(aa == limit)", "g(k,aa= limit)"]
    for t in texts:
        for off in range(len(t)):
            if t[off].isalnum() or t[off] == "_":
                yield (t, off)


def _xc_kw_build(case):
    from rope.base import worder
    t, off = case
    return {"self": worder._RealFinder(t, t), "offset": off}


bounded_check(name="c20-keyword-parameter-native", props=["C20"], contract="_RealFinder.is_function_keyword_parameter", build=_xc_kw_build, domain=_xc_kw_domain,
              exhaustive=True, env={"wend": lambda f, o: f._find_word_end(o), "wstart": lambda f, o: f._find_word_start(o),
                                    "fnsc": lambda f, o: f._find_first_non_space_char(o), "lnsc": lambda f, o: f._find_last_non_space_char(o)},
              label="CPython cross-check: is_function_keyword_parameter's contract on 14 call/assignment texts x every identifier offset")


class _XcScope:
    def __init__(self, mod, end):
        self.pyobject = self
        self._mod, self._end = mod, end

    def get_module(self):
        return self._mod

    def get_end(self):
        return self._end


class _XcName:
    def __init__(self, loc):
        self._loc = loc

    def get_definition_location(self):
        return self._loc


def _xc_da_domain(tier, seed):
    for loc in (None, ("M", None), ("M", 3), ("M", 5), ("M", 9), ("OTHER", 5)):
        for lineno in (1, 5, 6):
            for end in (4, 5, 8):
                yield (loc, lineno, end)


def _xc_da_build(case):
    from rope.contrib import codeassist
    loc, lineno, end = case
    return {"self": object.__new__(codeassist._PythonCodeAssist), "scope": _XcScope("M", end), "pyname": _XcName(loc), "lineno": lineno}


bounded_check(name="c20-defined-after-native", props=["C20"], contract="_PythonCodeAssist._is_defined_after", build=_xc_da_build, domain=_xc_da_domain, exhaustive=True,
              env={"defloc": lambda p: p.get_definition_location(), "module_of": lambda o: o.get_module(), "end_of": lambda s: s.get_end()},
              label="CPython cross-check: _is_defined_after's contract with stand-in scope/name objects: 6 definition locations (other module, no line) x 3 lines x 3 scope ends")

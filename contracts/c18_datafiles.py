# C18 — an interrupted save never leaves an unopenable project: rope.base.project._DataFiles, the loaders in history / memorydb
#
# Ghost model of one data file as the reader sees it: `records` = the complete pickles at its start, `garbage` = whether the
# bytes after them are a strict prefix of a pickle or arbitrary bytes (what a crash during pickle.dump leaves), `cursor`.
M = "rope.base.project:"
ghost("records", "Seq[Opaque[Data]]")
ghost("garbage", "Bool")
ghost("cursor", "Int")
record("Folder", fields={"path": "Str"})
record("File", fields={"real_path": "Str"})
record("Project", fields={"ropefolder": "Opt[Folder]"})
record("FileObj", fields={})
record("_DataFiles", fields={"project": "Project"}, pyclass="rope.base.project:_DataFiles")

specfun("on_disk", ["File"], "Bool", note="the data file exists")
specfun("file_of", ["_DataFiles", "Str"], "File", note="the resource .ropeproject/<name>")
contract("File.exists", abstract=True, pure=True, params={"self": "File"}, returns="Bool", ensures=["result == on_disk(self)"])
contract("_DataFiles._get_file", abstract=True, pure=True, params={"self": "_DataFiles", "name": "Str"}, returns="File", ensures=["result == file_of(self, name)"])
contract("open", external=True, params={"path": "Str", "mode": "Str"}, returns="FileObj", requires=["mode == 'rb'"], modifies=["cursor"], ensures=["cursor == 0"],
         note="open(path,'rb') on an existing readable file yields a stream positioned at 0 (I/O errors are outside the property: the crash model only truncates)")
contract("pickle.load", external=True, params={"f": "FileObj"}, returns="Opaque[Data]", modifies=["cursor"],
         ensures=["old(cursor) < len(records)", "result == records[old(cursor)]", "cursor == old(cursor) + 1"],
         raises={"EOFError": {"when": "cursor == len(records) and not garbage", "exact": True, "ensures": ["cursor == old(cursor)"]},
                 "Exception": {"when": "cursor == len(records) and garbage", "ensures": []}},
         note="pickle.load: next object when a complete pickle is at the cursor; EOFError at a clean end of stream; ANY exception on a truncated "
              "or corrupt pickle (weakest contract the documentation supports)")

contract("_DataFiles.read_data", source=M + "_DataFiles.read_data", params={"self": "_DataFiles", "name": "Str"}, returns="Opt[Opaque[Data]]",
         requires=["0 <= cursor", "len(records) <= 1"], modifies=["cursor"],
         ensures=["implies(not is_none(result), len(records) == 1 and val(result) == records[0])",
                  # and the saved value IS returned whenever the file is there and holds exactly one complete record and nothing else
                  # (a truncated tail cut at an opcode boundary reads as a clean end, so `garbage` alone does not force None)
                  "implies(not is_none(self.project.ropefolder) and on_disk(file_of(self, name)) and len(records) == 1 and not garbage, not is_none(result))",
                  "implies(not is_none(result), not is_none(self.project.ropefolder) and on_disk(file_of(self, name)))"],
         raises={},
         loops={1: {"decreases": "len(records) - cursor",
                    "inv": ["0 <= cursor and cursor <= len(records)", "len(result) == cursor",
                            "forall(lambda k: implies(0 <= k and k < len(result), result[k] == records[k]))"]}},
         locals={"result": "Seq[Opaque[Data]]"},
         note="total: nothing escapes whatever the file holds; the answer is the complete saved value or None (= empty)")


def _replay_read_data(d):
    """Witness family for the abstract stream model: a real .ropeproject/history file holding the model's number of complete
    pickles followed (if `garbage`) by a strict prefix of another pickle."""
    import os, pickle, tempfile
    from rope.base.project import Project
    root = tempfile.mkdtemp(prefix="verif-c18r-")
    p = Project(root)
    n = len(d.get("ghost:records") or [])
    payload = [[("ChangeContents", ("m.py", "new", "old"))], []]
    blob = b"".join(pickle.dumps(payload, 2) for _ in range(n))
    if d.get("ghost:garbage"):
        blob += pickle.dumps(payload, 2)[:-7]
    path = os.path.join(root, ".ropeproject", "history")
    with open(path, "wb") as f:
        f.write(blob)
    return {"self": p.data_files, "name": "history", "records": [payload] * n, "garbage": bool(d.get("ghost:garbage")), "cursor": 0}


REG.contracts["_DataFiles.read_data"].replay = _replay_read_data

from bounded import c18_crash
bounded_check(name="c18-crash-states", fn=c18_crash.run_case, domain=c18_crash.domain, exhaustive=True, serial=False,
              label="B3: every byte prefix of the new history/objectdb files (and every 3rd prefix of the old ones; thorough: every), and a simulated "
                    "process death before each of the first 39 data-file operations of close(), and after every single byte that the REAL close() pushes through write() "
                    "on the data files (partial write, whatever way the save opens/overwrites/truncates them); reopen, history, undo, analyse")

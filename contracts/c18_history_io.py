# C18/C12 — History._load_history / History.write: the loader is safe on "None or a complete saved value", and what is saved has the
# shape the loader indexes (a list of two lists).  read_data's contract "None or the complete value" is proved in c18_datafiles.py.
M = "rope.base.history:"
record("Change", abstract=True)
record("AnyChange", bases=["Change"])
record("_DataFiles", fields={})
record("Project", fields={"data_files": "_DataFiles"})
record("DataToChange", fields={})
record("ChangeToData", fields={})
record("History", fields={"_undo_list": "Seq[Change]", "_redo_list": "Seq[Change]", "project": "Project"},
       pyclass="rope.base.history:History", aliases={"undo_list": "_undo_list", "redo_list": "_redo_list"})
specfun("to_data", ["Change"], "Opaque[CD]", note="ChangeToData()(c)")
specfun("to_change", ["Opaque[CD]"], "Change", note="DataToChange(project)(d)")
ghost("saved", "Seq[Seq[Opaque[CD]]]")
contract("History.save", abstract=True, is_property=True, pure=True, heap_independent=True, params={"self": "History"}, returns="Bool")
specfun("stored", ["_DataFiles", "Str"], "Opt[Seq[Seq[Opaque[CD]]]]", note="what read_data answers for that name: None or the complete saved value")
contract("_DataFiles.read_data", abstract=True, params={"self": "_DataFiles", "name": "Str"}, returns="Opt[Seq[Seq[Opaque[CD]]]]",
         ensures=["implies(not is_none(result), len(val(result)) == 2)", "result == stored(self, name)"],
         note="None or the complete value last written (c18_datafiles.py); History.write only ever writes a list of two lists (proved below)")
contract("_DataFiles.write_data", abstract=True, params={"self": "_DataFiles", "name": "Str", "data": "Seq[Seq[Opaque[CD]]]"},
         requires=["len(data) == 2"], modifies=["saved"], ensures=["saved == data"])
contract("change.DataToChange", abstract=True, params={"project": "Project"}, returns="DataToChange")
contract("change.ChangeToData", abstract=True, params={}, returns="ChangeToData")
contract("DataToChange.__call__", abstract=True, params={"self": "DataToChange", "data": "Opaque[CD]"}, returns="Change",
         ensures=["result == to_change(data)"], note="conversion contract: c12 sidecar")
contract("ChangeToData.__call__", abstract=True, params={"self": "ChangeToData", "change": "Change"}, returns="Opaque[CD]",
         ensures=["result == to_data(change)"])
specfun("max_undos_of", ["History"], "Int")
contract("History._remove_extra_items", abstract=True, params={"self": "History"}, modifies=["self._undo_list"],
         ensures=["len(self._undo_list) <= len(old(self._undo_list))", "len(self._undo_list) <= max(max_undos_of(self), 0)"], note="verified in c11_history.py")
specdef("saved_is", {"sv": "Seq[Seq[Opaque[CD]]]", "u": "Seq[Change]", "r": "Seq[Change]"}, "Bool",
        "len(sv) == 2 and len(sv[0]) == len(u) and len(sv[1]) == len(r) and "
        "forall(lambda k: implies(0 <= k and k < len(u), sv[0][k] == to_data(u[k]))) and "
        "forall(lambda k: implies(0 <= k and k < len(r), sv[1][k] == to_data(r[k])))")

contract("History._load_history", source=M + "History._load_history", params={"self": "History"},
         requires=["len(self._undo_list) == 0", "len(self._redo_list) == 0"],
         modifies=["self._undo_list", "self._redo_list"], raises={},
         loops={1: {"index": "i", "inv": ["len(self._undo_list) == i", "len(self._redo_list) == 0", "not is_none(result) and len(val(result)) == 2",
                                          "forall(lambda k: implies(0 <= k and k < i, self._undo_list[k] == to_change(val(result)[0][k])))"]},
                2: {"index": "j", "inv": ["len(self._redo_list) == j", "not is_none(result) and len(val(result)) == 2",
                                          "len(self._undo_list) == len(val(result)[0])",
                                          "forall(lambda k: implies(0 <= k and k < len(self._undo_list), self._undo_list[k] == to_change(val(result)[0][k])))",
                                          "forall(lambda k: implies(0 <= k and k < j, self._redo_list[k] == to_change(val(result)[1][k])))"]}},
         ensures=[
             # nothing saved, or saving switched off: both lists stay empty
             "implies(not self.save or is_none(stored(self.project.data_files, 'history')), len(self._undo_list) == 0 and len(self._redo_list) == 0)",
             # otherwise both lists are the element-wise conversion of the two saved lists, in order
             "implies(self.save and not is_none(stored(self.project.data_files, 'history')), "
             "        len(self._undo_list) == len(val(stored(self.project.data_files, 'history'))[0]) and len(self._redo_list) == len(val(stored(self.project.data_files, 'history'))[1]) and "
             "        forall(lambda k: implies(0 <= k and k < len(self._undo_list), self._undo_list[k] == to_change(val(stored(self.project.data_files, 'history'))[0][k]))) and "
             "        forall(lambda k: implies(0 <= k and k < len(self._redo_list), self._redo_list[k] == to_change(val(stored(self.project.data_files, 'history'))[1][k]))))"],
         note="no exception for None or a complete value; the loaded lists are the element-wise conversion of the saved ones")
contract("History.write", source=M + "History.write", params={"self": "History"},
         modifies=["self._undo_list", "saved"], raises={},
         ensures=["implies(self.save, saved_is(saved, self._undo_list, self._redo_list))",
                  "implies(self.save, len(self._undo_list) <= max(max_undos_of(self), 0))"],
         locals={"data": "Seq[Seq[Opaque[CD]]]"},
         loops={1: {"index": "i", "elem": "Opaque[CD]", "inv": ["len(_comp) == i", "forall(lambda k: implies(0 <= k and k < i, _comp[k] == to_data(self._undo_list[k])))"]},
                2: {"index": "i", "elem": "Opaque[CD]", "inv": ["len(_comp) == i", "len(data) == 1", "len(data[0]) == len(self._undo_list)",
                                                             "forall(lambda k: implies(0 <= k and k < len(self._undo_list), data[0][k] == to_data(self._undo_list[k])))",
                                                             "forall(lambda k: implies(0 <= k and k < i, _comp[k] == to_data(self._redo_list[k])))"]}},
         note="what is saved is a list of exactly two lists (call precondition of write_data)")

# C16 — rope.base.resources.File.read: the newline convention remembered for the next write is the one of the bytes just read
R = "rope.base.resources:"
B = "Opaque[Bytes]"
ghost("disk", B)        # the bytes of the file at the moment of the read
record("File", fields={"newlines": "Opt[Str]"})
specfun("text_of", [B], "Str", note="fscommands.file_data_to_unicode(data)[0] (c16_decode.py)")
specfun("nl_of", [B], "Str", note="fscommands.file_data_to_unicode(data)[1]: the detected newline convention (c16_decode.py)")
contract("File.read_bytes", abstract=True, params={"self": "File"}, returns=B, ensures=["result == disk"], note="the file's bytes (OS errors are outside this contract)")
contract("fscommands.file_data_to_unicode", abstract=True, pure=True, heap_independent=True, params={"data": B, "encoding": "Opt[Str]"}, defaults={"encoding": "None"},
         returns="Tuple[Str,Str]", ensures=["result[0] == text_of(data)", "result[1] == nl_of(data)"],
         note="verified in c16_decode.py: never raises (latin-1 fallback), LF-only text, convention detected")
contract("File.read", source=R + "File.read", params={"self": "File"}, returns="Str", modifies=["self.newlines"], raises={},
         ensures=["result == text_of(disk)",
                  # every read refreshes the remembered convention: a later write uses the convention the file has NOW, not the one it once had
                  "self.newlines == Some(nl_of(disk))"],
         note="read returns the decoded LF-only text and records the file's current newline convention")

# ---- the write side: _ResourceOperations.write_file ------------------------------------------------------------------------
C = "rope.base.change:"
ghost("written_path", "Str")
ghost("written_data", B)
ghost("writes", "Int")
ghost("notified", "Int")
record("FSCommands", fields={})
record("Observer", fields={})
record("Project", fields={"observers": "Seq[Observer]"})
record("_ResourceOperations", fields={"project": "Project"})
REG.records["File"].fields.update({"real_path": "Str"})
specfun("u2f", ["Str", "Opt[Str]"], B, note="fscommands.unicode_to_file_data(contents, newlines=...) (c16_bytes.py)")
contract("rope.base.fscommands.unicode_to_file_data", abstract=True, pure=True, heap_independent=True,
         params={"contents": "Str", "encoding": "Opt[Str]", "newlines": "Opt[Str]"}, defaults={"encoding": "None", "newlines": "None"}, returns=B,
         ensures=["implies(is_none(encoding), result == u2f(contents, newlines))"],
         raises={"UnicodeEncodeError": {}},
         note="verified in c16_bytes.py: the text in the file's newline convention, in the declared or default codec; an unencodable text is reported")
contract("_ResourceOperations._get_fscommands", abstract=True, pure=True, params={"self": "_ResourceOperations", "resource": "File"}, returns="FSCommands")
contract("FSCommands.write", abstract=True, params={"self": "FSCommands", "path": "Str", "data": B}, modifies=["written_path", "written_data", "writes"],
         ensures=["written_path == path", "written_data == data", "writes == old(writes) + 1"], raises={"OSError": {"ensures": ["writes == old(writes)"]}})
contract("Observer.resource_changed", abstract=True, params={"self": "Observer", "resource": "File"}, modifies=["notified"], ensures=["notified == old(notified) + 1"])
contract("_ResourceOperations.write_file", source=C + "_ResourceOperations.write_file", params={"self": "_ResourceOperations", "resource": "File", "contents": "Str"},
         modifies=["written_path", "written_data", "writes", "notified"],
         ensures=["writes == old(writes) + 1", "written_path == resource.real_path",
                  # what reaches the disk is the text in the convention the File object remembers from its last read
                  "written_data == u2f(contents, resource.newlines)",
                  "notified == old(notified) + len(self.project.observers)"],
         raises={"UnicodeEncodeError": {"ensures": ["writes == old(writes)", "notified == old(notified)"]},
                 "OSError": {"ensures": ["writes == old(writes)", "notified == old(notified)"]}},
         loops={1: {"index": "k", "inv": ["notified == old(notified) + k", "writes == old(writes) + 1", "written_path == resource.real_path",
                                          "written_data == u2f(contents, resource.newlines)"]}},
         note="one write of the encoded text, then every project observer is told exactly once; a failed encode or write changes nothing and tells nobody "
              "(the bytes branch of the Union parameter is not modelled)")

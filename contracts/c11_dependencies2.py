# C11 — _FindChangeDependencies.__call__: what a selective undo takes along, and what it leaves in force
M = "rope.base.history:"
record("Resource", fields={})
record("Change", fields={})
record("_FindChangeDependencies", fields={"change": "Change", "change_list": "Seq[Change]", "changed_resources": "Set[Resource]"})
specfun("res_of", ["Change"], "Seq[Resource]", note="change.get_changed_resources() (no None entries: true of every change class in rope.base.change)")
specfun("related", ["Resource", "Resource"], "Bool", note="same resource, or one contains the other (c11_dependencies.py)")
contract("Change.get_changed_resources", abstract=True, pure=True, heap_independent=True, params={"self": "Change"}, returns="Seq[Resource]", ensures=["result == res_of(self)"])
specdef("dep", {"c": "Change", "S": "Set[Resource]"}, "Bool",
        "exists(lambda i, x: 0 <= i and i < len(res_of(c)) and select(S, x) and related(res_of(c)[i], x), 'Int', 'Resource')")
contract("_FindChangeDependencies._depends_on", abstract=True, params={"self": "_FindChangeDependencies", "changes": "Change", "result": "Seq[Change]"}, returns="Bool",
         ensures=["implies(result, dep(changes, self.changed_resources))", "implies(not result, not dep(changes, self.changed_resources))"],
         note="verified (two-sided) in c11_dependencies.py")
specdef("distinct", {"s": "Seq[Change]"}, "Bool", "forall(lambda a, b: implies(0 <= a and a < b and b < len(s), s[a] != s[b]))")
specdef("has", {"s": "Seq[Change]", "x": "Change"}, "Bool", "exists(lambda k: 0 <= k and k < len(s) and s[k] == x)")
specdef("covers", {"S": "Set[Resource]", "c": "Change"}, "Bool", "forall(lambda a: implies(0 <= a and a < len(res_of(c)), select(S, res_of(c)[a])))")
contract("_FindChangeDependencies.__call__", source=M + "_FindChangeDependencies.__call__", params={"self": "_FindChangeDependencies"}, returns="Seq[Change]",
         requires=["len(self.change_list) >= 1", "self.change == self.change_list[0]", "covers(self.changed_resources, self.change)", "distinct(self.change_list)"],
         modifies=["self.changed_resources"], raises={}, locals={"result": "Seq[Change]"},
         ensures=[
             "len(result) >= 1 and result[0] == self.change",
             # everything taken along is covered by the final resource set and (after the first) touched a resource collected before it
             "forall(lambda t: implies(0 <= t and t < len(result), covers(self.changed_resources, result[t])))",
             "forall(lambda t: implies(1 <= t and t < len(result), dep(result[t], self.changed_resources)))",
             # everything left in force does not touch any resource of the chosen change
             "forall(lambda i: implies(1 <= i and i < len(self.change_list) and not (self.change_list[i] in result), "
             "       forall(lambda a, b: implies(0 <= a and a < len(res_of(self.change_list[i])) and 0 <= b and b < len(res_of(self.change)), "
             "              not related(res_of(self.change_list[i])[a], res_of(self.change)[b])))))",
             # closure: a change left in force is unrelated to EVERY earlier change that is taken along (complete w.r.t. list order)
             "forall(lambda k, j: implies(1 <= k and k < len(self.change_list) and 0 <= j and j < k and not (self.change_list[k] in result) and has(result, self.change_list[j]), "
             "       forall(lambda a, b: implies(0 <= a and a < len(res_of(self.change_list[k])) and 0 <= b and b < len(res_of(self.change_list[j])), "
             "              not related(res_of(self.change_list[k])[a], res_of(self.change_list[j])[b])))))",
             "forall(lambda x: implies(select(old(self.changed_resources), x), select(self.changed_resources, x)), 'Resource')",
             # only changes of the list are taken, at most once per position; nothing follows => only the change itself
             "len(result) <= len(self.change_list)",
             "forall(lambda t: implies(1 <= t and t < len(result), exists(lambda k: 1 <= k and k < len(self.change_list) and self.change_list[k] == result[t])))",
             "implies(len(self.change_list) == 1, result == [self.change])",
             # no change is taken twice
             "distinct(result)"],
         loops={1: {"index": "i", "inv": [
             "len(result) <= i + 1",
             "distinct(result)",
             "forall(lambda t: implies(0 <= t and t < len(result), exists(lambda k: 0 <= k and k < i + 1 and self.change_list[k] == result[t])))",
             "forall(lambda t: implies(1 <= t and t < len(result), exists(lambda k: 1 <= k and k < i + 1 and self.change_list[k] == result[t])))",
             "len(result) >= 1 and result[0] == self.change",
             "forall(lambda x: implies(select(old(self.changed_resources), x), select(self.changed_resources, x)), 'Resource')",
             "forall(lambda t: implies(0 <= t and t < len(result), covers(self.changed_resources, result[t])))",
             "forall(lambda t: implies(1 <= t and t < len(result), dep(result[t], self.changed_resources)))",
             "forall(lambda j: implies(0 <= j and j < i + 1 and has(result, self.change_list[j]), covers(self.changed_resources, self.change_list[j])))",
             "forall(lambda k, j: implies(1 <= k and k < i + 1 and 0 <= j and j < k and not (self.change_list[k] in result) and has(result, self.change_list[j]), "
             "       forall(lambda a, b: implies(0 <= a and a < len(res_of(self.change_list[k])) and 0 <= b and b < len(res_of(self.change_list[j])), "
             "              not related(res_of(self.change_list[k])[a], res_of(self.change_list[j])[b])))))",
             "forall(lambda k: implies(1 <= k and k < i + 1 and not (self.change_list[k] in result), "
             "       forall(lambda a, b: implies(0 <= a and a < len(res_of(self.change_list[k])) and 0 <= b and b < len(res_of(self.change)), "
             "              not related(res_of(self.change_list[k])[a], res_of(self.change)[b])))))"]}},
         note="taken along = touches something already collected (in list order); left in force = disjoint from the chosen change's own resources")
contract("_FindChangeDependencies.__init__", source=M + "_FindChangeDependencies.__init__", params={"self": "_FindChangeDependencies", "change_list": "Seq[Change]"}, returns="NoneT",
         requires=["len(change_list) >= 1"], modifies=["self.change", "self.change_list", "self.changed_resources"], raises={},
         ensures=["self.change_list == change_list", "self.change == change_list[0]", "covers(self.changed_resources, self.change)",
                  # nothing but the chosen change's own resources to start with
                  "forall(lambda x: implies(select(self.changed_resources, x), exists(lambda a: 0 <= a and a < len(res_of(self.change)) and res_of(self.change)[a] == x)), 'Resource')"],
         note="establishes the precondition of __call__")

record("History", fields={})
contract("History._find_dependencies", source=M + "History._find_dependencies", params={"self": "History", "change_list": "Seq[Change]", "change": "Change"},
         returns="Seq[Change]", requires=["len(change_list) >= 1", "change in change_list", "distinct(change_list)"], modifies=[], raises={},
         ensures=["len(result) >= 1", "result[0] == change", "len(result) <= len(change_list)",
                  "implies(change == change_list[len(change_list) - 1], result == [change])",
                  "forall(lambda t: implies(0 <= t and t < len(result), exists(lambda k: 0 <= k and k < len(change_list) and change_list[k] == result[t])))",
                  "distinct(result)"],
         note="the contract History.undo/redo use (c11_history.py), here verified from the body: index, slice, constructor, __call__")

# ---- History.get_file_undo_list: the changes of the undo list that touch a resource --------------------------------------------------------
REG.records["History"].fields.update({"_undo_list": "Seq[Change]"})
REG.records["History"].aliases = {"undo_list": "_undo_list"}
specdef("touches", {"c": "Change", "r": "Resource"}, "Bool", "exists(lambda a: 0 <= a and a < len(res_of(c)) and res_of(c)[a] == r)")
contract("History.get_file_undo_list", source=M + "History.get_file_undo_list", params={"self": "History", "resource": "Resource"}, returns="Seq[Change]",
         modifies=[], raises={},
         ensures=["forall(lambda t: implies(0 <= t and t < len(result), has(self._undo_list, result[t]) and resource in res_of(result[t])))",
                  "forall(lambda k: implies(0 <= k and k < len(self._undo_list) and resource in res_of(self._undo_list[k]), self._undo_list[k] in result))",
                  "len(result) <= len(self._undo_list)"],
         loops={1: {"index": "i", "elem": "Change", "inv": [
             "len(_comp) <= i",
             "forall(lambda t: implies(0 <= t and t < len(_comp), exists(lambda k: 0 <= k and k < i and self._undo_list[k] == _comp[t]) and resource in res_of(_comp[t])))",
             "forall(lambda k: implies(0 <= k and k < i and resource in res_of(self._undo_list[k]), self._undo_list[k] in _comp))"]}},
         note="exactly the recorded changes that announce the resource, none missing")

# ---- CPython cross-check of the dependency search on real _FindChangeDependencies objects with stand-in changes ---------------------------------
class _XcR2:
    def __init__(self, path, folder=False):
        self.path, self._folder = path, folder

    def is_folder(self):
        return self._folder

    def contains(self, other):
        return self is not other and (self.path == "" or other.path.startswith(self.path + "/"))


class _XcC2:
    def __init__(self, name, resources):
        self.name, self._res = name, resources

    def get_changed_resources(self):
        return list(self._res)

    def __repr__(self):
        return self.name


def _xc_dep_domain(tier, seed):
    import itertools
    n_shapes = 6
    for n in range(1, 5):
        for combo in itertools.product(range(n_shapes), repeat=n):
            if n >= 4 and hash(combo) % 5:
                continue
            yield combo


def _xc_dep_build(combo):
    from rope.base import history
    shapes = [["a.py"], ["pkg/m.py"], ["pkg"], ["b.py"], ["a.py", "pkg"], ["newpkg/m.py", "b.py"]]
    rs = {p: _XcR2(p, p in ("pkg", "newpkg")) for p in ("a.py", "pkg", "pkg/m.py", "b.py", "newpkg/m.py", "newpkg")}
    changes = [_XcC2("c%d" % i, [rs[p] for p in shapes[k]]) for i, k in enumerate(combo)]
    return {"self": history._FindChangeDependencies(changes), "__dom_Resource__": list(rs.values())}


def _xc_related(r, c):
    return r is c or (r.is_folder() and r.contains(c)) or (c.is_folder() and c.contains(r))


bounded_check(name="c11-dependencies-native", props=["C11"], contract="_FindChangeDependencies.__call__", build=_xc_dep_build, domain=_xc_dep_domain, exhaustive=True,
              env={"res_of": lambda c: c.get_changed_resources(), "related": _xc_related},
              label="CPython cross-check: the dependency-search contract (taken along = touches something already collected; left in force = unrelated to the chosen "
                    "change) on real objects: every list of <= 3 (a fifth of those of 4) changes over files, a package, a module inside it and a second package")


def _xc_dep_closure(combo):
    """the closure clause of __call__ (post-4, proved), evaluated independently of the contract text: a change left in force is unrelated to EVERY earlier change that is taken along
    (the dependency closure is complete with respect to list order) -- evaluated on the real __call__"""
    d = _xc_dep_build(combo)
    finder = d["self"]
    cl = list(finder.change_list)
    result = finder()
    taken = {id(c) for c in result}
    for q in range(1, len(cl)):
        if id(cl[q]) in taken:
            continue
        for p in range(0, q):
            if id(cl[p]) not in taken:
                continue
            for a in cl[q].get_changed_resources():
                for b in cl[p].get_changed_resources():
                    if _xc_related(a, b):
                        return {"status": "fail", "clause": "a change left in force is unrelated to every earlier change taken along",
                                "why": "%r stays in force although it touches %s, which is related to %s of the earlier undone %r" % (cl[q], a.path, b.path, cl[p]),
                                "observed": {"taken": [repr(c) for c in result]}}
    return {"status": "ok", "nontrivial": len(result) < len(cl)}


bounded_check(name="c11-dependency-closure-native", props=["C11"], fn=_xc_dep_closure, domain=_xc_dep_domain, exhaustive=True,
              label="CPython cross-check of the closure clause (post-4 of __call__) written independently of the contract text: on the same domain, nothing left in force "
                    "touches a resource related to an EARLIER change that is undone")

# C03 — conditional / loop context tracking of the extract analysis: rope.refactor.extract._FunctionInformationCollector
# (context managers written as generators: the code before `yield` runs on entry, the `finally` part on exit)
M = "rope.refactor.extract:"
record("Node", fields={"lineno": "Int"})
record("_FunctionInformationCollector", fields={"start": "Int", "end": "Int", "conditional": "Bool", "post_conditional": "Bool", "loop_depth": "Int"})
contract("_FunctionInformationCollector._handle_conditional_context", source=M + "_FunctionInformationCollector._handle_conditional_context",
         params={"self": "_FunctionInformationCollector", "node": "Node"}, returns="Seq[NoneT]", modifies=["self.conditional", "self.post_conditional"], raises={},
         ensures=["self.conditional == old(self.conditional)", "self.post_conditional == old(self.post_conditional)", "len(result) == 1"],
         at_yield=[  # inside the construct: conditional once a conditional construct starts within the region, post-conditional once one starts after it
             "self.conditional == (old(self.conditional) or (self.start <= node.lineno and node.lineno <= self.end))",
             "self.post_conditional == (old(self.post_conditional) or self.end < node.lineno)"],
         note="leaving a conditional construct restores the context of the enclosing one (nested conditionals)")
contract("_FunctionInformationCollector._handle_loop_context", source=M + "_FunctionInformationCollector._handle_loop_context",
         params={"self": "_FunctionInformationCollector", "node": "Node"}, returns="Seq[NoneT]", modifies=["self.loop_depth"], raises={},
         ensures=["self.loop_depth == old(self.loop_depth)", "len(result) == 1"],
         at_yield=["self.loop_depth == old(self.loop_depth) + ite(node.lineno < self.start, 1, 0)"],
         note="the loop depth after a loop is the loop depth before it, whether or not the loop starts before the region")

from bounded import c03_extract as _b3
bounded_check(name="c03-extract", fn=_b3.run_case, domain=_b3.domain, exhaustive=True, max_failures=100000, max_failures_per_chunk=100000,
              label="B3: 2 744 function bodies (3 statements out of 14 templates over x, y) x every contiguous region = 16 464 extractions executed before/after on 9 inputs, "
                    "plus 10 fixed regions (break/continue/return/yield, comprehension targets, extract variable with parentheses, similar=True, try, with)")

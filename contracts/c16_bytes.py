# C16 — files survive byte-for-byte: rope.base.fscommands text<->bytes conversion
# Codecs and str.replace are external: enc/dec/encodable/decodable and nl_to/nl_from are uninterpreted, with the axioms listed below.
M = "rope.base.fscommands:"
B = "Opaque[Bytes]"
specfun("enc", ["Str", "Str"], B, note="contents.encode(codec)")
specfun("dec", [B, "Str"], "Str", note="data.decode(codec)")
specfun("encodable", ["Str", "Str"], "Bool")
specfun("decodable", [B, "Str"], "Bool")
specfun("known_codec", ["Str"], "Bool")
specfun("nl_to", ["Str", "Str"], "Str", note="text.replace('\\n', newlines)")
specfun("repl", ["Str", "Str", "Str"], "Str", note="str.replace(old, new): all occurrences")
specfun("cookie_str", ["Str"], "Opt[Str]", note="read_str_coding on text")
specfun("cookie_bytes", [B], "Opt[Str]", note="read_str_coding on bytes")

contract("Str.encode", external=True, params={"self": "Str", "encoding": "Str"}, defaults={"encoding": "'utf-8'"}, returns=B, pure=True,
         ensures=["result == enc(self, encoding)", "encodable(self, encoding)", "known_codec(encoding)"],
         raises={"UnicodeEncodeError": {"when": "known_codec(encoding) and not encodable(self, encoding)", "exact": True},
                 "LookupError": {"when": "not known_codec(encoding)", "exact": True}},
         note="str.encode: UnicodeEncodeError iff the codec cannot represent the text, LookupError for an unknown codec name")
contract("Bytes.decode", external=True, params={"self": B, "encoding": "Str"}, returns="Str", pure=True,
         ensures=["result == dec(self, encoding)", "decodable(self, encoding)", "known_codec(encoding)"],
         raises={"UnicodeDecodeError": {"when": "known_codec(encoding) and not decodable(self, encoding)", "exact": True},
                 "LookupError": {"when": "not known_codec(encoding)", "exact": True}})
contract("Str.replace", external=True, params={"self": "Str", "old": "Str", "new": "Str"}, returns="Str", pure=True,
         ensures=["result == repl(self, old, new)"])
contract("FileContent", external=True, params={"x": B}, returns=B, pure=True, ensures=["result == x"], note="typing.NewType: identity")
axiom("latin1_total", {"b": B}, "decodable(b, 'latin1') and known_codec('latin1')", note="latin-1 decodes every byte string")
axiom("utf8_total", {"s": "Str"}, "known_codec('utf-8')", note="utf-8 is a known codec")
axiom("repl_removes", {"s": "Str"}, "not ('\\r' in repl(repl(s, '\\r\\n', '\\n'), '\\r', '\\n'))",
      note="after replacing every CRLF and then every CR by LF no CR is left (property of str.replace; bounded-checked)")
axiom("repl_absent", {"s": "Str", "a": "Str", "b": "Str"}, "implies(not (a in s), repl(s, a, b) == s)", patterns=["repl(s, a, b)"],
      note="replace of an absent substring is the identity")

contract("read_str_coding", abstract=True, pure=True, heap_independent=True, params={"source": "Str"}, returns="Opt[Str]",
         ensures=["result == cookie_str(source)"], note="bounded stand-in: agreement with the PEP 263 pattern")

contract("unicode_to_file_data", source=M + "unicode_to_file_data", params={"contents": "Str", "encoding": "Opt[Str]", "newlines": "Opt[Str]"}, defaults={"encoding": "None", "newlines": "None"}, returns=B,
         ensures=[
             # the text that is encoded: LF replaced by the file's newline convention exactly when one other than LF is given
             "implies(is_none(newlines) or val(newlines) == '\\n' or val(newlines) == '', "
             "        result == enc(contents, ite(not is_none(encoding), val(encoding), ite(not is_none(cookie_str(contents)), val(cookie_str(contents)), 'utf-8'))))",
             "implies(not is_none(newlines) and val(newlines) != '\\n' and val(newlines) != '', "
             "        result == enc(repl(contents, '\\n', val(newlines)), ite(not is_none(encoding), val(encoding), "
             "                      ite(not is_none(cookie_str(repl(contents, '\\n', val(newlines)))), val(cookie_str(repl(contents, '\\n', val(newlines)))), 'utf-8'))))"],
         raises={"UnicodeEncodeError": {}, "LookupError": {}},
         note="bytes written = text with the file's newline convention, in the declared (cookie) encoding, else UTF-8; a declared codec that cannot "
              "represent the text or is unknown is reported, never silently replaced")

from bounded import c16_bytes as _b16
bounded_check(name="c16-files", fn=_b16.run_case, domain=_b16.domain, exhaustive=True,
              label="B3: real files: 9 headers (no cookie, utf-8/latin-1/iso-8859-15 cookies on line 1 or 2, BOM, form feed, NEL, 'encoding coding:') x bodies of "
                    "<= 2 (thorough 3) lines out of 4 x {LF, CRLF, CR} x final newline or not: identity write, edit, read-back, undo, convention changed behind rope's back")
bounded_check(name="c16-cookie", fn=_b16.cookie_case, domain=_b16.cookie_domain, exhaustive=True,
              label="B3: every comment-ish line of <= 5 (thorough 6) tokens out of 11, on line 1, line 2 and line 3, str and bytes: read_str_coding == PEP 263 group 1")

# C09 — performing a change touches only what it announces: rope.base.change.ChangeSet.get_changed_resources reports every child's resources
M = "rope.base.change:"
record("Resource", fields={})
record("Change", abstract=True)
record("LeafChange", bases=["Change"])
record("ChangeSet", bases=["Change"], fields={"changes": "Seq[Change]"})
specfun("res_of", ["Change"], "Set[Resource]", note="the resources a child change announces")
contract("Change.get_changed_resources", abstract=True, pure=True, heap_independent=True, params={"self": "Change"}, returns="Set[Resource]",
         ensures=["result == res_of(self)"])
contract("ChangeSet.get_changed_resources", source=M + "ChangeSet.get_changed_resources", params={"self": "ChangeSet"}, returns="Set[Resource]",
         modifies=[], raises={}, locals={"result": "Set[Resource]"},
         ensures=["forall(lambda k, x: implies(0 <= k and k < len(self.changes) and select(res_of(self.changes[k]), x), select(result, x)), 'Int', 'Resource')"],
         loops={1: {"index": "i", "inv": ["forall(lambda k, x: implies(0 <= k and k < i and select(res_of(self.changes[k]), x), select(result, x)), 'Int', 'Resource')"]}},
         note="everything a child announces is announced by the composite (the composite's effect is the children's effects: C10 contract)")

from bounded import c09_purity as _b9
bounded_check(name="c09-grid", fn=_b9.grid_case, domain=_b9.grid_domain, exhaustive=True, serial=True, max_failures=100000, max_failures_per_chunk=100000,
              label="B3: 12 refactorings x every offset of a 17-line module (4 920 requests) under an effect monitor and a disk snapshot: outcome is a change object or a RopeError, no mutator called")
bounded_check(name="c09-announced", fn=_b9.announced_case, domain=_b9.announced_domain, exhaustive=True, serial=True,
              label="B3: 9 scenarios (out-of-project library x 6 refactorings, ignored folder and any-depth `//` pattern, module moved into an ignored folder with a warm "
                    "file list, resources= restriction): announced resources inside the project and not ignored; disk changes == announced")

# C11/C10 — the leaf changes against an abstract file-system map: undo after do restores the map (where it can), do is all-or-nothing.
# Ghost `fs`: path -> Some(text) for a file holding that text (as File.read() returns it), Some(DIR) for a folder, None when absent.
# The undecorated bodies are what `_handle_job_set.call` runs as `function(self)` (c10_change.py).
M = "rope.base.change:"
ghost("fs", "Map[Str,Str]")
record("Resource", abstract=True, fields={"_path": "Str"})
record("File", bases=["Resource"])
record("Folder", bases=["Resource"])
record("Ops", fields={})
record("Change", abstract=True)
record("ChangeContents", bases=["Change"], fields={"resource": "Resource", "new_contents": "Str", "old_contents": "Opt[Str]"})
record("MoveResource", bases=["Change"], fields={"resource": "Resource", "new_resource": "Resource"})
record("CreateResource", bases=["Change"], fields={"resource": "Resource"})
record("RemoveResource", bases=["Change"], fields={"resource": "Resource"})
exception("HistoryError", "RopeError")
specdef("P", {"r": "Resource"}, "Str", "r._path")
specdef("wr", {"m": "Map[Str,Str]", "p": "Str", "v": "Opt[Str]"}, "Map[Str,Str]", "store_opt(m, p, v)")

contract("Change._operations", abstract=True, is_property=True, pure=True, heap_independent=True, params={"self": "Change"}, returns="Ops",
         note="_ResourceOperations of the project (cached by utils.saveit)")
contract("Resource.read", abstract=True, params={"self": "Resource"}, returns="Str", requires=["not is_none(select(fs, P(self)))"],
         ensures=["Some(result) == select(fs, P(self))"], note="File.read(): the text the file holds (codec round trip: C16)")
OPS = {"note": "effect of one _ResourceOperations call on the tree; either it happens completely or it raises and nothing changed (OS-level atomicity of one "
               "file-system call assumed; the real method also notifies observers: C13)"}
contract("Ops.write_file", abstract=True, params={"self": "Ops", "resource": "Resource", "contents": "Str"}, modifies=["fs"],
         ensures=["fs == wr(old(fs), P(resource), Some(contents))"], raises={"Exception": {"ensures": ["fs == old(fs)"]}}, **OPS)
contract("Ops.move", abstract=True, params={"self": "Ops", "resource": "Resource", "new_resource": "Resource"}, modifies=["fs"],
         ensures=["fs == wr(wr(old(fs), P(resource), None), P(new_resource), select(old(fs), P(resource)))"],
         raises={"Exception": {"ensures": ["fs == old(fs)"]}}, **OPS)
contract("Ops.create", abstract=True, params={"self": "Ops", "resource": "Resource"}, modifies=["fs"],
         ensures=["is_none(select(old(fs), P(resource)))", "fs == wr(old(fs), P(resource), Some(''))"],
         raises={"Exception": {"ensures": ["fs == old(fs)"]}}, **OPS)
contract("Ops.remove", abstract=True, params={"self": "Ops", "resource": "Resource"}, modifies=["fs"],
         ensures=["fs == wr(old(fs), P(resource), None)"], raises={"Exception": {"ensures": ["fs == old(fs)"]}}, **OPS)

ALL_OR_NOTHING = {"Exception": {"ensures": ["fs == old(fs)"]}}
contract("ChangeContents.do", source=M + "ChangeContents.do", params={"self": "ChangeContents"},
         requires=["not is_none(select(fs, P(self.resource)))"], modifies=["fs", "self.old_contents"],
         ensures=["fs == wr(old(fs), P(self.resource), Some(self.new_contents))",
                  "implies(is_none(old(self.old_contents)), self.old_contents == select(old(fs), P(self.resource)))",
                  "implies(not is_none(old(self.old_contents)), self.old_contents == old(self.old_contents))"],
         raises=ALL_OR_NOTHING, note="old contents captured exactly once, at the first do")
contract("ChangeContents.undo", source=M + "ChangeContents.undo", params={"self": "ChangeContents"},
         modifies=["fs"], ensures=["not is_none(self.old_contents)", "fs == wr(old(fs), P(self.resource), self.old_contents)"],
         raises={"HistoryError": {"when": "is_none(self.old_contents)", "ensures": ["fs == old(fs)"]}, "Exception": {"ensures": ["fs == old(fs)"]}})
contract("MoveResource.do", source=M + "MoveResource.do", params={"self": "MoveResource"}, modifies=["fs"],
         ensures=["fs == wr(wr(old(fs), P(self.resource), None), P(self.new_resource), select(old(fs), P(self.resource)))"], raises=ALL_OR_NOTHING)
contract("MoveResource.undo", source=M + "MoveResource.undo", params={"self": "MoveResource"}, modifies=["fs"],
         ensures=["fs == wr(wr(old(fs), P(self.new_resource), None), P(self.resource), select(old(fs), P(self.new_resource)))"], raises=ALL_OR_NOTHING)
contract("CreateResource.do", source=M + "CreateResource.do", params={"self": "CreateResource"}, modifies=["fs"],
         ensures=["is_none(select(old(fs), P(self.resource)))", "fs == wr(old(fs), P(self.resource), Some(''))"], raises=ALL_OR_NOTHING)
contract("CreateResource.undo", source=M + "CreateResource.undo", params={"self": "CreateResource"}, modifies=["fs"],
         ensures=["fs == wr(old(fs), P(self.resource), None)"], raises=ALL_OR_NOTHING)
contract("RemoveResource.do", source=M + "RemoveResource.do", params={"self": "RemoveResource"}, modifies=["fs"],
         ensures=["fs == wr(old(fs), P(self.resource), None)"], raises=ALL_OR_NOTHING)
contract("RemoveResource.undo", source=M + "RemoveResource.undo", params={"self": "RemoveResource"}, modifies=["fs"],
         ensures=["True"], raises=ALL_OR_NOTHING,
         note="an inverse of remove would have to restore the removed contents; the method raises NotImplementedError (known finding)")

# ---- inverse laws over the contracts (the axiom `unapply(c, apply(c, t)) == t` of c10_change.py / c11_history.py, per leaf class) ----------------
V = {"f0": "Map[Str,Str]", "f1": "Map[Str,Str]", "f2": "Map[Str,Str]"}
lemma("undo_inverts_do_ChangeContents", dict(V, p="Str", new="Str", oldc="Opt[Str]"),
      ["not is_none(select(f0, p))",                               # the file exists
       "f1 == wr(f0, p, Some(new))", "oldc == select(f0, p)",      # ChangeContents.do (first time)
       "f2 == wr(f1, p, oldc)"],                                   # ChangeContents.undo
      "f2 == f0", note="content change: undo writes back exactly what do captured")
lemma("undo_inverts_do_MoveResource", dict(V, p="Str", q="Str"),
      ["p != q", "not is_none(select(f0, p))", "is_none(select(f0, q))",     # source exists, DESTINATION ABSENT
       "f1 == wr(wr(f0, p, None), q, select(f0, p))", "f2 == wr(wr(f1, q, None), p, select(f1, q))"],
      "f2 == f0", note="a move is undone exactly when the destination did not exist before (moving onto an existing file loses it: known finding)")
lemma("undo_inverts_do_CreateResource", dict(V, p="Str"),
      ["is_none(select(f0, p))", "f1 == wr(f0, p, Some(''))", "f2 == wr(f1, p, None)"], "f2 == f0")
lemma("redo_inverts_undo_ChangeContents", dict(V, p="Str", new="Str", oldc="Opt[Str]"),
      ["f1 == wr(f0, p, oldc)", "select(f0, p) == Some(new)", "f2 == wr(f1, p, Some(new))"], "f2 == f0")

# ---- C09: what a leaf announces (get_changed_resources) covers what its do() touches ------------------------------------------------------
for _cls, _body in (("ChangeContents", ["self.resource"]), ("MoveResource", ["self.resource", "self.new_resource"]),
                    ("CreateResource", ["self.resource"]), ("RemoveResource", ["self.resource"])):
    contract(_cls + ".get_changed_resources", source=M + _cls + ".get_changed_resources", params={"self": _cls}, returns="Seq[Resource]", modifies=[], raises={},
             ensures=["len(result) == %d" % len(_body)] + ["result[%d] == %s" % (i, e) for i, e in enumerate(_body)],
             note="the resources this leaf announces")
specdef("announced_path", {"rs": "Seq[Resource]", "p": "Str"}, "Bool", "exists(lambda k: 0 <= k and k < len(rs) and P(rs[k]) == p)")
W = dict(V, rs="Seq[Resource]")
lemma("touched_is_announced_ChangeContents", dict(W, c="ChangeContents", p="Str"),
      ["f1 == wr(f0, P(c.resource), Some(c.new_contents))", "not announced_path(rs, p)"], "select(f1, p) == select(f0, p)",
      uses=[("ChangeContents.get_changed_resources", {"self": "c", "result": "rs"})],
      note="ChangeContents.do leaves every path it does not announce as it was")
lemma("touched_is_announced_MoveResource", dict(W, c="MoveResource", p="Str"),
      ["f1 == wr(wr(f0, P(c.resource), None), P(c.new_resource), select(f0, P(c.resource)))", "not announced_path(rs, p)"], "select(f1, p) == select(f0, p)",
      uses=[("MoveResource.get_changed_resources", {"self": "c", "result": "rs"})],
      note="a move touches the old and the new path only, and announces both")
lemma("touched_is_announced_CreateResource", dict(W, c="CreateResource", p="Str"),
      ["f1 == wr(f0, P(c.resource), Some(''))", "not announced_path(rs, p)"], "select(f1, p) == select(f0, p)",
      uses=[("CreateResource.get_changed_resources", {"self": "c", "result": "rs"})])
lemma("touched_is_announced_RemoveResource", dict(W, c="RemoveResource", p="Str"),
      ["f1 == wr(f0, P(c.resource), None)", "not announced_path(rs, p)"], "select(f1, p) == select(f0, p)",
      uses=[("RemoveResource.get_changed_resources", {"self": "c", "result": "rs"})])

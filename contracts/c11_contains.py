# C11 — what "touches the same resource or something inside it" means: Resource.__eq__ and Folder.contains over paths
M = "rope.base.resources:"
record("Resource", abstract=True, fields={"_path": "Str"})
record("File", bases=["Resource"])
record("Folder", bases=["Resource"])
contract("Resource.path", source=M + "Resource.path", is_property=True, inline=True, params={"self": "Resource"}, returns="Str")
contract("Resource.__eq__", source=M + "Resource.__eq__", params={"self": "Resource", "obj": "Resource"}, returns="Bool", modifies=[], raises={},
         ensures=["result == (class_of(self) == class_of(obj) and self._path == obj._path)"],
         note="two resource objects are equal iff same kind and same project-relative path (objects are created afresh by every lookup)")
# below(p, q): path p lies strictly inside folder path q -- q is the root (""), or p continues q after a "/"
specdef("below", {"p": "Str", "q": "Str"}, "Bool", "q == '' or (len(p) > len(q) + 1 and p[0:len(q)] == q and p[len(q)] == '/') or (len(p) == len(q) + 1 and p[0:len(q)] == q and p[len(q)] == '/')")
contract("Folder.contains", source=M + "Folder.contains", params={"self": "Folder", "resource": "Resource"}, returns="Bool", modifies=[], raises={},
         ensures=["implies(result, below(resource._path, self._path))", "implies(result, len(self._path) <= len(resource._path))",
                  "implies(below(resource._path, self._path) and not (class_of(self) == class_of(resource) and self._path == resource._path), result)",
                  # never itself, and never something whose path merely starts with the same characters (pkg vs pkg2/mod.py)
                  "implies(class_of(self) == class_of(resource) and self._path == resource._path, not result)"],
         note="containment is a statement about paths: a folder contains everything whose path continues its own after a slash; the root contains everything else")

# ---- CPython cross-check on real Resource objects --------------------------------------------------------------------------------------
def _xc_res_domain(tier, seed):
    paths = ["", "a", "ab", "a/b", "a/bc", "a/b/c", "b", "a/", "ab/c"]
    for p in paths:
        for q in paths:
            for kq in ("File", "Folder"):
                yield (p, q, kq)


def _xc_res_build(case):
    from rope.base import resources
    p, q, kq = case
    a = object.__new__(resources.Folder)
    a._path, a.project = p, None
    b = object.__new__(getattr(resources, kq))
    b._path, b.project = q, None
    return {"self": a, "resource": b}


REG.records["Resource"].pyclass = "rope.base.resources:Resource"
REG.records["File"].pyclass = "rope.base.resources:File"
REG.records["Folder"].pyclass = "rope.base.resources:Folder"
bounded_check(name="c11-contains-native", props=["C11"], contract="Folder.contains", build=_xc_res_build, domain=_xc_res_domain, exhaustive=True,
              label="CPython cross-check: Folder.contains' contract on real Folder/File objects, 9 x 9 paths x 2 kinds")

# C11 — which later changes a selective undo takes along: rope.base.history._FindChangeDependencies
M = "rope.base.history:"
record("Resource", abstract=True, fields={})
record("File", bases=["Resource"])
record("Folder", bases=["Resource"])
record("Change", fields={})
record("_FindChangeDependencies", fields={"change": "Change", "change_list": "Seq[Change]", "changed_resources": "Set[Resource]"})
specfun("res_of", ["Change"], "Seq[Opt[Resource]]", note="change.get_changed_resources()")
specfun("contains_p", ["Resource", "Resource"], "Bool", note="folder.contains(resource): resource lies below the folder")
contract("Change.get_changed_resources", abstract=True, pure=True, heap_independent=True, params={"self": "Change"}, returns="Seq[Opt[Resource]]",
         ensures=["result == res_of(self)"])
contract("File.is_folder", source="rope.base.resources:File.is_folder", inline=True, params={"self": "File"}, returns="Bool", ensures=["not result"])
contract("Folder.is_folder", source="rope.base.resources:Folder.is_folder", inline=True, params={"self": "Folder"}, returns="Bool", ensures=["result"])
contract("Resource.contains", abstract=True, pure=True, heap_independent=True, params={"self": "Resource", "resource": "Resource"}, returns="Bool",
         ensures=["result == contains_p(self, resource)"], note="Folder.contains: path containment (checked natively by the c11-histories stand-in)")
specdef("related", {"r": "Resource", "c": "Resource"}, "Bool",
        "r == c or (isinstance(r, Folder) and contains_p(r, c)) or (isinstance(c, Folder) and contains_p(c, r))")
contract("_FindChangeDependencies._depends_on", source=M + "_FindChangeDependencies._depends_on",
         params={"self": "_FindChangeDependencies", "changes": "Change", "result": "Seq[Change]"}, returns="Bool", modifies=[], raises={},
         ensures=[
             "implies(result, exists(lambda i, x: 0 <= i and i < len(res_of(changes)) and not is_none(res_of(changes)[i]) and select(self.changed_resources, x) "
             "                and related(val(res_of(changes)[i]), x), 'Int', 'Resource'))",
             "implies(not result, forall(lambda i, x: implies(0 <= i and i < len(res_of(changes)) and not is_none(res_of(changes)[i]) and select(self.changed_resources, x), "
             "                not related(val(res_of(changes)[i]), x)), 'Int', 'Resource'))"],
         loops={1: {"index": "i", "inv": ["forall(lambda a, x: implies(0 <= a and a < i and not is_none(res_of(changes)[a]) and select(self.changed_resources, x), "
                                          "       not related(val(res_of(changes)[a]), x)), 'Int', 'Resource')"]},
                2: {"index": "j", "inv": ["not is_none(resource)", "not select(self.changed_resources, val(resource))",
                                          "forall(lambda b: implies(0 <= b and b < j, not related(val(resource), elem_at(b))))"]}},
         note="a change depends on the collected set iff one of its resources is, contains, or is contained in a collected resource")

# C14 — offset<->line conversions of rope.base.codeanalyze.SourceLinesAdapter
M = "rope.base.codeanalyze:"
record("SourceLinesAdapter", fields={"code": "Str", "starts": "Opt[Seq[Int]]"})

# well-formed line index: starts[0]=0, strictly increasing, each later start sits right after a "\n",
# no "\n" strictly inside a line, last entry len+1
specdef("increasing", {"s": "Seq[Int]"}, "Bool",
        "forall(lambda a, b: implies(0 <= a and a < b and b < len(s), s[a] < s[b]))")
specdef("marks", {"code": "Str", "s": "Seq[Int]", "upto": "Int"}, "Bool",
        "forall(lambda a: implies(1 <= a and a < upto, 1 <= s[a] and s[a] <= len(code) and code[s[a] - 1] == '\\n'))")
specdef("gaps", {"code": "Str", "s": "Seq[Int]", "upto": "Int"}, "Bool",
        "forall(lambda a, b: implies(0 <= a and a + 1 < upto and s[a] <= b and b < s[a + 1] - 1, code[b] != '\\n'))")
specdef("lines_wf", {"code": "Str", "s": "Seq[Int]"}, "Bool",
        "len(s) >= 2 and s[0] == 0 and s[len(s) - 1] == len(code) + 1 and increasing(s) and marks(code, s, len(s) - 1) and gaps(code, s, len(s))")

contract("bisect.bisect", external=True, params={"a": "Seq[Int]", "x": "Int"}, returns="Int",
         requires=["increasing(a)"],
         ensures=["0 <= result and result <= len(a)",
                  "forall(lambda k: implies(0 <= k and k < result, a[k] <= x))",
                  "forall(lambda k: implies(result <= k and k < len(a), a[k] > x))"],
         note="bisect.bisect == bisect_right on a sorted list (stdlib documentation); cross-checked against CPython in thorough")

contract("SourceLinesAdapter._initialize_line_starts", source=M + "SourceLinesAdapter._initialize_line_starts",
         strmode="intseq",
         params={"self": "SourceLinesAdapter"}, modifies=["self.starts"],
         ensures=["not is_none(self.starts)", "lines_wf(self.code, val(self.starts))"],
         loops={1: {"inv": [
             "not is_none(self.starts)",
             "len(val(self.starts)) >= 1 and val(self.starts)[0] == 0 and val(self.starts)[len(val(self.starts)) - 1] == i",
             "0 <= i and i <= len(self.code)",
             "increasing(val(self.starts))",
             "marks(self.code, val(self.starts), len(val(self.starts)))",
             "gaps(self.code, val(self.starts), len(val(self.starts)))"]}})

WF = ["not is_none(self.starts)", "lines_wf(self.code, val(self.starts))"]
contract("SourceLinesAdapter.get_line_number", source=M + "SourceLinesAdapter.get_line_number", strmode="intseq",
         params={"self": "SourceLinesAdapter", "offset": "Int"}, returns="Int",
         requires=WF + ["0 <= offset and offset <= len(self.code)"],
         ensures=["1 <= result and result <= len(val(self.starts)) - 1",
                  "val(self.starts)[result - 1] <= offset and offset < val(self.starts)[result]"])
contract("SourceLinesAdapter.get_line_start", source=M + "SourceLinesAdapter.get_line_start", strmode="intseq",
         params={"self": "SourceLinesAdapter", "lineno": "Int"}, returns="Int",
         requires=WF + ["1 <= lineno and lineno <= len(val(self.starts)) - 1"],
         ensures=["result == val(self.starts)[lineno - 1]", "0 <= result and result <= len(self.code)"])
contract("SourceLinesAdapter.get_line_end", source=M + "SourceLinesAdapter.get_line_end", strmode="intseq",
         params={"self": "SourceLinesAdapter", "lineno": "Int"}, returns="Int",
         requires=WF + ["1 <= lineno and lineno <= len(val(self.starts)) - 1"],
         ensures=["result == val(self.starts)[lineno] - 1", "0 <= result and result <= len(self.code)",
                  "result == len(self.code) or self.code[result] == '\\n'"])
contract("SourceLinesAdapter.length", source=M + "SourceLinesAdapter.length", strmode="intseq",
         params={"self": "SourceLinesAdapter"}, returns="Int", requires=WF,
         ensures=["result == len(val(self.starts)) - 1", "result >= 1"])
contract("SourceLinesAdapter.get_line", source=M + "SourceLinesAdapter.get_line", strmode="intseq",
         params={"self": "SourceLinesAdapter", "lineno": "Int"}, returns="Str",
         requires=WF + ["1 <= lineno and lineno <= len(val(self.starts)) - 1"],
         ensures=["result == self.code[val(self.starts)[lineno - 1]:val(self.starts)[lineno] - 1]",
                  "forall(lambda p: implies(0 <= p and p < len(result), result[p] != '\\n'))"])

REG.records["SourceLinesAdapter"].pyclass = "rope.base.codeanalyze:SourceLinesAdapter"

# ---- property-level lemmas over the contracts above (never over bodies) -----------------------
L = {"self": "SourceLinesAdapter", "l": "Int", "o": "Int", "r1": "Int", "r2": "Int", "r3": "Int"}
lemma("line_number_of_line_start", L, WF + ["1 <= l and l <= len(val(self.starts)) - 1"],
      "r2 == l", strmode="intseq",
      uses=[("SourceLinesAdapter.get_line_start", {"self": "self", "lineno": "l", "result": "r1"}),
            ("SourceLinesAdapter.get_line_number", {"self": "self", "offset": "r1", "result": "r2"})],
      note="offset->line is a left inverse of line->offset")
lemma("offset_within_its_line", L, WF + ["0 <= o and o <= len(self.code)"],
      "r2 <= o and o <= r3", strmode="intseq",
      uses=[("SourceLinesAdapter.get_line_number", {"self": "self", "offset": "o", "result": "r1"}),
            ("SourceLinesAdapter.get_line_start", {"self": "self", "lineno": "r1", "result": "r2"}),
            ("SourceLinesAdapter.get_line_end", {"self": "self", "lineno": "r1", "result": "r3"})],
      note="line_start(line_number(o)) <= o <= line_end(line_number(o))")


# ---- bounded stand-in (B3): the same contracts evaluated natively on the real class -----------
def _texts(tier, seed):
    import itertools
    alpha = "a\n" if tier == "quick" else "a\n\r "
    n = 6 if tier == "quick" else 7
    for k in range(n + 1):
        for t in itertools.product(alpha, repeat=k):
            yield "".join(t)


def _lines_case(code):
    import bisect
    from rope.base.codeanalyze import SourceLinesAdapter
    a = SourceLinesAdapter(code)
    st = a.starts
    nl = [i + 1 for i, c in enumerate(code) if c == "\n"]
    if st != [0] + nl + [len(code) + 1]:
        return {"status": "fail", "why": "starts != positions after each newline", "clause": "lines_wf", "observed": {"starts": st}}
    for o in range(len(code) + 1):
        n = a.get_line_number(o)
        if not (1 <= n <= a.length() and a.get_line_start(n) <= o <= a.get_line_end(n)):
            return {"status": "fail", "why": "offset %d not inside its line %d" % (o, n), "clause": "offset_within_its_line", "observed": {"line": n}}
    for l in range(1, a.length() + 1):
        if a.get_line_number(a.get_line_start(l)) != l:
            return {"status": "fail", "why": "line_number(line_start(%d)) != %d" % (l, l), "clause": "line_number_of_line_start"}
        if "\n" in a.get_line(l) or a.get_line(l) != code.split("\n")[l - 1]:
            return {"status": "fail", "why": "get_line(%d) wrong" % l, "clause": "get_line", "observed": {"line": a.get_line(l)}}
    return {"status": "ok", "nontrivial": "\n" in code}


bounded_check(name="lines-small-scope", props=["C14"], fn=_lines_case, domain=_texts, exhaustive=True,
              label="B3: every text of length <= 6 over {a,\\n} (thorough: <= 7 over {a,\\n,\\r,space}); line index, inverse laws, get_line vs str.split")

from bounded import c14_tokens as _b14
bounded_check(name="c14-tokens", props=["C14"], fn=_b14.run_case, domain=_b14.domain, exhaustive=True, max_failures=100000, max_failures_per_chunk=100000,
              label="B3: every text of <= 5 (thorough 6) symbols over an 11-symbol string alphabet and of <= 4 (thorough 5) symbols over a 17-symbol code "
                    "alphabet that compiles, plus 18 fixed literals and 12 attribute chains: ignored regions, real_code, logical lines (two finders), words, primaries vs tokenize")

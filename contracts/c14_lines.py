# C14 — offset<->line conversions of rope.base.codeanalyze.SourceLinesAdapter
M = "rope.base.codeanalyze:"
record("SourceLinesAdapter", fields={"code": "Str", "starts": "Opt[Seq[Int]]"})

# well-formed line index: starts[0]=0, strictly increasing, each later start sits right after a "\n",
# no "\n" strictly inside a line, last entry len+1
specdef("increasing", {"s": "Seq[Int]"}, "Bool",
        "forall(lambda a, b: implies(0 <= a and a < b and b < len(s), s[a] < s[b]))")
specdef("marks", {"code": "Str", "s": "Seq[Int]", "upto": "Int"}, "Bool",
        "forall(lambda a: implies(1 <= a and a < upto, 1 <= s[a] and s[a] <= len(code) and code[s[a] - 1] == '\\n'))")
specdef("gaps", {"code": "Str", "s": "Seq[Int]", "upto": "Int"}, "Bool",
        "forall(lambda a, b: implies(0 <= a and a + 1 < upto and s[a] <= b and b < s[a + 1] - 1, code[b] != '\\n'))")
specdef("lines_wf", {"code": "Str", "s": "Seq[Int]"}, "Bool",
        "len(s) >= 2 and s[0] == 0 and s[len(s) - 1] == len(code) + 1 and increasing(s) and marks(code, s, len(s) - 1) and gaps(code, s, len(s))")

contract("bisect.bisect", external=True, params={"a": "Seq[Int]", "x": "Int"}, returns="Int",
         requires=["increasing(a)"],
         ensures=["0 <= result and result <= len(a)",
                  "forall(lambda k: implies(0 <= k and k < result, a[k] <= x))",
                  "forall(lambda k: implies(result <= k and k < len(a), a[k] > x))"],
         note="bisect.bisect == bisect_right on a sorted list (stdlib documentation); cross-checked against CPython in thorough")

contract("SourceLinesAdapter._initialize_line_starts", source=M + "SourceLinesAdapter._initialize_line_starts",
         strmode="intseq",
         params={"self": "SourceLinesAdapter"}, modifies=["self.starts"],
         ensures=["not is_none(self.starts)", "lines_wf(self.code, val(self.starts))"],
         loops={1: {"inv": [
             "not is_none(self.starts)",
             "len(val(self.starts)) >= 1 and val(self.starts)[0] == 0 and val(self.starts)[len(val(self.starts)) - 1] == i",
             "0 <= i and i <= len(self.code)",
             "increasing(val(self.starts))",
             "marks(self.code, val(self.starts), len(val(self.starts)))",
             "gaps(self.code, val(self.starts), len(val(self.starts)))"]}})

WF = ["not is_none(self.starts)", "lines_wf(self.code, val(self.starts))"]
contract("SourceLinesAdapter.get_line_number", source=M + "SourceLinesAdapter.get_line_number", strmode="intseq",
         params={"self": "SourceLinesAdapter", "offset": "Int"}, returns="Int",
         requires=WF + ["0 <= offset and offset <= len(self.code)"],
         ensures=["1 <= result and result <= len(val(self.starts)) - 1",
                  "val(self.starts)[result - 1] <= offset and offset < val(self.starts)[result]"])
contract("SourceLinesAdapter.get_line_start", source=M + "SourceLinesAdapter.get_line_start", strmode="intseq",
         params={"self": "SourceLinesAdapter", "lineno": "Int"}, returns="Int",
         requires=WF + ["1 <= lineno and lineno <= len(val(self.starts)) - 1"],
         ensures=["result == val(self.starts)[lineno - 1]", "0 <= result and result <= len(self.code)"])
contract("SourceLinesAdapter.get_line_end", source=M + "SourceLinesAdapter.get_line_end", strmode="intseq",
         params={"self": "SourceLinesAdapter", "lineno": "Int"}, returns="Int",
         requires=WF + ["1 <= lineno and lineno <= len(val(self.starts)) - 1"],
         ensures=["result == val(self.starts)[lineno] - 1", "0 <= result and result <= len(self.code)",
                  "result == len(self.code) or self.code[result] == '\\n'"])
contract("SourceLinesAdapter.length", source=M + "SourceLinesAdapter.length", strmode="intseq",
         params={"self": "SourceLinesAdapter"}, returns="Int", requires=WF,
         ensures=["result == len(val(self.starts)) - 1", "result >= 1"])
contract("SourceLinesAdapter.get_line", source=M + "SourceLinesAdapter.get_line", strmode="intseq",
         params={"self": "SourceLinesAdapter", "lineno": "Int"}, returns="Str",
         requires=WF + ["1 <= lineno and lineno <= len(val(self.starts)) - 1"],
         ensures=["result == self.code[val(self.starts)[lineno - 1]:val(self.starts)[lineno] - 1]",
                  "forall(lambda p: implies(0 <= p and p < len(result), result[p] != '\\n'))"])

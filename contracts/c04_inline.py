# C04 — inlining one call site must not disturb the next: rope.refactor.inline._DefinitionGenerator._calculate_header
M = "rope.refactor.inline:"
record("DefinitionInfo", fields={})
record("CallInfo", fields={})
record("PyName", fields={})
record("ArgumentMapping", fields={"param_dict": "Map[Str,Str]"})
record("_DefinitionGenerator", fields={"definition_params": "Map[Str,Opt[Str]]", "definition_info": "DefinitionInfo"})
specfun("callinfo_of", ["Opt[Str]", "PyName", "DefinitionInfo", "Str"], "CallInfo", note="functionutils.CallInfo.read(primary, pyname, definition_info, code)")
specfun("binding", ["DefinitionInfo", "CallInfo"], "Map[Str,Str]", note="ArgumentMapping(definition_info, call_info).param_dict: parameter -> argument text (c06_mapping.py)")
contract("functionutils.CallInfo.read", abstract=True, pure=True, heap_independent=True,
         params={"primary": "Opt[Str]", "pyname": "PyName", "definition_info": "DefinitionInfo", "code": "Str"},
         returns="CallInfo", ensures=["result == callinfo_of(primary, pyname, definition_info, code)"], note="call parser (not under contract)")
contract("ArgumentMapping.__init__", abstract=True, params={"self": "ArgumentMapping", "definition_info": "DefinitionInfo", "call_info": "CallInfo"},
         modifies=["self.param_dict"], ensures=["self.param_dict == binding(definition_info, call_info)"],
         note="binding of the call's arguments: proved in c06_mapping.py")
contract("Str.replace", external=True, pure=True, params={"self": "Str", "old": "Str", "new": "Str"}, returns="Str", note="str.replace (argument text on one line)")
# the value a parameter is initialised with at this call site: the bound argument text, else the definition's default (None: no default)
specdef("eff", {"g": "_DefinitionGenerator", "b": "Map[Str,Str]", "n": "Str"}, "Opt[Str]",
        "ite(not is_none(select(b, n)), select(b, n), ite(not is_none(select(g.definition_params, n)), val(select(g.definition_params, n)), None))")
specdef("is_param", {"g": "_DefinitionGenerator", "b": "Map[Str,Str]", "n": "Str"}, "Bool",
        "not is_none(select(b, n)) or not is_none(select(g.definition_params, n))")
specdef("has_s", {"s": "Seq[Str]", "x": "Str"}, "Bool", "exists(lambda k: 0 <= k and k < len(s) and s[k] == x)")
B = "binding(self.definition_info, callinfo_of(primary, pyname, self.definition_info, call))"
contract("_DefinitionGenerator._calculate_header", source=M + "_DefinitionGenerator._calculate_header",
         params={"self": "_DefinitionGenerator", "primary": "Opt[Str]", "pyname": "PyName", "call": "Str"}, returns="Tuple[Str,Seq[Str]]",
         modifies=["ArgumentMapping.param_dict[*]"], raises={},
         locals={"to_be_inlined": "Seq[Str]", "paramdict": "Map[Str,Opt[Str]]", "header": "Str"},
         loops={1: {"index": "i", "inv": [
                    "self.definition_params == old(self.definition_params)", "mapping.param_dict == " + B,
                    # entries seen so far override the definition's defaults; every other name still has its default
                    "forall(lambda q: implies(0 <= q and q < i, select(paramdict, elem_at(q)[0]) == Some(Some(elem_at(q)[1]))))",
                    "forall(lambda n: implies(forall(lambda q: implies(0 <= q and q < i, elem_at(q)[0] != n)), select(paramdict, n) == select(self.definition_params, n)), 'Str')"]},
                2: {"index": "j", "inv": [
                    "self.definition_params == old(self.definition_params)",
                    "forall(lambda t: implies(0 <= t and t < len(to_be_inlined), exists(lambda q: 0 <= q and q < j and elem_at(q)[0] == to_be_inlined[t] and "
                    "       not is_none(elem_at(q)[1]) and elem_at(q)[0] != val(elem_at(q)[1]))))",
                    "forall(lambda q: implies(0 <= q and q < j and not is_none(elem_at(q)[1]) and elem_at(q)[0] != val(elem_at(q)[1]), elem_at(q)[0] in to_be_inlined))",
                    "implies(len(to_be_inlined) == 0, header == '')", "implies(len(to_be_inlined) > 0, header.endswith('\\n'))",
                    "forall(lambda t: implies(0 <= t and t < len(to_be_inlined), (to_be_inlined[t] + ' = ') in header))"]}},
         ensures=["self.definition_params == old(self.definition_params)",
                  # the header: empty when nothing is initialised, else newline-terminated with a `name = ` line start for every initialised parameter
                  "implies(len(result[1]) == 0, result[0] == '')", "implies(len(result[1]) > 0, result[0].endswith('\\n'))",
                  "forall(lambda t: implies(0 <= t and t < len(result[1]), (result[1][t] + ' = ') in result[0]))",
                  # the parameters that get an initialising line are exactly those whose value at this call site exists and is not the name itself
                  "forall(lambda n: implies(has_s(result[1], n), is_param(self, " + B + ", n) and not is_none(eff(self, " + B + ", n)) and val(eff(self, " + B + ", n)) != n), 'Str')",
                  "forall(lambda n: implies(is_param(self, " + B + ", n) and not is_none(eff(self, " + B + ", n)) and val(eff(self, " + B + ", n)) != n, n in result[1]), 'Str')"],
         note="frame: the per-definition parameter map (names -> defaults) is the same after a call site was processed, so call sites are independent; "
              "and which parameters are initialised in the header is decided by this call's binding over the definition's defaults (the header text itself is opaque)")

from bounded import c04_inline as _b4
bounded_check(name="c04-pairs", fn=_b4.run_case, domain=_b4.domain, exhaustive=True, serial=True,
              label="B3: 7 signatures x every ordered pair of valid call shapes (169 modules): inlined call sites evaluated against the interpreter's binding")
bounded_check(name="c04-projects", fn=_b4.project_case, domain=_b4.project_domain, exhaustive=True, serial=True,
              label="B3: 7 projects: dotted receiver, clashing local in the caller, import needed in another module with an aliased sub-module import, multi-statement bodies")

# C04 — inlining one call site must not disturb the next: rope.refactor.inline._DefinitionGenerator._calculate_header
M = "rope.refactor.inline:"
record("DefinitionInfo", fields={})
record("CallInfo", fields={})
record("PyName", fields={})
record("ArgumentMapping", fields={"param_dict": "Map[Str,Str]"})
record("_DefinitionGenerator", fields={"definition_params": "Map[Str,Opt[Str]]", "definition_info": "DefinitionInfo"})
contract("functionutils.CallInfo.read", abstract=True, params={"primary": "Opt[Str]", "pyname": "PyName", "definition_info": "DefinitionInfo", "code": "Str"},
         returns="CallInfo", note="call parser (not under contract)")
contract("ArgumentMapping.__init__", abstract=True, params={"self": "ArgumentMapping", "definition_info": "DefinitionInfo", "call_info": "CallInfo"},
         modifies=["self.param_dict"], note="binding of the call's arguments: proved in c06_mapping.py")
contract("_DefinitionGenerator._calculate_header", source=M + "_DefinitionGenerator._calculate_header",
         params={"self": "_DefinitionGenerator", "primary": "Opt[Str]", "pyname": "PyName", "call": "Str"}, returns="Tuple[Str,Seq[Str]]",
         modifies=["ArgumentMapping.param_dict[*]"], raises={},
         locals={"to_be_inlined": "Seq[Str]", "paramdict": "Map[Str,Opt[Str]]"},
         loops={1: {"index": "i", "inv": ["True"]}, 2: {"index": "j", "inv": ["True"]}},
         ensures=["self.definition_params == old(self.definition_params)"],
         note="frame: the per-definition parameter map (names -> defaults) is the same after a call site was processed, so call sites are independent")

from bounded import c04_inline as _b4
bounded_check(name="c04-pairs", fn=_b4.run_case, domain=_b4.domain, exhaustive=True, serial=True,
              label="B3: 7 signatures x every ordered pair of valid call shapes (169 modules): inlined call sites evaluated against the interpreter's binding")
bounded_check(name="c04-projects", fn=_b4.project_case, domain=_b4.project_domain, exhaustive=True, serial=True,
              label="B3: 7 projects: dotted receiver, clashing local in the caller, import needed in another module with an aliased sub-module import, multi-statement bodies")

# C10 — job boundaries: rope.base.taskhandle.JobSet / NullJobSet / TaskHandle
# What the change wrapper relies on: started_job interrupts only *before* a job's effect; finished_job never raises.
M = "rope.base.taskhandle:"
record("Observer", fields={})
record("BaseTaskHandle", abstract=True)
record("TaskHandle", bases=["BaseTaskHandle"], fields={"stopped": "Bool", "interrupts": "Bool", "observers": "Seq[Observer]", "job_sets": "Seq[JobSet]", "name": "Str"})
record("BaseJobSet", abstract=True)
record("JobSet", bases=["BaseJobSet"], fields={"handle": "TaskHandle", "name": "Str", "count": "Opt[Int]", "done": "Int", "job_name": "Opt[Str]"})
record("NullJobSet", bases=["BaseJobSet"])

ghost("notified", "Int")     # how many observer notifications have been delivered
contract("Observer.__call__", abstract=True, params={"self": "Observer"}, modifies=["TaskHandle.stopped[*]", "notified"],
         ensures=["notified == old(notified) + 1",
                  # an observer may stop tasks (TaskHandle.stop) but nothing un-stops one
                  "forall(lambda h: implies(old(h.stopped), h.stopped), 'TaskHandle')"],
         note="an observer may stop the task (TaskHandle.stop) but is assumed not to raise and not to touch job sets")
contract("TaskHandle.is_stopped", source=M + "TaskHandle.is_stopped", inline=True, params={"self": "TaskHandle"}, returns="Bool",
         ensures=["result == self.stopped"])
contract("TaskHandle._inform_observers", source=M + "TaskHandle._inform_observers", params={"self": "TaskHandle"},
         modifies=["TaskHandle.stopped[*]", "notified"],
         ensures=["notified == old(notified) + len(self.observers)", "forall(lambda h: implies(old(h.stopped), h.stopped), 'TaskHandle')"],
         loops={1: {"index": "k", "inv": ["notified == old(notified) + k", "forall(lambda h: implies(old(h.stopped), h.stopped), 'TaskHandle')"]}},
         note="every registered observer is called exactly once")
contract("TaskHandle.stop", source=M + "TaskHandle.stop", params={"self": "TaskHandle"}, modifies=["TaskHandle.stopped[*]", "notified"],
         ensures=["implies(self.interrupts, self.stopped and notified == old(notified) + len(self.observers))",
                  "implies(not self.interrupts, self.stopped == old(self.stopped) and notified == old(notified))",
                  "forall(lambda h: implies(old(h.stopped), h.stopped), 'TaskHandle')"],
         note="stop() marks an interruptible task stopped and tells the observers; a non-interruptible task ignores it")
contract("JobSet.check_status", source=M + "JobSet.check_status", params={"self": "JobSet"}, modifies=[],
         ensures=["not self.handle.stopped"],
         raises={"InterruptedTaskError": {"when": "self.handle.stopped", "ensures": []}})
contract("JobSet.started_job", source=M + "JobSet.started_job", params={"self": "JobSet", "name": "Str"},
         modifies=["self.job_name", "TaskHandle.stopped[*]", "notified"],
         ensures=["self.job_name == Some(name)", "self.done == old(self.done)", "not old(self.handle.stopped)",
                  "notified == old(notified) + len(self.handle.observers)"],
         raises={"InterruptedTaskError": {"when": "self.handle.stopped",
                                          "ensures": ["self.job_name == old(self.job_name)", "self.done == old(self.done)", "notified == old(notified)"]}})
contract("JobSet.finished_job", source=M + "JobSet.finished_job", params={"self": "JobSet"},
         modifies=["self.job_name", "self.done", "TaskHandle.stopped[*]", "notified"],
         ensures=["self.done == old(self.done) + 1", "is_none(self.job_name)", "notified == old(notified) + len(self.handle.observers)"],
         note="no `raises`: an interruption requested while the job ran must not surface after the job's effect")
contract("NullJobSet.started_job", source=M + "NullJobSet.started_job", params={"self": "NullJobSet", "name": "Str"}, modifies=[])
contract("NullJobSet.finished_job", source=M + "NullJobSet.finished_job", params={"self": "NullJobSet"}, modifies=[])
contract("NullJobSet.check_status", source=M + "NullJobSet.check_status", params={"self": "NullJobSet"}, modifies=[])

# ---- job set bookkeeping -------------------------------------------------------------------------------------------------------------------
contract("JobSet.__init__", source=M + "JobSet.__init__", inline=True, params={"self": "JobSet", "handle": "TaskHandle", "name": "Str", "count": "Opt[Int]"})
contract("TaskHandle.create_jobset", source=M + "TaskHandle.create_jobset", params={"self": "TaskHandle", "name": "Str", "count": "Opt[Int]"},
         defaults={"name": "'JobSet'", "count": "None"}, returns="JobSet",
         modifies=["self.job_sets", "TaskHandle.stopped[*]", "notified", "JobSet.handle[*]", "JobSet.name[*]", "JobSet.count[*]", "JobSet.done[*]", "JobSet.job_name[*]"], raises={},
         ensures=["self.job_sets == old(self.job_sets) + [result]", "result.handle == self and result.name == name and result.count == count",
                  "result.done == 0 and is_none(result.job_name)", "notified == old(notified) + len(self.observers)"],
         note="a new job set starts at zero finished jobs, becomes the current one, and the observers are told")
contract("TaskHandle.current_jobset", source=M + "TaskHandle.current_jobset", params={"self": "TaskHandle"}, returns="Opt[JobSet]", modifies=[], raises={},
         ensures=["implies(len(self.job_sets) == 0, is_none(result))", "implies(len(self.job_sets) > 0, result == Some(self.job_sets[len(self.job_sets) - 1]))"],
         note="the most recently created job set")
contract("TaskHandle.add_observer", source=M + "TaskHandle.add_observer", params={"self": "TaskHandle", "observer": "Observer"}, modifies=["self.observers"], raises={},
         ensures=["self.observers == old(self.observers) + [observer]"])
contract("JobSet.get_percent_done", source=M + "JobSet.get_percent_done", params={"self": "JobSet"}, returns="Opt[Int]", modifies=[], raises={},
         ensures=["implies(is_none(self.count) or val(self.count) <= 0, is_none(result))",
                  "implies(not is_none(self.count) and val(self.count) > 0 and self.done >= 0, not is_none(result) and 0 <= val(result) and val(result) <= 100)",
                  "implies(not is_none(self.count) and val(self.count) > 0 and self.done >= val(self.count), result == Some(100))"],
         note="a percentage between 0 and 100 when the number of jobs is known, nothing otherwise")

# C16 — decoding direction of rope.base.fscommands (bytes -> text, newline convention detected)
M = "rope.base.fscommands:"
B = "Opaque[Bytes]"
specfun("dec", [B, "Str"], "Str")
specfun("decodable", [B, "Str"], "Bool")
specfun("known_codec", ["Str"], "Bool")
specfun("repl", ["Str", "Str", "Str"], "Str")
specfun("cookie_bytes", [B], "Opt[Str]")
contract("Bytes.decode", external=True, params={"self": B, "encoding": "Str"}, returns="Str", pure=True,
         ensures=["result == dec(self, encoding)", "decodable(self, encoding)", "known_codec(encoding)"],
         raises={"UnicodeDecodeError": {"when": "known_codec(encoding) and not decodable(self, encoding)", "exact": True},
                 "LookupError": {"when": "not known_codec(encoding)", "exact": True}})
contract("Str.replace", external=True, params={"self": "Str", "old": "Str", "new": "Str"}, returns="Str", pure=True,
         ensures=["result == repl(self, old, new)"])
axiom("latin1_total", {"b": B}, "decodable(b, 'latin1') and known_codec('latin1')", note="latin-1 decodes every byte string")
axiom("repl_removes_crlf", {"s": "Str"}, "not ('\\r\\n' in repl(s, '\\r\\n', '\\n'))", patterns=["repl(s, '\\r\\n', '\\n')"],
      note="str.replace replaces every occurrence (bounded-checked against CPython)")
axiom("repl_removes_cr", {"s": "Str"}, "not ('\\r' in repl(s, '\\r', '\\n'))", patterns=["repl(s, '\\r', '\\n')"])
axiom("repl_absent", {"s": "Str", "a": "Str", "b": "Str"}, "implies(not (a in s), repl(s, a, b) == s)", patterns=["repl(s, a, b)"])
contract("read_str_coding", abstract=True, pure=True, heap_independent=True, params={"source": B}, returns="Opt[Str]",
         ensures=["result == cookie_bytes(source)"])

specdef("chosen", {"data": B, "encoding": "Opt[Str]"}, "Str",
        "ite(not is_none(encoding), val(encoding), ite(not is_none(cookie_bytes(data)), val(cookie_bytes(data)), 'utf-8'))")
specdef("old_text", {"data": B, "encoding": "Opt[Str]"}, "Str",
        "ite(known_codec(chosen(data, encoding)) and decodable(data, chosen(data, encoding)), dec(data, chosen(data, encoding)), dec(data, 'latin1'))")
contract("_decode_data", source=M + "_decode_data", params={"data": B, "encoding": "Opt[Str]"}, returns="Str", raises={},
         ensures=["result == old_text(data, encoding)",
                  "implies(known_codec(chosen(data, encoding)) and decodable(data, chosen(data, encoding)), result == dec(data, chosen(data, encoding)))",
                  "implies(not (known_codec(chosen(data, encoding)) and decodable(data, chosen(data, encoding))), result == dec(data, 'latin1'))"],
         note="the declared (or default UTF-8) codec is used whenever it accepts the bytes; latin-1 only as the fallback; never raises")
contract("file_data_to_unicode", source=M + "file_data_to_unicode", params={"data": B, "encoding": "Opt[Str]"}, defaults={"encoding": "None"}, returns="Tuple[Str,Str]", raises={},
         ensures=["result[1] == '\\n' or result[1] == '\\r\\n' or result[1] == '\\r'",
                  "not ('\\r' in result[0])",
                  "implies(not ('\\r' in old_text(data, encoding)), result[0] == old_text(data, encoding) and result[1] == '\\n')",
                  # universal-newline normalisation: every CRLF, then every remaining CR, becomes LF
                  "result[0] == repl(repl(old_text(data, encoding), '\\r\\n', '\\n'), '\\r', '\\n')",
                  # detected convention: a lone CR wins, else CRLF if there is one, else LF
                  "implies('\\r' in repl(old_text(data, encoding), '\\r\\n', '\\n'), result[1] == '\\r')",
                  "implies(not ('\\r' in repl(old_text(data, encoding), '\\r\\n', '\\n')) and '\\r\\n' in old_text(data, encoding), result[1] == '\\r\\n')",
                  "implies(not ('\\r' in repl(old_text(data, encoding), '\\r\\n', '\\n')) and not ('\\r\\n' in old_text(data, encoding)), result[1] == '\\n')"],
         note="the returned text uses LF only; a text without CR is returned unchanged with convention LF")

# ---- CPython cross-check: the codec / newline contracts with the real codecs, str.replace and cookie detection standing for the spec functions ----
def _xc_dec_domain(tier, seed):
    heads = [b"", b"# coding: latin-1\n", b"# -*- coding: utf-8 -*-\n", b"# coding: nonexistent\n", b"x = 1\n# coding: latin-1\n"]
    bodies = [b"a", b"a\r\nb", b"a\rb", b"a\nb\r", b"\xe9", b"\xc3\xa9\r\n", b"\xff\xfe", b"a\r\n\rb", b""]
    for h in heads:
        for b in bodies:
            for enc in (None, "utf-8", "latin-1", "ascii", "nonexistent"):
                yield (h + b, enc)


def _xc_known(e):
    import codecs
    try:
        codecs.lookup(e)
        return True
    except LookupError:
        return False


def _xc_decodable(b, e):
    try:
        b.decode(e)
        return True
    except (UnicodeDecodeError, LookupError):
        return False


def _xc_dec(b, e):
    # total, like the uninterpreted function it stands for (the contract only looks at dec where the codec accepts the bytes)
    return b.decode(e) if _xc_decodable(b, e) else "\0undecodable(%r, %r)" % (b, e)


def _xc_cookie(b):
    from rope.base import fscommands
    return fscommands.read_str_coding(b)


_XC_ENV = {"dec": _xc_dec, "decodable": _xc_decodable, "known_codec": _xc_known, "repl": lambda s, a, b: s.replace(a, b), "cookie_bytes": _xc_cookie}
bounded_check(name="c16-decode-native", props=["C16"], contract="_decode_data", build=lambda c: {"data": c[0], "encoding": c[1]}, domain=_xc_dec_domain, exhaustive=True,
              env=_XC_ENV, label="CPython cross-check: _decode_data's contract with the real codecs (5 headers x 9 bodies x 5 encodings)")
bounded_check(name="c16-newlines-native", props=["C16"], contract="file_data_to_unicode", build=lambda c: {"data": c[0], "encoding": c[1]}, domain=_xc_dec_domain,
              exhaustive=True, env=_XC_ENV, label="CPython cross-check: file_data_to_unicode's normalisation / detected-convention clauses on the same domain")

# C09 — renaming a module: WHEN the module file / package folder itself is moved, and WHERE to.  rope.refactor.rename.Rename
# get_changes(resources=...) may only move the module when the caller put it among the resources to be changed (a package counts through its
# __init__.py), and the move stays in the module's own folder under the new name.  Everything the property calls "announced" starts here.
M = "rope.refactor.rename:"
CH = "rope.base.change:"
exception("RopeError", "Exception")
exception("ResourceNotFoundError", "RopeError")
record("Resource", abstract=True, fields={})
record("File", bases=["Resource"])
record("Folder", bases=["Resource"])
record("Rename", fields={})
record("Change", abstract=True)
record("MoveResource", bases=["Change"], fields={"resource": "Resource", "new_location": "Str"})
record("ChangeSet", fields={"changes": "Seq[Change]"})
specfun("path_of", ["Resource"], "Str", note="resource.path")
specfun("parent_of", ["Resource"], "Folder", note="resource.parent")
specfun("init_of", ["Folder"], "Opt[Resource]", note="folder.get_child('__init__.py'), None when there is no such child")
contract("File.is_folder", source="rope.base.resources:File.is_folder", inline=True, params={"self": "File"}, returns="Bool", ensures=["not result"])
contract("Folder.is_folder", source="rope.base.resources:Folder.is_folder", inline=True, params={"self": "Folder"}, returns="Bool", ensures=["result"])
contract("Resource.path", abstract=True, is_property=True, pure=True, heap_independent=True, params={"self": "Resource"}, returns="Str", ensures=["result == path_of(self)"])
contract("Resource.parent", abstract=True, is_property=True, pure=True, heap_independent=True, params={"self": "Resource"}, returns="Folder", ensures=["result == parent_of(self)"])
contract("Folder.get_child", abstract=True, pure=True, params={"self": "Folder", "name": "Str"}, returns="Resource", requires=["name == '__init__.py'"],
         raises={"ResourceNotFoundError": {"when": "is_none(init_of(self))", "ensures": []}},
         ensures=["not is_none(init_of(self))", "result == val(init_of(self))"], note="project.get_resource of the child path: raises when nothing is there")
contract("File.get_child", abstract=True, pure=True, params={"self": "File", "name": "Str"}, returns="Resource", requires=["False"],
         note="a File has no get_child: the precondition False makes every call site prove that it is unreachable for a File")
contract("MoveResource.__init__", abstract=True, params={"self": "MoveResource", "resource": "Resource", "new_location": "Str"},
         modifies=["self.resource", "self.new_location"], ensures=["self.resource == resource", "self.new_location == new_location"],
         note="ghost field new_location: the location handed to the constructor (what the constructor makes of it is verified in c12_convert.py)")
contract("ChangeSet.add_change", source=CH + "ChangeSet.add_change", inline=True, params={"self": "ChangeSet", "change": "Change"})

contract("Rename._is_allowed_to_move", source=M + "Rename._is_allowed_to_move", params={"self": "Rename", "resources": "Seq[Resource]", "resource": "Resource"}, returns="Bool",
         modifies=[], raises={},
         ensures=["implies(isinstance(resource, File), result == (resource in resources))",
                  "implies(isinstance(resource, Folder), result == (not is_none(init_of(cast(resource, 'Folder'))) and val(init_of(cast(resource, 'Folder'))) in resources))"],
         note="a module file moves only if it is among the resources to change; a package only if its __init__.py exists and is among them")
contract("Rename._rename_module", source=M + "Rename._rename_module", params={"self": "Rename", "resource": "Resource", "new_name": "Str", "changes": "ChangeSet"},
         modifies=["changes.changes"], raises={},
         ensures=["len(changes.changes) == len(old(changes.changes)) + 1",
                  "forall(lambda k: implies(0 <= k and k < len(old(changes.changes)), changes.changes[k] == old(changes.changes)[k]))",
                  "isinstance(changes.changes[len(changes.changes) - 1], MoveResource)",
                  "cast(changes.changes[len(changes.changes) - 1], 'MoveResource').resource == resource",
                  # same folder, new name; a module file keeps its .py suffix, a package folder gets the bare name
                  "cast(changes.changes[len(changes.changes) - 1], 'MoveResource').new_location == "
                  "  ite(path_of(parent_of(resource)) == '', '', path_of(parent_of(resource)) + '/') + new_name + ite(isinstance(resource, Folder), '', '.py')"],
         note="exactly one change is added: the move of that resource to <its own folder>/<new name>[.py]")


# ---- CPython cross-check of _is_allowed_to_move on real File / Folder objects of a stand-in project (no disk) ---------------------------------------
class _XcRnProject:
    def __init__(self, files):
        self._files = set(files)

    def get_resource(self, path):
        from rope.base import exceptions, resources
        if path not in self._files:
            raise exceptions.ResourceNotFoundError("no resource " + path)
        return resources.File(self, path)


def _xc_am_domain(tier, seed):
    for kind in ("file", "package", "plain-folder"):
        for listed in ("nothing", "itself", "its-init", "both", "unrelated"):
            yield (kind, listed)


def _xc_am_build(case):
    from rope.base import resources
    from rope.refactor import rename
    kind, listed = case
    proj = _XcRnProject({"m.py", "pkg/__init__.py", "pkg/mod.py", "other.py"})
    res = resources.File(proj, "m.py") if kind == "file" else resources.Folder(proj, "pkg" if kind == "package" else "data")
    init = resources.File(proj, ("pkg" if kind != "plain-folder" else "data") + "/__init__.py")
    chosen = {"nothing": [], "itself": [res], "its-init": [init], "both": [res, init], "unrelated": [resources.File(proj, "other.py")]}[listed]
    return {"self": object.__new__(rename.Rename), "resources": [resources.File(proj, "pkg/mod.py")] + chosen, "resource": res}


def _xc_init_of(folder):
    from rope.base import exceptions
    try:
        return folder.get_child("__init__.py")
    except exceptions.ResourceNotFoundError:
        return None


def _xc_am_env():
    from rope.base import resources
    return {"init_of": _xc_init_of, "File": resources.File, "Folder": resources.Folder}


bounded_check(name="c09-allowed-to-move-native", props=["C09"], contract="Rename._is_allowed_to_move", build=_xc_am_build, domain=_xc_am_domain, exhaustive=True, env=_xc_am_env(),
              label="CPython cross-check: Rename._is_allowed_to_move's contract on real File/Folder objects: module file, package, folder without __init__.py "
                    "x the caller's resources listing nothing / the resource / its __init__.py / both / something unrelated")

# C09/C16 — the mutating methods of a Resource go through ONE change object handed to project.do (so they are recorded, undoable and announced)
R = "rope.base.resources:"
CH = "rope.base.change:"
ghost("done", "Seq[ChangeSet]")          # what was handed to project.do, in order
ghost("disk_text", "Str")                # what File.read() returns at the time of the call
record("Project", fields={})
record("Change", abstract=True)
record("ChangeContents", bases=["Change"], fields={"resource": "File", "new_contents": "Str", "old_contents": "Opt[Str]"})
record("RemoveResource", bases=["Change"], fields={"resource": "Resource"})
record("MoveResource", bases=["Change"], fields={})
record("ChangeSet", bases=["Change"], fields={"changes": "Seq[Change]", "description": "Str", "time": "Opt[Opaque[Time]]"})
record("Resource", abstract=True, fields={"project": "Project", "_path": "Str"})
record("File", bases=["Resource"])
record("Folder", bases=["Resource"])
contract("Resource.path", source=R + "Resource.path", is_property=True, inline=True, params={"self": "Resource"}, returns="Str")
contract("ChangeSet.__init__", source=CH + "ChangeSet.__init__", inline=True, params={"self": "ChangeSet", "description": "Str", "timestamp": "Opt[Opaque[Time]]"},
         defaults={"timestamp": "None"})
contract("ChangeSet.add_change", source=CH + "ChangeSet.add_change", inline=True, params={"self": "ChangeSet", "change": "Change"})
contract("ChangeContents.__init__", source=CH + "ChangeContents.__init__", inline=True,
         params={"self": "ChangeContents", "resource": "File", "new_contents": "Str", "old_contents": "Opt[Str]"}, defaults={"old_contents": "None"})
contract("RemoveResource.__init__", source=CH + "RemoveResource.__init__", inline=True, params={"self": "RemoveResource", "resource": "Resource"})
contract("Project.do", abstract=True, params={"self": "Project", "changes": "ChangeSet"}, modifies=["done"], ensures=["done == old(done) + [changes]"],
         raises={"Exception": {"ensures": ["done == old(done)"]}},
         note="project.do -> History.do (c11_history.py): performs the change set and records it, or fails leaving everything as it was")
contract("Resource._perform_change", source=R + "Resource._perform_change", params={"self": "Resource", "change_": "Change", "description": "Str"},
         modifies=["done", "ChangeSet.changes[*]", "ChangeSet.description[*]", "ChangeSet.time[*]"],
         ensures=["len(done) == len(old(done)) + 1", "done[len(done) - 1].changes == [change_]", "done[len(done) - 1].description == description",
                  "forall(lambda k: implies(0 <= k and k < len(old(done)), done[k] == old(done)[k]))"],
         raises={"Exception": {"ensures": ["done == old(done)"]}},
         note="exactly one change set holding exactly that change goes through project.do")
contract("File.read", abstract=True, params={"self": "File"}, returns="Str", ensures=["result == disk_text"], raises={"OSError": {}},
         note="File.read (c16_file.py)")
contract("File.write", source=R + "File.write", params={"self": "File", "contents": "Str"},
         modifies=["done", "ChangeSet.changes[*]", "ChangeSet.description[*]", "ChangeSet.time[*]", "ChangeContents.resource[*]", "ChangeContents.new_contents[*]",
                   "ChangeContents.old_contents[*]"],
         ensures=[
             # writing what the file already holds does nothing at all (no history entry, no notification)
             "len(done) <= len(old(done)) + 1",
             "implies(len(done) == len(old(done)) + 1, len(done[len(done) - 1].changes) == 1 and isinstance(done[len(done) - 1].changes[0], ChangeContents))",
             "forall(lambda k: implies(0 <= k and k < len(old(done)), done[k] == old(done)[k]))",
             "implies(len(done) == len(old(done)), contents == disk_text)",
             "implies(len(done) == len(old(done)) + 1, cast(done[len(done) - 1].changes[0], 'ChangeContents').resource == self and "
             "        cast(done[len(done) - 1].changes[0], 'ChangeContents').new_contents == contents)"],
         raises={"Exception": {"ensures": ["done == old(done)"]}},
         note="a write is one ChangeContents through project.do, or nothing when the contents are unchanged (an unreadable file is written anyway)")
contract("Resource.remove", source=R + "Resource.remove", params={"self": "Resource"},
         modifies=["done", "ChangeSet.changes[*]", "ChangeSet.description[*]", "ChangeSet.time[*]", "RemoveResource.resource[*]"],
         ensures=["len(done) == len(old(done)) + 1", "len(done[len(done) - 1].changes) == 1", "isinstance(done[len(done) - 1].changes[0], RemoveResource)"],
         raises={"Exception": {"ensures": ["done == old(done)"]}}, note="removal is one RemoveResource through project.do")

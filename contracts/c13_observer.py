# C13 — how a change notification reaches a cache: rope.base.resourceobserver.FilteredResourceObserver / _Changes
# (the module cache registers every cached module's resource here -- c13_caches.py, invariant `watched` -- so a change to it must be passed on)
M = "rope.base.resourceobserver:"
IND = "Opaque[Indicator]"
record("Resource", fields={})
record("ChangeIndicator", fields={})
record("ResourceObserver", fields={})
record("_Changes", fields={"changes": "Set[Resource]", "creations": "Set[Resource]", "moves": "Map[Resource,Opt[Resource]]"})
record("FilteredResourceObserver", fields={"observer": "ResourceObserver", "resources": "Map[Resource,Opt[Opaque[Indicator]]]", "timekeeper": "ChangeIndicator"})
specfun("parent_of", ["Resource"], "Resource")
specfun("exists_p", ["Resource"], "Bool")
specfun("ind_of", ["Resource"], IND, note="timekeeper.get_indicator(resource): modification time and size now")
contract("Resource.parent", abstract=True, is_property=True, pure=True, heap_independent=True, params={"self": "Resource"}, returns="Resource", ensures=["result == parent_of(self)"])
contract("Resource.exists", abstract=True, pure=True, heap_independent=True, params={"self": "Resource"}, returns="Bool", ensures=["result == exists_p(self)"])
contract("ChangeIndicator.get_indicator", abstract=True, pure=True, heap_independent=True, params={"self": "ChangeIndicator", "resource": "Resource"}, returns=IND,
         ensures=["result == ind_of(resource)"])
# what the wrapped observer has been told
ghost("told_changed", "Set[Resource]")
ghost("told_removed", "Set[Resource]")
ghost("told_created", "Set[Resource]")
ghost("told_moved", "Map[Resource,Resource]")
KEEP = lambda g: "forall(lambda x: implies(select(old(%s), x), select(%s, x)), 'Resource')" % (g, g)
contract("ResourceObserver.resource_changed", abstract=True, params={"self": "ResourceObserver", "resource": "Resource"}, modifies=["told_changed"],
         ensures=["select(told_changed, resource)", KEEP("told_changed")], note="the wrapped observer (e.g. PyCore's cache invalidation) is assumed not to raise")
contract("ResourceObserver.resource_removed", abstract=True, params={"self": "ResourceObserver", "resource": "Resource"}, modifies=["told_removed"],
         ensures=["select(told_removed, resource)", KEEP("told_removed")])
contract("ResourceObserver.resource_created", abstract=True, params={"self": "ResourceObserver", "resource": "Resource"}, modifies=["told_created"],
         ensures=["select(told_created, resource)", KEEP("told_created")])
contract("ResourceObserver.resource_moved", abstract=True, params={"self": "ResourceObserver", "resource": "Resource", "new_resource": "Resource"}, modifies=["told_moved"],
         ensures=["select(told_moved, resource) == Some(new_resource)",
                  "forall(lambda x: implies(x != resource, select(told_moved, x) == select(old(told_moved), x)), 'Resource')"])

specdef("watched", {"f": "FilteredResourceObserver", "r": "Resource"}, "Bool", "not is_none(select(f.resources, r))")
contract("_Changes.__init__", source=M + "_Changes.__init__", inline=True, params={"self": "_Changes"})
contract("_Changes.add_changed", source=M + "_Changes.add_changed", params={"self": "_Changes", "resource": "Resource"}, modifies=["self.changes"], raises={},
         ensures=["select(self.changes, resource)", "forall(lambda x: implies(x != resource, select(self.changes, x) == select(old(self.changes), x)), 'Resource')"])
contract("_Changes.add_created", source=M + "_Changes.add_created", params={"self": "_Changes", "resource": "Resource"}, modifies=["self.creations"], raises={},
         ensures=["select(self.creations, resource)", "forall(lambda x: implies(x != resource, select(self.creations, x) == select(old(self.creations), x)), 'Resource')"])
contract("_Changes.add_removed", source=M + "_Changes.add_removed", params={"self": "_Changes", "resource": "Resource", "new_resource": "Opt[Resource]"},
         defaults={"new_resource": "None"}, modifies=["self.moves"], raises={},
         ensures=["select(self.moves, resource) == Some(new_resource)", "forall(lambda x: implies(x != resource, select(self.moves, x) == select(old(self.moves), x)), 'Resource')"])

contract("FilteredResourceObserver.add_resource", source=M + "FilteredResourceObserver.add_resource", params={"self": "FilteredResourceObserver", "resource": "Resource"},
         modifies=["self.resources"], raises={},
         ensures=["watched(self, resource)", "select(self.resources, resource) == Some(ite(exists_p(resource), Some(ind_of(resource)), None))",
                  "forall(lambda x: implies(x != resource, select(self.resources, x) == select(old(self.resources), x)), 'Resource')"],
         note="from now on changes to the resource are passed on; its current time stamp is remembered (None: it does not exist yet)")
contract("FilteredResourceObserver.remove_resource", source=M + "FilteredResourceObserver.remove_resource", params={"self": "FilteredResourceObserver", "resource": "Resource"},
         modifies=["self.resources"], raises={},
         ensures=["not watched(self, resource)", "forall(lambda x: implies(x != resource, select(self.resources, x) == select(old(self.resources), x)), 'Resource')"])
contract("FilteredResourceObserver._is_parent_changed", source=M + "FilteredResourceObserver._is_parent_changed", params={"self": "FilteredResourceObserver", "child": "Resource"},
         returns="Bool", modifies=[], raises={}, ensures=["result == watched(self, parent_of(child))"])
contract("FilteredResourceObserver._update_changes_caused_by_changed", source=M + "FilteredResourceObserver._update_changes_caused_by_changed",
         params={"self": "FilteredResourceObserver", "changes": "_Changes", "changed": "Resource"}, modifies=["changes.changes"], raises={},
         ensures=["forall(lambda x: select(changes.changes, x) == (select(old(changes.changes), x) or (x == changed and watched(self, changed)) or "
                  "       (x == parent_of(changed) and watched(self, parent_of(changed)))), 'Resource')"],
         note="a change concerns the resource itself if it is watched, and its folder if that is watched")
contract("FilteredResourceObserver._perform_changes", source=M + "FilteredResourceObserver._perform_changes", params={"self": "FilteredResourceObserver", "changes": "_Changes"},
         modifies=["self.resources", "told_changed", "told_removed", "told_created", "told_moved"], raises={},
         ensures=[
             # everything collected is passed on to the wrapped observer ...
             "forall(lambda x: implies(select(changes.changes, x), select(told_changed, x)), 'Resource')",
             "forall(lambda x: implies(select(changes.creations, x), select(told_created, x)), 'Resource')",
             "forall(lambda x: implies(not is_none(select(changes.moves, x)) and is_none(val(select(changes.moves, x))), select(told_removed, x)), 'Resource')",
             "forall(lambda x: implies(not is_none(select(changes.moves, x)) and not is_none(val(select(changes.moves, x))), select(told_moved, x) == val(select(changes.moves, x))), 'Resource')",
             # ... nothing that was told before is taken back, and a resource stays watched
             KEEP("told_changed"), KEEP("told_created"), KEEP("told_removed"),
             "forall(lambda x: implies(watched_old(self, x), watched(self, x)), 'Resource')" if False else
             "forall(lambda x: implies(not is_none(select(old(self.resources), x)), watched(self, x)), 'Resource')"],
         loops={1: {"index": "i", "inv": ["forall(lambda k: implies(0 <= k and k < i, select(told_changed, elem_at(k))))", KEEP("told_changed"),
                                          "told_created == old(told_created) and told_removed == old(told_removed) and told_moved == old(told_moved)",
                                          "forall(lambda x: implies(not is_none(select(old(self.resources), x)), watched(self, x)), 'Resource')"]},
                2: {"index": "j", "inv": ["forall(lambda x: implies(select(changes.changes, x), select(told_changed, x)), 'Resource')", KEEP("told_changed"),
                                          KEEP("told_removed"), "told_created == old(told_created)",
                                          "forall(lambda k: implies(0 <= k and k < j and is_none(elem_at(k)[1]), select(told_removed, elem_at(k)[0])))",
                                          "forall(lambda k: implies(0 <= k and k < j and not is_none(elem_at(k)[1]), select(told_moved, elem_at(k)[0]) == elem_at(k)[1]))",
                                          "forall(lambda x: implies(not is_none(select(old(self.resources), x)), watched(self, x)), 'Resource')"]},
                3: {"index": "m", "inv": ["forall(lambda x: implies(select(changes.changes, x), select(told_changed, x)), 'Resource')", KEEP("told_changed"),
                                          KEEP("told_removed"), KEEP("told_created"),
                                          "forall(lambda x: implies(not is_none(select(changes.moves, x)) and is_none(val(select(changes.moves, x))), select(told_removed, x)), 'Resource')",
                                          "forall(lambda x: implies(not is_none(select(changes.moves, x)) and not is_none(val(select(changes.moves, x))), select(told_moved, x) == val(select(changes.moves, x))), 'Resource')",
                                          "forall(lambda k: implies(0 <= k and k < m, select(told_created, elem_at(k))))",
                                          "forall(lambda x: implies(not is_none(select(old(self.resources), x)), watched(self, x)), 'Resource')"]}},
         note="every collected change, move/removal and creation is reported")
contract("FilteredResourceObserver.resource_changed", source=M + "FilteredResourceObserver.resource_changed", params={"self": "FilteredResourceObserver", "resource": "Resource"},
         modifies=["self.resources", "told_changed", "told_removed", "told_created", "told_moved", "_Changes.changes[*]", "_Changes.creations[*]", "_Changes.moves[*]"], raises={},
         ensures=["implies(old(watched(self, resource)), select(told_changed, resource))",
                  "implies(old(watched(self, parent_of(resource))), select(told_changed, parent_of(resource)))",
                  KEEP("told_changed")],
         note="THE link C13 needs: a change to a watched resource (or inside a watched folder) is passed on to the wrapped observer")
contract("FilteredResourceObserver._update_changes_caused_by_created", source=M + "FilteredResourceObserver._update_changes_caused_by_created",
         params={"self": "FilteredResourceObserver", "changes": "_Changes", "resource": "Resource"}, modifies=["changes.changes", "changes.creations"], raises={},
         ensures=["forall(lambda x: select(changes.creations, x) == (select(old(changes.creations), x) or (x == resource and watched(self, resource))), 'Resource')",
                  "forall(lambda x: select(changes.changes, x) == (select(old(changes.changes), x) or (x == parent_of(resource) and watched(self, parent_of(resource)))), 'Resource')"])
contract("FilteredResourceObserver.resource_created", source=M + "FilteredResourceObserver.resource_created", params={"self": "FilteredResourceObserver", "resource": "Resource"},
         modifies=["self.resources", "told_changed", "told_removed", "told_created", "told_moved", "_Changes.changes[*]", "_Changes.creations[*]", "_Changes.moves[*]"], raises={},
         ensures=["implies(old(watched(self, resource)), select(told_created, resource))",
                  "implies(old(watched(self, parent_of(resource))), select(told_changed, parent_of(resource)))"],
         note="a watched resource that (re)appears is reported as created, its watched folder as changed")

# ---- removal / move of a watched resource or of a folder holding watched resources ------------------------------------------------------
specfun("is_folder_p", ["Resource"], "Bool")
specfun("contains_p", ["Resource", "Resource"], "Bool", note="folder.contains(resource) (c11_contains.py)")
record("Project", fields={})
REG.records["Resource"].fields.update({"_path": "Str", "project": "Project"})
specfun("res_at", ["Project", "Str"], "Resource", note="project.get_resource(path)")
contract("Resource.path", source="rope.base.resources:Resource.path", is_property=True, inline=True, params={"self": "Resource"}, returns="Str")
contract("Project.get_resource", abstract=True, pure=True, heap_independent=True, params={"self": "Project", "resource_name": "Str"}, returns="Resource",
         ensures=["result == res_at(self, resource_name)"], note="resource lookup by project-relative path (may raise for a path that does not exist: outside this contract)")
# where a file of a moved folder ends up: the new folder's path followed by the file's path below the old folder; nowhere when the folder was removed
specdef("new_place", {"m": "Resource", "nm": "Opt[Resource]", "r": "Resource"}, "Opt[Resource]",
        "ite(is_none(nm), None, Some(res_at(r.project, val(nm)._path + r._path[len(m._path):len(r._path)])))")
contract("Resource.is_folder", abstract=True, pure=True, heap_independent=True, params={"self": "Resource"}, returns="Bool", ensures=["result == is_folder_p(self)"])
contract("Resource.contains", abstract=True, pure=True, heap_independent=True, params={"self": "Resource", "resource": "Resource"}, returns="Bool",
         ensures=["result == contains_p(self, resource)", "implies(result, len(self._path) <= len(resource._path))"],
         note="Folder.contains is verified in c11_contains.py (containment is a statement about paths; what is contained has the longer path)")
contract("FilteredResourceObserver._calculate_new_resource", source=M + "FilteredResourceObserver._calculate_new_resource",
         params={"self": "FilteredResourceObserver", "main": "Resource", "new_main": "Opt[Resource]", "resource": "Resource"}, returns="Opt[Resource]",
         requires=["len(main._path) <= len(resource._path)"], modifies=[], raises={},
         ensures=["result == new_place(main, new_main, resource)"],
         note="the file keeps its path below the folder (precondition: the file lies inside the folder, so its path is at least as long)")
contract("FilteredResourceObserver._update_changes_caused_by_moved", source=M + "FilteredResourceObserver._update_changes_caused_by_moved",
         params={"self": "FilteredResourceObserver", "changes": "_Changes", "resource": "Resource", "new_resource": "Opt[Resource]"}, defaults={"new_resource": "None"},
         modifies=["changes.changes", "changes.creations", "changes.moves"], raises={},
         ensures=[
             # the resource itself, if watched, is recorded as moved to new_resource (removed when that is None) ...
             "implies(watched(self, resource) and not (is_folder_p(resource) and contains_p(resource, resource)), select(changes.moves, resource) == Some(new_resource))",
             # ... and so is every watched resource inside it when it is a folder
             "forall(lambda x: implies(is_folder_p(resource) and watched(self, x) and contains_p(resource, x), "
             "       select(changes.moves, x) == Some(new_place(resource, new_resource, x))), 'Resource')",
             # nothing recorded before is dropped
             "forall(lambda x: implies(not is_none(select(old(changes.moves), x)), not is_none(select(changes.moves, x))), 'Resource')",
             "forall(lambda x: implies(select(old(changes.changes), x), select(changes.changes, x)), 'Resource')",
             "implies(watched(self, parent_of(resource)), select(changes.changes, parent_of(resource)))"],
         loops={1: {"index": "i", "inv": [
             "forall(lambda k: implies(0 <= k and k < i and contains_p(resource, elem_at(k)), select(changes.moves, elem_at(k)) == Some(new_place(resource, new_resource, elem_at(k)))))",
             "implies(watched(self, resource) and not contains_p(resource, resource), select(changes.moves, resource) == Some(new_resource))",
             "forall(lambda x: implies(not is_none(select(old(changes.moves), x)), not is_none(select(changes.moves, x))), 'Resource')",
             "changes.changes == old(changes.changes)"]}},
         note="a removed or moved folder takes the watched resources inside it along")
ALLMOD = ["self.resources", "told_changed", "told_removed", "told_created", "told_moved", "_Changes.changes[*]", "_Changes.creations[*]", "_Changes.moves[*]"]
contract("FilteredResourceObserver.resource_removed", source=M + "FilteredResourceObserver.resource_removed", params={"self": "FilteredResourceObserver", "resource": "Resource"},
         modifies=ALLMOD, raises={},
         ensures=["implies(old(watched(self, resource)) and not (is_folder_p(resource) and contains_p(resource, resource)), select(told_removed, resource))",
                  "forall(lambda x: implies(is_folder_p(resource) and old(watched(self, x)) and contains_p(resource, x), select(told_removed, x)), 'Resource')"],
         note="removing a watched resource, or a folder with watched resources inside, is reported for each of them: the module cache drops them")
contract("FilteredResourceObserver.resource_moved", source=M + "FilteredResourceObserver.resource_moved",
         params={"self": "FilteredResourceObserver", "resource": "Resource", "new_resource": "Resource"}, modifies=ALLMOD, raises={},
         ensures=["implies(old(watched(self, resource)) and not (is_folder_p(resource) and contains_p(resource, resource)), select(told_moved, resource) == Some(new_resource))"],
         note="a watched resource that is moved is reported with its new place")

# C14 — rope.base.simplify.real_code: the simplified text rope scans instead of the source has the SAME LENGTH as the source, so that every offset
# found in it (word starts, parentheses, statement boundaries) is an offset of the source.  Blanked comments keep their length, blanked string literals
# (prefix included) become a quoted run of spaces of the same length, f-strings are kept, joined lines and the final replacements are one-for-one.
# The regular expressions are outside the verifier's reach: what `ignored_regions` and `_parens.finditer` return is ASSUMED to be what a regex scan
# returns (increasing, disjoint, non-empty matches inside the text; a string match is at least its two quotes) and cross-checked natively below.
M = "rope.base.simplify:"
CA = "rope.base.codeanalyze:"
CH = "Seq[Tuple[Int,Int,Str]]"
record("GroupDict", fields={})
record("Match", fields={})
record("Regex", fields={})
record("ChangeCollector", fields={"text": "Str", "changes": CH}, pyclass="rope.base.codeanalyze:ChangeCollector")
constant("_parens", "Regex")
REGS = "Seq[Tuple[Int,Int,GroupDict]]"
specfun("gd_prefix", ["GroupDict"], "Opt[Str]", note="matchgroups.get('prefix', ''): the string prefix, None for a comment match")
specfun("lower_of", ["Str"], "Str", note="str.lower()")
specfun("m_start", ["Match"], "Int", note="match.start()")
specfun("m_group", ["Match"], "Str", note="match.group()")
specfun("repl", ["Str", "Str", "Str"], "Str", note="str.replace(old, new)")
axiom("repl_same_length", {"s": "Str", "a": "Str", "b": "Str"}, "implies(len(a) == len(b) and len(a) > 0, len(repl(s, a, b)) == len(s))", patterns=["repl(s, a, b)"],
      note="replacing every occurrence of a non-empty string by one of the same length keeps the length (CPython str.replace; cross-checked natively)")
contract("Str.replace", external=True, pure=True, params={"self": "Str", "old": "Str", "new": "Str"}, returns="Str", ensures=["result == repl(self, old, new)"])
contract("Str.lower", external=True, pure=True, params={"self": "Str"}, returns="Str", ensures=["result == lower_of(self)"])
contract("GroupDict.get", abstract=True, pure=True, heap_independent=True, params={"self": "GroupDict", "key": "Str", "default": "Str"}, returns="Opt[Str]",
         requires=["key == 'prefix'"], ensures=["result == gd_prefix(self)"], note="dict.get on match.groupdict(): the group exists in the pattern, its value is None when it took no part")
contract("Match.start", abstract=True, pure=True, heap_independent=True, params={"self": "Match"}, returns="Int", ensures=["result == m_start(self)"])
contract("Match.group", abstract=True, pure=True, heap_independent=True, params={"self": "Match"}, returns="Str", ensures=["result == m_group(self)"])

# what a regex scan returns -------------------------------------------------------------------------------------------------------------------------
specdef("wf_regions", {"r": REGS, "t": "Str"}, "Bool",
        "forall(lambda j: implies(0 <= j and j < len(r), 0 <= r[j][0] and r[j][0] < r[j][1] and r[j][1] <= len(t) and implies(j > 0, r[j - 1][1] <= r[j][0]) and "
        "       implies(t[r[j][0]] != '#', r[j][1] - r[j][0] >= 2 and not is_none(gd_prefix(r[j][2])))))")
contract("ignored_regions", abstract=True, pure=True, heap_independent=True, params={"source": "Str"}, returns=REGS, ensures=["wf_regions(result, source)"],
         note="ASSUMED (regex): the comment / string-literal matches in increasing order, disjoint, non-empty; a string match holds at least its two quotes and has a "
              "prefix group.  Cross-checked natively on the C14 corpus (c14-ignored-regions-native)")
specdef("wf_matches", {"m": "Seq[Match]", "t": "Str"}, "Bool",
        "forall(lambda j: implies(0 <= j and j < len(m), 0 <= m_start(m[j]) and m_start(m[j]) < len(t) and len(m_group(m[j])) == 1 and implies(j > 0, m_start(m[j - 1]) < m_start(m[j]))))")
contract("Regex.finditer", abstract=True, pure=True, heap_independent=True, params={"self": "Regex", "string": "Str"}, returns="Seq[Match]", ensures=["wf_matches(result, string)"],
         note="ASSUMED (regex): _parens matches single characters at strictly increasing offsets of the text")

# the collector (verified in c01_collector.py; the same positional contract, of which only the length clause is used here) -------------------------------
specfun("sorted_key2", [CH], CH, note="the list after self.changes.sort(key=lambda x: x[:2])")
specdef("pend", {"s": CH, "k": "Int"}, "Int", "ite(k <= 0, 0, s[k - 1][1])")
specdef("nonoverlap", {"s": CH, "n": "Int"}, "Bool",
        "forall(lambda j: implies(0 <= j and j < len(s), 0 <= s[j][0] and pend(s, j) <= s[j][0] and s[j][0] <= s[j][1] and s[j][1] <= n))")
specfun("offs", [CH, "Int"], "Int", note="length of the output produced before edit k's gap")
axiom("offs_zero", {"s": CH}, "offs(s, 0) == 0", patterns=["offs(s, 0)"])
axiom("offs_step", {"s": CH, "k": "Int"},
      "implies(0 <= k and k < len(s), offs(s, k + 1) == offs(s, k) + (s[k][0] - pend(s, k)) + len(s[k][2]))", patterns=["offs(s, k + 1)"], note="definition of offs by recurrence")
specfun("ordered", [CH], "Bool", note="the edits are sorted and pairwise non-overlapping")
axiom("ordered_intro", {"s": CH}, "implies(forall(lambda j: implies(0 <= j and j < len(s), 0 <= s[j][0] and pend(s, j) <= s[j][0] and s[j][0] <= s[j][1])), ordered(s))",
      note="definition of `ordered`, the direction a call site needs (c01_collector.py states the other one)")
axiom("sorted_is_identity_on_sorted", {"s": CH}, "implies(forall(lambda j: implies(1 <= j and j < len(s), s[j - 1][0] < s[j][0])), sorted_key2(s) == s)",
      note="list.sort(key=...) leaves a list with strictly increasing keys as it is (CPython; cross-checked natively)")
specdef("samelen", {"s": CH}, "Bool", "forall(lambda j: implies(0 <= j and j < len(s), len(s[j][2]) == s[j][1] - s[j][0]))")
induction("offs_is_pend", {"s": CH}, "k", "implies(k <= len(s), offs(s, k) == pend(s, k))", hyps=["samelen(s)"],
          note="when every replacement is as long as what it replaces, the output offset of edit k is its input offset")
contract("ChangeCollector.__init__", source=CA + "ChangeCollector.__init__", inline=True, params={"self": "ChangeCollector", "text": "Str"})
contract("ChangeCollector.add_change", source=CA + "ChangeCollector.add_change", inline=True,
         params={"self": "ChangeCollector", "start": "Int", "end": "Int", "new_text": "Opt[Str]"}, defaults={"new_text": "None"})
contract("ChangeCollector.get_changed", abstract=True, params={"self": "ChangeCollector"}, returns="Opt[Str]",
         requires=["nonoverlap(sorted_key2(self.changes), len(self.text))", "ordered(sorted_key2(self.changes))"], modifies=["self.changes"],
         ensures=["implies(len(old(self.changes)) == 0, is_none(result))",
                  "implies(len(old(self.changes)) > 0, len(ite(is_none(result), self.text, val(result))) == "
                  "        offs(sorted_key2(old(self.changes)), len(old(self.changes))) + len(self.text) - pend(sorted_key2(old(self.changes)), len(old(self.changes))))"],
         note="verified in c01_collector.py (clauses 0 and 2 of its contract, verbatim)")

specdef("good_edits", {"s": CH, "n": "Int"}, "Bool",
        "nonoverlap(s, n) and samelen(s) and forall(lambda j: implies(0 <= j and j < len(s), s[j][0] < s[j][1]))")
contract("real_code", source=M + "real_code", params={"source": "Str"}, returns="Str", modifies=[], raises={},
         ensures=["len(result) == len(source)"],
         loops={1: {"index": "i", "inv": ["collector.text == source", "good_edits(collector.changes, len(source))",
                                          "pend(collector.changes, len(collector.changes)) <= ite(i > 0, elem_at(i - 1)[1], 0)"]},
                2: {"index": "i", "inv": ["collector.text == source", "good_edits(collector.changes, len(source))",
                                          "pend(collector.changes, len(collector.changes)) <= ite(i > 0, m_start(elem_at(i - 1)) + 1, 0)"]}},
         note="decorator @utils.cached(7) dropped by the extraction: memoisation of a function of its argument only")


# ---- CPython cross-checks: the proved clause on the real function, and every ASSUMED fact about the regex scans, str.replace and list.sort -------------
def _xc_rc_domain(tier, seed):
    import itertools
    from bounded import c14_tokens as t
    ns, nc = (5, 4) if tier == "thorough" else (4, 3)
    for L in range(0, ns + 1):
        for tup in itertools.product(t.S_ALPHA, repeat=L):
            yield "".join(tup)
    for L in range(1, nc + 1):
        for tup in itertools.product(t.C_ALPHA + ["\t", "{", "}", "rf'", '"""'], repeat=L):
            yield "".join(tup)
    for text in t.FIXED:
        yield text


bounded_check(name="c14-real-code-length-native", props=["C14"], contract="real_code", build=lambda s: {"source": s}, domain=_xc_rc_domain, exhaustive=True, env={},
              label="CPython cross-check: len(real_code(text)) == len(text) for every text over the string alphabet (<= 4 symbols) and the code alphabet (<= 3 symbols, "
                    "with tabs, braces, an rf prefix and a triple quote), valid Python or not")


def _xc_assumed(text):
    """the facts the proof ASSUMES, each evaluated on CPython: wf_regions, wf_matches, the sort identity and the replace-length axiom"""
    from rope.base import simplify
    regs = simplify.ignored_regions(text)
    prev = 0
    for start, end, gd in regs:
        if not (0 <= start < end <= len(text) and prev <= start):
            return {"status": "fail", "clause": "wf_regions: increasing, disjoint, non-empty, inside the text", "why": "region (%d, %d) after %d in %r" % (start, end, prev, text)}
        if text[start] != "#" and not (end - start >= 2 and gd.get("prefix", "") is not None):
            return {"status": "fail", "clause": "wf_regions: a string match holds its two quotes and has a prefix group", "why": "region (%d, %d) of %r: %r" % (start, end, text, gd)}
        prev = end
    last = -1
    for m in simplify._parens.finditer(text):
        if not (0 <= m.start() < len(text) and len(m.group()) == 1 and last < m.start()):
            return {"status": "fail", "clause": "wf_matches", "why": "match %r at %d after %d in %r" % (m.group(), m.start(), last, text)}
        last = m.start()
    edits = [(s, e, " " * (e - s)) for s, e, _ in regs]
    if sorted(edits, key=lambda x: x[:2]) != edits:
        return {"status": "fail", "clause": "sorted_is_identity_on_sorted", "why": "sort changed %r" % (edits,)}
    for a, b in (("\\\n", "  "), ("\t", " "), (";", "\n")):
        if len(text.replace(a, b)) != len(text):
            return {"status": "fail", "clause": "repl_same_length", "why": "%r.replace(%r, %r)" % (text, a, b)}
    return {"status": "ok", "nontrivial": bool(regs) or last >= 0}


bounded_check(name="c14-real-code-assumptions-native", props=["C14"], fn=_xc_assumed, domain=_xc_rc_domain, exhaustive=True,
              label="CPython check of what the real_code proof assumes about the regex scans (ignored_regions, _parens.finditer), list.sort on sorted input and "
                    "str.replace with equal-length arguments, on the same texts")

# C19 — pattern matching and restructuring.  The matcher works on dynamically typed ast nodes (generic trees); no contract within pyvc's typed
# encoding expresses it yet, so the property is decided by bounded stand-ins only (plus the verified ChangeCollector the rewrites go through).
from bounded import c19_matcher as _b19
bounded_check(name="c19-matcher", fn=_b19.run_case, domain=_b19.domain, exhaustive=True, serial=True,
              label="B3: 13 modules x 20 patterns: reported matches == instances found by a reference structural matcher (wildcards, repeated wildcards, statement "
                    "sequences incl. else/finally suites); matches inside a requested region; goal == pattern leaves the AST unchanged")

# C11 — History._perform_undos / _perform_redos for ANY count (selective undo/redo undoes several changes in one go).
# Same source functions as in c11_history.py (there: count == 1, list equalities the callers need); registered under a '#any-count' label.
M = "rope.base.history:"
ghost("tree", "Opaque[Tree]")
ghost("faults", "Int")
record("Change", abstract=True)
record("AnyChange", bases=["Change"])
record("BaseJobSet", abstract=True)
record("AnyJobSet", bases=["BaseJobSet"])
record("BaseTaskHandle", abstract=True)
record("AnyTaskHandle", bases=["BaseTaskHandle"])
record("History", pyclass="rope.base.history:History",
       fields={"_undo_list": "Seq[Change]", "_redo_list": "Seq[Change]", "_maxundos": "Opt[Int]", "current_change": "Opt[Change]"},
       aliases={"undo_list": "_undo_list", "redo_list": "_redo_list"})
specfun("apply", ["Change", "Opaque[Tree]"], "Opaque[Tree]")
specfun("unapply", ["Change", "Opaque[Tree]"], "Opaque[Tree]")
LEAF_EXC = {"Exception": {"ensures": ["tree == old(tree)", "old(faults) >= 1", "faults == old(faults) - 1"]}}
contract("Change.do", abstract=True, params={"self": "Change", "job_set": "BaseJobSet"}, modifies=["tree", "faults"],
         ensures=["tree == apply(self, old(tree))", "faults == old(faults)"], raises=LEAF_EXC,
         note="all-or-nothing contract of a (composite) change: established for ChangeSet.do/undo in c10_change.py")
contract("Change.undo", abstract=True, params={"self": "Change", "job_set": "BaseJobSet"}, modifies=["tree", "faults"],
         ensures=["tree == unapply(self, old(tree))", "faults == old(faults)"], raises=LEAF_EXC)
contract("change.create_job_set", abstract=True, params={"task_handle": "BaseTaskHandle", "change": "Change"}, returns="BaseJobSet",
         note="creates a job set and informs observers; no effect on tree or history")
# the tree after un-applying the last n entries of u, newest first
specfun("undone", ["Seq[Change]", "Int", "Opaque[Tree]"], "Opaque[Tree]")
axiom("undone_0", {"u": "Seq[Change]", "t": "Opaque[Tree]"}, "undone(u, 0, t) == t", patterns=["undone(u, 0, t)"], note="definition")
axiom("undone_step", {"u": "Seq[Change]", "n": "Int", "t": "Opaque[Tree]"},
      "implies(n >= 1, undone(u, n, t) == unapply(u[len(u) - n], undone(u, n - 1, t)))", patterns=["undone(u, n, t)"], note="definition")
specfun("redone", ["Seq[Change]", "Int", "Opaque[Tree]"], "Opaque[Tree]")
axiom("redone_0", {"u": "Seq[Change]", "t": "Opaque[Tree]"}, "redone(u, 0, t) == t", patterns=["redone(u, 0, t)"], note="definition")
axiom("redone_step", {"u": "Seq[Change]", "n": "Int", "t": "Opaque[Tree]"},
      "implies(n >= 1, redone(u, n, t) == apply(u[len(u) - n], redone(u, n - 1, t)))", patterns=["redone(u, n, t)"], note="definition")

# moved(j): the state after exactly j complete undos: the last j entries moved, newest first, tree un-applied accordingly
MOVED_U = ("len(self._undo_list) == len(old(self._undo_list)) - {j} and "
           "forall(lambda a: implies(0 <= a and a < len(self._undo_list), self._undo_list[a] == old(self._undo_list)[a])) and "
           "len(self._redo_list) == len(old(self._redo_list)) + {j} and "
           "forall(lambda a: implies(0 <= a and a < len(old(self._redo_list)), self._redo_list[a] == old(self._redo_list)[a])) and "
           "forall(lambda b: implies(0 <= b and b < {j}, self._redo_list[len(old(self._redo_list)) + b] == old(self._undo_list)[len(old(self._undo_list)) - 1 - b])) and "
           # (the same fact, indexed by the position in the redo list: what the callers' slices need)
           "forall(lambda c: implies(len(old(self._redo_list)) <= c and c < len(old(self._redo_list)) + {j}, "
           "       self._redo_list[c] == old(self._undo_list)[len(old(self._undo_list)) - 1 - (c - len(old(self._redo_list)))])) and "
           "tree == undone(old(self._undo_list), {j}, old(tree))")
contract("History._perform_undos#any-count", source=M + "History._perform_undos", params={"self": "History", "count": "Int", "task_handle": "BaseTaskHandle"},
         requires=["0 <= count and count <= len(self._undo_list)", "is_none(self.current_change)", "0 <= faults and faults <= 1"],
         modifies=["tree", "faults", "self._undo_list", "self._redo_list", "self.current_change"],
         ensures=[MOVED_U.format(j="count"), "is_none(self.current_change)"],
         raises={"Exception": {"ensures": ["is_none(self.current_change)",
                                           # a failure part-way leaves the history describing the tree: exactly j changes were undone and moved
                                           "exists(lambda j: 0 <= j and j < count and " + MOVED_U.format(j="j") + ")"]}},
         loops={1: {"index": "i", "inv": [MOVED_U.format(j="i"), "is_none(self.current_change)", "faults == old(faults)"]}},
         note="any count: the last `count` changes are un-applied newest first and moved to the redo list in that order; a failure after j of them leaves "
              "lists and tree consistent with exactly j undone")
MOVED_R = MOVED_U.replace("_undo_list", "_XX").replace("_redo_list", "_undo_list").replace("_XX", "_redo_list").replace("undone(", "redone(")
contract("History._perform_redos#any-count", source=M + "History._perform_redos", params={"self": "History", "count": "Int", "task_handle": "BaseTaskHandle"},
         requires=["0 <= count and count <= len(self._redo_list)", "is_none(self.current_change)", "0 <= faults and faults <= 1"],
         modifies=["tree", "faults", "self._undo_list", "self._redo_list", "self.current_change"],
         ensures=[MOVED_R.format(j="count"), "is_none(self.current_change)"],
         raises={"Exception": {"ensures": ["is_none(self.current_change)",
                                           "exists(lambda j: 0 <= j and j < count and " + MOVED_R.format(j="j") + ")"]}},
         loops={1: {"index": "i", "inv": [MOVED_R.format(j="i"), "is_none(self.current_change)", "faults == old(faults)"]}})


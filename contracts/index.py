# Which sidecars decide which property, and what the check claims.  bin/mkmanifest turns this into MANIFEST.json.
PROPS = {
    "C14": {
        "sidecars": ["c14_lines.py", "c14_worder.py", "c14_realcode.py", "c14_logical.py", "c14_caching.py"],
        "level": "proof",
        "claim": "Proof level for the arithmetic clauses of the statement: the line index built by SourceLinesAdapter is exactly the "
                 "positions after each newline, offset->line and line->offset are mutually inverse (lemmas over the accessor contracts), "
                 "for every text and every offset (unbounded, loop invariant discharged); the word scanners (_find_word_start/_find_word_end/"
                 "_find_last_non_space_char) return the maximal identifier-character run / nearest non-blank position, with termination measures. "
                 "simplify.real_code keeps the length of the text (every offset found in the simplified text is an offset of the source), given what the regex scans return "
                 "(assumed, checked natively); the logical lines returned by _CustomGenerator.__call__ are increasing, disjoint ranges inside the text that start on a non-blank line and "
                 "cover every non-blank line, whatever the per-line scan decides (termination included), and CachingLogicalLineFinder.logical_line_in returns exactly the range containing the line and generate_starts yields exactly the marked lines of an interval "
                 "(given marks that come from such a partition: the cache initialiser is checked natively only). Tokenizer-agreement clauses (ignored regions, logical lines, primaries) are exhaustive small-scope stand-ins only.",
        "note": "bisect.bisect assumed to be bisect_right on sorted input (external contract); str.index modelled by its defining property; "
                "characters as code points; termination of the while loop not proved.",
        "undecided": ["string/comment regions == tokenizer tokens for every text (regex; bounded only)",
                      "logical lines == tokenizer statement boundaries for every text (bounded only)"],
    },
}
PROPS["C10"] = {
    "sidecars": ["c10_change.py", "c10_taskhandle.py", "c11_history.py", "c11_leaves.py"],
    "level": "proof",
    "claim": "Proof level: ChangeSet.do/undo restore the ghost tree on any single failure (loop invariants over apply/unapply, rollback in reverse "
             "order), the job-set wrapper never fails after the leaf's effect, JobSet.finished_job never raises, History.do/_perform_undos/_perform_redos "
             "leave both lists and current_change unchanged on failure -- for every list of changes and every failure point. The leaf inverse law is an axiom here "
             "(C11). A bounded fault-injection stand-in on real files accompanies it.",
    "note": "single-fault assumption (faults <= 1: the rollback itself does not fail); abstract tree with uninterpreted apply/unapply; "
            "leaf changes' all-or-nothing contract assumed (OS-level atomicity of one fs call); observers do not raise.",
    "undecided": ["failure inside the rollback itself (second fault)", "selective undo of several dependent changes failing part-way"],
}
PROPS["C11"] = {
    "sidecars": ["c11_history.py", "c10_change.py", "c11_leaves.py", "c11_dependencies.py", "c11_dependencies2.py", "c11_history_n.py", "c11_contains.py", "c11_selective.py"],
    "level": "proof",
    "claim": "Proof level for the list discipline and the inverse laws of plain undo/redo: History.do clears redo, keeps the undo list within the "
             "limit (_remove_extra_items), undo/redo with empty lists are refused without effect (HistoryError exceptional post), plain undo moves exactly "
             "the last change to the redo list and un-applies it, redo is its inverse (lemma over the two contracts), ChangeSet.undo restores the tree "
             "its do started from -- for every history.  For selective undo the dependency search is proved: _depends_on is true exactly when the change "
             "touches a collected resource (same, inside or containing), _FindChangeDependencies.__call__ takes the chosen change first, takes along only "
             "changes that touch something already collected, and leaves in force only changes unrelated to the chosen change's own resources; "
             "_perform_undos/_perform_redos move the last n changes newest-first for any n and stay consistent with the tree on a failure part-way.  "
             "That the selective result equals never having made the changes (commutation of independent changes) is a bounded stand-in.",
    "note": "leaf inverse law unapply(c, apply(c,t)) == t is an axiom over the abstract tree (file-system behaviour of one leaf change assumed; "
            "RemoveResource.undo is a known finding); distinct change objects in the lists; single-fault assumption for exceptional posts.",
    "undecided": ["selective undo beyond the bounded domain", "leaf changes' inverse law over a concrete file-system model"],
}
PROPS["C18"] = {
    "sidecars": ["c18_datafiles.py", "c18_write.py", "c18_history_io.py", "c18_memorydb.py"],
    "level": "proof",
    "claim": "Proof level under the stated stream model: _DataFiles.read_data lets no exception escape whatever the data file holds and returns "
             "None or the one complete saved value (loop invariant over the record stream); History._load_history and MemoryDB._load_files raise "
             "nothing on None or a complete value; History.write saves exactly the two-list shape the loader indexes.  Together: every crash state "
             "of the in-place save (empty file, strict prefix of the new pickle, stale tail) reads as old, new or empty.  The crash-state "
             "enumeration itself is a bounded stand-in on real files."
             " Also proved: write_data truncates and writes one pickle (every crash state it can leave satisfies the reader's precondition), and read_data does return the record when the file holds exactly one.",
    "note": "pickle.load external contract (next object / EOFError at clean end / any exception on a truncated or corrupt pickle); open() does not fail; "
            "a strict prefix of a pickle never unpickles to a complete value (pickle format: STOP opcode is last); with-statement exit neither raises nor suppresses.",
    "undecided": ["atomicity of the write itself (write_data still truncates in place: the old version is not preserved across a crash, only openability is)"],
}
PROPS["C12"] = {
    "sidecars": ["c12_convert.py", "c18_history_io.py"],
    "level": "other",
    "claim": "Proof level for the change<->data conversion: each convertX / makeX pair of ChangeToData / DataToChange satisfies its contract (constructors "
             "executed from their real bodies), the four round-trip lemmas follow from the contracts alone, History.write saves the element-wise "
             "conversion in a two-list shape and History._load_history rebuilds both lists element-wise in order (loop invariants) -- for every history. "
             "The data serializer round trip and the tree-level reopen clause are exhaustive bounded stand-ins (not counted as proved).",
    "note": "dispatch by class name (getattr 'convert'+name / 'make'+name) is not executed symbolically: each target is verified separately; "
            "read_data(write_data(x)) == x assumed from pickle; single-heap lemmas with a fresh rebuilt object.",
    "undecided": ["serializer round trip for all values (bounded exhaustive only)", "ScopeInfo.__getstate__/__setstate__ (bounded only)"],
}
PROPS["C16"] = {
    "sidecars": ["c16_bytes.py", "c16_decode.py", "c16_file.py", "c09_resources.py"],
    "level": "other",
    "claim": "Proof level for the codec/newline selection logic: unicode_to_file_data writes the text with the file's newline convention in the declared "
             "(cookie) encoding, else UTF-8, and reports (never silently replaces) a codec that cannot represent the text; _decode_data uses the declared or "
             "default codec whenever it accepts the bytes, latin-1 only as fallback, and never raises; file_data_to_unicode returns LF-only text and leaves a "
             "CR-free text unchanged -- for all texts, over uninterpreted codecs.  Byte-for-byte round trips on real files and cookie detection are "
             "exhaustive bounded stand-ins."
             " Also proved: File.read refreshes the remembered newline convention on every read, write_file writes in that convention once and tells every observer once.",
    "note": "codecs (encode/decode) and str.replace are external: uninterpreted functions with the listed axioms (latin-1 total, replace removes every "
            "occurrence, replace of an absent substring is the identity); read_str_coding's agreement with the PEP 263 pattern is bounded only.",
    "undecided": ["codec round trip decode(encode(t)) == t", "separator lemma for str.replace chains (bounded only)"],
}
PROPS["C15"] = {
    "sidecars": ["c15_scopes.py", "c15_holding.py"],
    "level": "other",
    "claim": "Proof level for two kernels: PyFunction.get_param_names returns exactly the parameters of every kind (positional-only, positional-or-keyword, "
             "*args, keyword-only, **kwargs) in definition order for every ast.arguments record (comprehension loops with invariants), and "
             "Scope.lookup / Scope._propagated_lookup compute the LEGB binding with enclosing class scopes skipped, for every scope chain (recursion verified "
             "against its own contract, dynamic dispatch of get_propagated_names split over the classes).  Agreement of the name tables with the "
             "interpreter's symbol table is an exhaustive bounded stand-in over one-construct modules."
             " Also proved: the innermost scope holding an offset, the scope holding a line (with termination), and where a scope ends (find_scope_end), each cross-checked natively on real scope trees.",
    "note": "scope objects' name tables are abstract (names_of); the parent chain is finite (termination assumed); ast.arguments fields as declared records.",
    "undecided": ["name tables built by the scope visitors for every module (bounded only)", "holding-scope computation from line numbers"],
}
PROPS["C01"] = {
    "sidecars": ["c01_collector.py", "c02_search.py", "c02_samename.py"],
    "level": "other",
    "claim": "Proof level for the text-edit kernel every rename goes through: ChangeCollector.get_changed returns the text with exactly the sorted, non-overlapping "
             "edit ranges replaced -- length, every kept gap, every replacement and the tail are pinned position by position (loop invariant over a ghost offset "
             "table, lemmas by induction) -- for every text and every edit list; and the whole-word scanner reports exactly the whole-word occurrences.  "
             "Alpha-equivalence and same-output of whole renames are bounded stand-ins on a fixed program catalogue (not counted as proved)."
             " same_pyname (two bindings are the same definition only through an import, with equal location AND object) is proved as well.",
    "note": "list.sort modelled as an uninterpreted sorted_key2(list) of equal length ascending in (start, end) (permutation not encoded); ''.join by its two defining "
            "axioms; strings over z3/cvc5 sequence theory; the non-overlap precondition is discharged by callers only through the finder contract.",
    "undecided": ["binding analysis (which tokens are occurrences) for all programs", "module/package renames", "behaviour for all inputs"],
}
PROPS["C02"] = {
    "sidecars": ["c02_search.py", "c02_samename.py"],
    "level": "other",
    "claim": "Proof level for the textual layer: _TextualFinder._normal_search yields exactly the positions where the name occurs delimited by non-identifier "
             "characters, strictly increasing, none missing (gap formulation of completeness; the skip `current = found + len(name)` is justified by an exported "
             "lemma) -- for every source text and every identifier.  Exactness of the binding filter (same definition) is a bounded stand-in against a "
             "reference binder on a fixed catalogue."
             " same_pyname is proved as well.",
    "note": "str.index modelled by its defining property (least occurrence at or after the start); isalnum uninterpreted (any Unicode classification); "
            "the regex-based _re_search (strings/comments skipped) is not under contract.",
    "undecided": ["regex search vs tokenizer", "pyname identity filter for all programs", "cross-module completeness for all projects"],
}
PROPS["C06"] = {
    "sidecars": ["c06_mapping.py", "c01_collector.py"],
    "level": "other",
    "claim": "Proof level for the binding kernel: ArgumentMapping.__init__ binds positional arguments to the leading parameters, keeps surplus positionals in "
             "order, binds a keyword naming a parameter to it and keeps the others, and never touches an earlier binding -- for every definition and every call "
             "Python accepts (three nested loops with invariants; argument texts opaque); the rewritten text goes through the verified ChangeCollector.  "
             "Changers, re-emission and call-site discovery are bounded stand-ins (grid against the interpreter's own binding; project scenarios).",
    "note": "definition/call parsers (regex/ast based) are not under contract; requires the call to be valid (distinct parameter names, keywords not repeating a "
            "positionally bound parameter).",
    "undecided": ["to_call_info / changers composition theorem", "call-site discovery", "introduce_parameter"],
}
PROPS["C04"] = {
    "sidecars": ["c04_inline.py", "c06_mapping.py", "c07_adding.py"],
    "level": "other",
    "claim": "Proof level for call-site independence and binding: _DefinitionGenerator._calculate_header leaves the per-definition parameter map unchanged (frame "
             "obligation over the heap model: a call site cannot disturb the next), and ArgumentMapping binds each call's arguments as Python does (C06 proof).  "
             "Body substitution, return replacement, name-conflict renaming and import fix-up are bounded stand-ins (pairs of call shapes against the interpreter; projects)."
             " Also proved: which parameters the header initialises (functional contract over the call's binding), the header's shape, to_call_info, and AddingVisitor.visitNormalImport/visitFromImport (what an existing import already provides).",
    "note": "call parser and body generation are not under contract; dict.items() modelled as some enumeration of entries.",
    "undecided": ["name capture", "imports added in other modules for all shapes", "behaviour for all inputs"],
}
PROPS["C13"] = {
    "sidecars": ["c13_caches.py", "c13_observer.py", "c09_operations.py"],
    "level": "other",
    "claim": "Proof level for the per-operation cache contracts: after a change notification _FileListCacher either drops its list or the list already contained "
             "the changed file (so a write that creates a file cannot leave a stale list), every create/move/remove/validate notification drops it, and "
             "_ModuleCache._invalidate_resource removes exactly the changed resource and forgets all concluded data whenever a cached module or package "
             "changes -- for every cache state.  The whole-history clause (answers equal a fresh project's) is a seeded random exploration plus fixed scenarios."
             " Also proved: the notification path (FilteredResourceObserver add/remove/changed/created/removed/moved incl. folders holding watched resources, _Changes, PyCore._invalidate_resource_cache) and the invariant that every cached module is watched (get_pymodule, _invalidate_resource).",
    "note": "observer wiring (which notification reaches which cache) and the pyobjects-side concluded-data mechanism are not under contract; the sqlite "
            "auto-import index is not covered.",
    "undecided": ["whole-history coherence for all histories", "concluded data across modules", "auto-import index"],
}
PROPS["C09"] = {
    "sidecars": ["c09_effects.py", "c10_change.py", "c11_leaves.py", "c09_operations.py", "c09_resources.py", "c09_rename.py"],
    "level": "exploration",
    "claim": "Mostly a bounded check with an effect monitor: every offset x 12 refactorings computes its changes with every disk mutator intercepted and the disk "
             "snapshot compared; scenarios check announced == touched, inside the project, never ignored.  Deductive kernel: ChangeSet.get_changed_resources "
             "announces everything its children announce (loop invariant), and a composite's effect is its children's effects (C10 contracts)."
             " Also proved: every leaf announces what its do() touches (lemmas over a file-system map), _ResourceOperations.move/remove/create issue exactly one file-system call and tell every observer once, ignored resources bypass version control, Resource mutators go through one change set and project.do. Rename moves the module itself only when the caller listed it (a package through its __init__.py) and to <same folder>/<new name>[.py], as exactly one added change (Rename._is_allowed_to_move, _rename_module).",
    "note": "no contract within reach states 'get_changes of every refactoring has no disk effect' for all requests (dynamic dispatch over the whole refactoring "
            "package); the monitor sees only the executions of the bounded domain.",
    "undecided": ["purity for all requests", "preview text == written text"],
}
PROPS["C07"] = {
    "sidecars": ["c07_selector.py", "c07_adding.py"],
    "level": "other",
    "claim": "Proof level for the selection kernel of 'remove unused imports': _OneTimeSelector keeps an import exactly when some dotted prefix of what it binds "
             "is wanted and not yet provided, and then marks every prefix as provided; nothing is ever unselected -- for every name set (loops with early return, "
             "existential postcondition).  That names keep resolving, exports stay available and the actions are idempotent is an exhaustive small-scope stand-in."
             " Also proved: the selector keeps an import IFF a prefix is wanted and not yet provided, AddingVisitor.visitNormalImport/visitFromImport (soundness and completeness of 'already there'), FromImport.get_imported_resource.",
    "note": "_get_dotted_tokens (split/join) is abstract; visitors over import statements, sorting and text rewriting are not under contract.",
    "undecided": ["FilteringVisitor / AddingVisitor / remove_duplicates", "relative->absolute and long-import handling for all modules"],
}
PROPS["C08"] = {
    "sidecars": ["c08_source.py", "c14_lines.py"],
    "level": "other",
    "claim": "Proof level for the token-consumption kernel the annotating walker is built on: _Source.consume returns a range at or after the cursor that holds "
             "exactly the token text and leaves the cursor right after it (or raises MismatchedTokenError), _good_token is true exactly when the position is not "
             "inside a comment of the skipped text (two-sided, existential specification), _skip_comment advances to the next newline, consume_joined_string likewise "
             "-- for every source and token.  Losslessness and region exactness of whole trees are a bounded stand-in over a fixed corpus.",
    "note": "the ~100 node templates of _PatchingASTWalker, parenthesis handling and the regex-based string/number consumers are not under contract.",
    "undecided": ["losslessness for every valid module", "region exactness for every node class"],
}
PROPS["C19"] = {
    "sidecars": ["c19_matcher.py", "c01_collector.py", "c08_source.py"],
    "level": "exploration",
    "claim": "Bounded: on a fixed catalogue (13 modules x 20 patterns) the finder's matches equal those of a reference structural matcher written from the statement "
             "(instance of the pattern, equal wildcards bind equal code, all instances reported), matches respect the requested region, and goal == pattern "
             "leaves the syntax tree unchanged.  Deductive support only through the kernels the rewrite rests on: ChangeCollector.get_changed (text edits) and "
             "_Source.consume/_good_token (regions) are proved for all inputs.",
    "note": "_ASTMatcher works on untyped generic trees (ast.iter_fields); pyvc's encoding has no universal tree datatype yet, so the matcher itself is not under contract.",
    "undecided": ["matcher soundness and completeness for all patterns", "meaning preservation of arbitrary goals"],
}
PROPS["C20"] = {
    "sidecars": ["c20_commenter.py", "c14_worder.py", "c15_holding.py", "c20_assist.py"],
    "level": "exploration",
    "claim": "Mostly bounded: completion at every offset and every line truncation of a fixed module (no internal error, proposals extend the prefix), completeness "
             "probes against hand-listed visible names, go-to-definition on every identifier of the C02 catalogue against the reference binder, scenarios.  "
             "Deductive kernels: the syntax fixer's offset bookkeeping (_Commenter._set/_insert record exactly the length change per original line) and the word "
             "scanners (C14 contracts) are proved for all inputs."
             " Also proved: the scope holding an offset / a line, find_scope_end, _is_defined_after, is_function_keyword_parameter.",
    "note": "visible-name computation (_undotted_completions over pyscopes) and FixSyntax's retry loop are not under contract.",
    "undecided": ["internal-error freedom for all modules", "completeness of proposals for all scopes"],
}
PROPS["C03"] = {
    "sidecars": ["c03_context.py", "c01_collector.py", "c03_breaks.py"],
    "level": "exploration",
    "claim": "Mostly bounded and behavioural: 16 464 extractions of statement regions are executed before and after on 9 inputs each (same results, output and "
             "exceptions, or refused), plus fixed regions for control flow.  Deductive kernels: the analysis' conditional/loop context managers restore the enclosing "
             "context on exit (generator contracts over try/finally) and the text edits go through the verified ChangeCollector."
             " Also proved: the contexts the with-bodies see (at_yield clauses) and the break/continue finder's depth discipline (a loop's else-clause is judged at the enclosing depth).",
    "note": "the data-flow collector (visitor with dozens of handlers) is not under contract; behaviour is compared on a finite input set only.",
    "undecided": ["behavioural equivalence for all programs and inputs", "similar= matching beyond C19"],
}
PROPS["C05"] = {
    "sidecars": ["c05_modname.py", "c07_selector.py", "c07_adding.py"],
    "level": "exploration",
    "claim": "Mostly bounded and behavioural (95 move/rename/to-package scenarios executed before and after).  Deductive kernel: libutils.modname computes the dotted name "
             "'own name qualified by every enclosing package folder' for every resource (loop invariant over a recursively specified qual), and the lemma that "
             "module-to-package keeps that name follows from the contract's specification; the import selector kernel of C07 is shared."
             " Also proved: AddingVisitor.visitNormalImport/visitFromImport and FromImport.get_imported_resource (a relative import is resolved from its own package).",
    "note": "no contract within reach states 'every importer still works' (import rewriting in move.py spans occurrence finding, import tools and text edits).",
    "undecided": ["all import-rewriting paths of move.py", "behaviour for all projects"],
}
PROPS["C17"] = {
    "sidecars": ["c17_assign.py", "c14_worder.py", "c17_writes.py", "c17_usefunction.py"],
    "level": "exploration",
    "claim": "Mostly bounded and behavioural (29 projects executed before and after the refactoring).  Deductive kernel: the read/write classification "
             "encapsulate-field relies on -- get_assignment_type reports only operators ending in '=' of 1-3 characters and never a comparison (==, <=, >=, !=) -- for "
             "every text, together with the word scanners it uses (C14 contracts)."
             " Also proved: get_assignment_type exactly (shortest of the next 1-3 characters ending in '='), and _manage_writes closes a pending setter call exactly at the end of the assignment; UseFunction._check_returns refuses exactly the functions with a yield, "
             "several returns or a return that is not the last statement.",
    "note": "four of the five refactorings have no function-level contract within reach (they are compositions of occurrence finding, matching and text edits).",
    "undecided": ["behaviour preservation for all classes and all client modules"],
}
_NB = "check not built yet (framework under construction; see DESIGN.md section 8)"
NOT_APPLICABLE = {"C%02d" % i: _NB for i in range(1, 21)}

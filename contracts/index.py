# Which sidecars decide which property, and what the check claims.  bin/mkmanifest turns this into MANIFEST.json.
PROPS = {
    "C14": {
        "sidecars": ["c14_lines.py"],
        "level": "proof",
        "claim": "Proof level for the arithmetic clauses of the statement: the line index built by SourceLinesAdapter is exactly the "
                 "positions after each newline, offset->line and line->offset are mutually inverse (lemmas over the accessor contracts), "
                 "for every text and every offset (unbounded, loop invariant discharged). Tokenizer-agreement clauses are bounded stand-ins only.",
        "note": "bisect.bisect assumed to be bisect_right on sorted input (external contract); str.index modelled by its defining property; "
                "characters as code points; termination of the while loop not proved.",
        "undecided": ["string/comment regions == tokenizer tokens for every text (regex; bounded only)",
                      "logical lines == tokenizer statement boundaries for every text (bounded only)"],
    },
}
_NB = "check not built yet (framework under construction; see DESIGN.md section 8)"
NOT_APPLICABLE = {"C%02d" % i: _NB for i in range(1, 21)}

# C03 — may the extracted region contain this break/continue?  rope.refactor.extract._UnmatchedBreakOrContinueFinder
# A break/continue is matched iff a loop of the region encloses it through loop BODIES: the else-clause of a loop belongs to the enclosing level.
M = "rope.refactor.extract:"
record("Node", fields={"body": "Seq[Node]", "orelse": "Seq[Node]"})
record("_UnmatchedBreakOrContinueFinder", fields={"error": "Bool", "loop_count": "Int"})
ghost("visited", "Seq[Tuple[Node,Int]]")     # every child handed to visit(), with the loop depth it was visited at
contract("_UnmatchedBreakOrContinueFinder.visit", abstract=True, params={"self": "_UnmatchedBreakOrContinueFinder", "node": "Node"},
         modifies=["visited", "self.error"],
         ensures=["visited == old(visited) + [(node, self.loop_count)]", "self.loop_count == old(self.loop_count)", "implies(old(self.error), self.error)"],
         note="the generic visitor dispatch: visits the subtree at the current depth and leaves the depth as it was (every handler of this class restores it: "
              "loop_encountered below; the others do not touch it); an error once found stays")
contract("_UnmatchedBreakOrContinueFinder.loop_encountered", source=M + "_UnmatchedBreakOrContinueFinder.loop_encountered",
         params={"self": "_UnmatchedBreakOrContinueFinder", "node": "Node"}, modifies=["visited", "self.error", "self.loop_count"], raises={},
         ensures=["self.loop_count == old(self.loop_count)", "implies(old(self.error), self.error)",
                  "len(visited) == len(old(visited)) + len(node.body) + len(node.orelse)",
                  # the body is visited one level deeper, the else-clause at the level of the loop statement itself
                  "forall(lambda k: implies(0 <= k and k < len(node.body), visited[len(old(visited)) + k] == (node.body[k], old(self.loop_count) + 1)))",
                  "forall(lambda k: implies(0 <= k and k < len(node.orelse), visited[len(old(visited)) + len(node.body) + k] == (node.orelse[k], old(self.loop_count))))",
                  "forall(lambda k: implies(0 <= k and k < len(old(visited)), visited[k] == old(visited)[k]))"],
         loops={1: {"index": "i", "inv": ["self.loop_count == old(self.loop_count) + 1", "implies(old(self.error), self.error)", "len(visited) == len(old(visited)) + i",
                                          "forall(lambda k: implies(0 <= k and k < i, visited[len(old(visited)) + k] == (node.body[k], old(self.loop_count) + 1)))",
                                          "forall(lambda k: implies(0 <= k and k < len(old(visited)), visited[k] == old(visited)[k]))"]},
                2: {"index": "j", "inv": ["self.loop_count == old(self.loop_count)", "implies(old(self.error), self.error)", "len(visited) == len(old(visited)) + len(node.body) + j",
                                          "forall(lambda k: implies(0 <= k and k < len(node.body), visited[len(old(visited)) + k] == (node.body[k], old(self.loop_count) + 1)))",
                                          "forall(lambda k: implies(0 <= k and k < j, visited[len(old(visited)) + len(node.body) + k] == (node.orelse[k], old(self.loop_count))))",
                                          "forall(lambda k: implies(0 <= k and k < len(old(visited)), visited[k] == old(visited)[k]))"]}},
         note="a `break` in the else-clause of a loop leaves the ENCLOSING loop: it must be judged at the enclosing depth")
contract("_UnmatchedBreakOrContinueFinder.check_loop", source=M + "_UnmatchedBreakOrContinueFinder.check_loop", params={"self": "_UnmatchedBreakOrContinueFinder"},
         modifies=["self.error"], raises={},
         ensures=["self.error == (old(self.error) or self.loop_count < 1)"],
         note="a break/continue at depth 0 has no loop of the region around it: the region cannot be extracted")

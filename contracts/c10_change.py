# C10 — a composite change is all-or-nothing (rope.base.change.ChangeSet, _handle_job_set; rope.base.taskhandle.JobSet)
#
# Ghost state: `tree` = the project tree on disk (opaque), `faults` = how many more failures (file-system
# exception or task interruption) the environment may still inject.  The property is stated for one fault
# ("fails part-way"): requires faults <= 1, so the rollback itself runs fault-free (stated assumption).
M = "rope.base.change:"
ghost("tree", "Opaque[Tree]")
ghost("faults", "Int")
record("Change", abstract=True)
record("ChangeSet", bases=["Change"], fields={"changes": "Seq[Change]", "description": "Str", "time": "Opt[Opaque[Time]]"},
       pyclass="rope.base.change:ChangeSet")
record("LeafChange", bases=["Change"])
record("BaseJobSet", abstract=True)
record("AnyJobSet", bases=["BaseJobSet"])
constant("taskhandle.DEFAULT_JOB_SET", "BaseJobSet")

specfun("apply", ["Change", "Opaque[Tree]"], "Opaque[Tree]", note="effect of performing a change on the tree")
specfun("unapply", ["Change", "Opaque[Tree]"], "Opaque[Tree]", note="effect of undoing a change")
specfun("AS", ["Seq[Change]", "Int", "Opaque[Tree]"], "Opaque[Tree]", note="tree after the first k changes of the list were applied in order")
axiom("AS_zero", {"s": "Seq[Change]", "t": "Opaque[Tree]"}, "AS(s, 0, t) == t", patterns=["AS(s, 0, t)"])
axiom("AS_step", {"s": "Seq[Change]", "k": "Int", "t": "Opaque[Tree]"},
      "implies(1 <= k and k <= len(s), AS(s, k, t) == apply(s[k - 1], AS(s, k - 1, t)))", patterns=["AS(s, k, t)"],
      note="definition of AS by recurrence")
axiom("undo_inverts_do", {"c": "Change", "t": "Opaque[Tree]"}, "unapply(c, apply(c, t)) == t", patterns=["apply(c, t)"],
      note="leaf inverse law: established per leaf class over the file-system model in C11 (RemoveResource is the known exception)")
axiom("redo_inverts_undo", {"c": "Change", "t": "Opaque[Tree]"}, "apply(c, unapply(c, apply(c, t))) == apply(c, t)", patterns=["apply(c, t)"],
      note="consequence of undo_inverts_do (stated to help the solver)")

ABS_MOD = ["tree", "faults", "ChangeSet.time[*]"]
contract("Change.do", abstract=True, params={"self": "Change", "job_set": "BaseJobSet"}, defaults={"job_set": "taskhandle.DEFAULT_JOB_SET"},
         modifies=ABS_MOD,
         ensures=["tree == apply(self, old(tree))", "faults == old(faults)"],
         raises={"Exception": {"ensures": ["tree == old(tree)", "old(faults) >= 1", "faults == old(faults) - 1"]}},
         note="leaf contract: do either takes effect completely or fails leaving the tree as it was, consuming one fault")
contract("Change.undo", abstract=True, params={"self": "Change", "job_set": "BaseJobSet"}, defaults={"job_set": "taskhandle.DEFAULT_JOB_SET"},
         modifies=ABS_MOD,
         ensures=["tree == unapply(self, old(tree))", "faults == old(faults)"],
         raises={"Exception": {"ensures": ["tree == old(tree)", "old(faults) >= 1", "faults == old(faults) - 1"]}})
contract("time.time", external=True, params={}, returns="Opaque[Time]", note="clock")

contract("ChangeSet.do", source=M + "ChangeSet.do", params={"self": "ChangeSet", "job_set": "BaseJobSet"},
         requires=["0 <= faults and faults <= 1"],
         modifies=["tree", "faults", "ChangeSet.time[*]"],
         ensures=["tree == AS(self.changes, len(self.changes), old(tree))", "not is_none(self.time)"],
         raises={"Exception": {"ensures": ["tree == old(tree)"]}},
         locals={"done": "Seq[Change]"},
         loops={1: {"index": "i", "inv": ["done == self.changes[0:i]", "tree == AS(self.changes, i, old(tree))", "faults == old(faults)"]},
                2: {"index": "j", "inv": ["faults == 0", "0 <= len(done) and len(done) <= len(self.changes)", "done == self.changes[0:len(done)]",
                                          "tree == AS(self.changes, len(done) - j, old(tree))"]}})

contract("ChangeSet.undo", source=M + "ChangeSet.undo", params={"self": "ChangeSet", "job_set": "BaseJobSet"},
         ghost_in={"t0": "Opaque[Tree]"},
         requires=["0 <= faults and faults <= 1", "tree == AS(self.changes, len(self.changes), t0)"],
         modifies=["tree", "faults", "ChangeSet.time[*]"],
         ensures=["tree == t0"],
         raises={"Exception": {"ensures": ["tree == old(tree)"]}},
         locals={"done": "Seq[Change]"},
         loops={1: {"index": "i", "inv": ["len(done) == i", "forall(lambda k: implies(0 <= k and k < i, done[k] == self.changes[len(self.changes) - 1 - k]))",
                                          "tree == AS(self.changes, len(self.changes) - i, t0)", "faults == old(faults)"]},
                2: {"index": "j", "inv": ["faults == 0", "len(done) <= len(self.changes)",
                                          "forall(lambda k: implies(0 <= k and k < len(done), done[k] == self.changes[len(self.changes) - 1 - k]))",
                                          "tree == AS(self.changes, len(self.changes) - len(done) + j, t0)"]}})

# ---- the job-set wrapper around every leaf do/undo ------------------------------------------------
# `function` is the undecorated leaf method (free variable of the decorator); its contract is the leaf contract.
contract("function", abstract=True, params={"self": "Change"}, modifies=["tree", "faults"],
         ensures=["tree == apply(self, old(tree))", "faults == old(faults)"],
         raises={"Exception": {"ensures": ["tree == old(tree)", "old(faults) >= 1", "faults == old(faults) - 1"]}},
         note="undecorated leaf do/undo: proved per leaf class over the file-system model (C11 sidecar)")
ghost("started", "Int")
ghost("finished", "Int")
contract("BaseJobSet.started_job", abstract=True, params={"self": "BaseJobSet", "name": "Str"}, modifies=["faults", "started"],
         ensures=["faults == old(faults)", "started == old(started) + 1"],
         raises={"InterruptedTaskError": {"ensures": ["old(faults) >= 1", "faults == old(faults) - 1", "started == old(started)"]}},
         note="a stopped task handle interrupts at the start of a job; no effect on the tree (JobSet.started_job is verified in c10_taskhandle.py)")
contract("BaseJobSet.finished_job", abstract=True, params={"self": "BaseJobSet"}, modifies=["finished"], ensures=["finished == old(finished) + 1"],
         note="finishing a job never raises (JobSet.finished_job / NullJobSet.finished_job verified in c10_taskhandle.py)")
contract("_handle_job_set.call", source=M + "_handle_job_set.call", params={"self": "Change", "job_set": "BaseJobSet"},
         requires=["0 <= faults"], modifies=["tree", "faults", "started", "finished"],
         ensures=["tree == apply(self, old(tree))", "started == old(started) + 1", "finished == old(finished) + 1"],
         raises={"Exception": {"ensures": ["tree == old(tree)", "old(faults) >= 1", "finished == old(finished)"]}},
         note="one job is announced before the leaf's effect and reported finished after it; a failure reports nothing finished")

# ---- bounded stand-in (B3): real leaf changes on a real temp project, one injected fault ----------
from bounded import c10_faults
bounded_check(name="c10-faults", props=["C10", "C11"], fn=c10_faults.run_probe, domain=c10_faults.domain, exhaustive=True,
              label="B3: every composite of 2 (thorough: 2 and 3) distinct leaf changes out of 10 kinds (edit, move file/folder, create file/folder, "
                    "create in new folder, remove) x do/undo x every fs-call index (OSError injected) and every task-handle observer callback index "
                    "(TaskHandle.stop()); tree snapshot and history lists compared")

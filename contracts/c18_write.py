# C18 — _DataFiles.write_data: what the save leaves in the pickle file, step by step.
#
# Same ghost model of the data file as c18_datafiles.py (`records` = complete pickles at its start, `garbage` = a partial pickle after them).
# The external contracts state what each file operation does to it; a crash *inside* an operation leaves the state before it plus `garbage`
# (pickle.dump writes sequentially), which is exactly the family read_data's contract accepts (len(records) <= 1, any garbage).
M = "rope.base.project:"
ghost("records", "Seq[Opaque[Data]]")
ghost("garbage", "Bool")
ghost("data_path", "Str")
ghost("json_written", "Int")
record("Folder", fields={"path": "Str"})
record("File", fields={"real_path": "Str"})
record("Project", fields={"ropefolder": "Opt[Folder]"})
record("FileObj", fields={})
record("ExitStack", fields={})
record("_DataFiles", fields={"project": "Project"}, pyclass="rope.base.project:_DataFiles")
specfun("file_of", ["_DataFiles", "Str"], "File", note="the resource .ropeproject/<name>")
specfun("path_of", ["FileObj"], "Str", note="the path a stream was opened on")
specfun("mode_of", ["FileObj"], "Str")
specfun("on_disk", ["File"], "Bool", note="the data file exists")
contract("File.exists", abstract=True, pure=True, params={"self": "File"}, returns="Bool", ensures=["result == on_disk(self)"],
         note="(part of the environment so that a variant of write_data that looks at the old file is still judged against the open/dump contracts)")
contract("_DataFiles._get_file", abstract=True, pure=True, params={"self": "_DataFiles", "name": "Str"}, returns="File", ensures=["result == file_of(self, name)"])
contract("ExitStack.__init__", abstract=True, params={"self": "ExitStack"})
contract("ExitStack.enter_context", abstract=True, params={"self": "ExitStack", "cm": "FileObj"}, returns="FileObj", ensures=["result == cm"],
         note="contextlib.ExitStack.enter_context returns what __enter__ returns: the file itself")
contract("open", external=True, params={"path": "Str", "mode": "Str"}, returns="FileObj", modifies=["records", "garbage"],
         requires=["mode == 'wb' or mode == 'w' or mode == 'rb'"],
         ensures=["path_of(result) == path", "mode_of(result) == mode",
                  # opening the data file for writing truncates it; any other open leaves it alone
                  "implies(path == data_path and (mode == 'wb' or mode == 'w'), len(records) == 0 and not garbage)",
                  "implies(not (path == data_path and (mode == 'wb' or mode == 'w')), records == old(records) and garbage == old(garbage))"],
         note="open(): 'wb'/'w' truncate the named file and nothing else")
contract("pickle.dump", external=True, params={"obj": "Opaque[Data]", "f": "FileObj", "protocol": "Int"}, modifies=["records", "garbage"],
         requires=["mode_of(f) == 'wb'", "not garbage or path_of(f) != data_path"],
         ensures=["implies(path_of(f) == data_path, records == old(records) + [obj] and not garbage)",
                  "implies(path_of(f) != data_path, records == old(records) and garbage == old(garbage))"],
         note="pickle.dump appends one complete pickle to the stream it is given (binary mode required)")
contract("json.dump", external=True, params={"obj": "Opaque[Data]", "f": "FileObj"}, modifies=["json_written"], ignored_keywords=["default"],
         requires=["mode_of(f) == 'w'", "path_of(f) != data_path"], ensures=["json_written == old(json_written) + 1"],
         note="the .json side file is never read by rope; it must not be the data file (its `default=` argument is not modelled)")

contract("_DataFiles.write_data", source=M + "_DataFiles.write_data", params={"self": "_DataFiles", "name": "Str", "data": "Opaque[Data]"},
         requires=["data_path == file_of(self, name).real_path"],
         modifies=["records", "garbage", "json_written"], raises={},
         ensures=[
             # with a project folder: the file holds exactly the one complete record `data` -- what read_data hands back (c18_datafiles.py)
             "implies(not is_none(self.project.ropefolder), len(records) == 1 and records[0] == data and not garbage)",
             # without one: nothing is touched
             "implies(is_none(self.project.ropefolder), records == old(records) and garbage == old(garbage) and json_written == old(json_written))"],
         note="the save truncates the data file and writes ONE pickle; the crash states in between are ([], no garbage), ([], garbage), ([data], none)")

# every state a crash can leave behind satisfies the reader's precondition (c18_datafiles.py: len(records) <= 1), whatever was there before
lemma("crash_states_are_readable",
      {"r0": "Seq[Opaque[Data]]", "g0": "Bool", "d": "Opaque[Data]", "r": "Seq[Opaque[Data]]", "g": "Bool", "step": "Int"},
      hyps=["len(r0) <= 1",
            # step 0: before open; 1: after open 'wb' (truncated); 2: inside pickle.dump (partial); 3: after it
            "0 <= step and step <= 3",
            "implies(step == 0, r == r0 and g == g0)", "implies(step == 1, len(r) == 0 and not g)",
            "implies(step == 2, len(r) == 0 and g)", "implies(step == 3, r == [d] and not g)"],
      goal="len(r) <= 1 and (len(r) == 0 or (len(r0) == 1 and r == r0) or r == [d])",
      note="old, new or empty: the three cases of the statement")

# C20 — offset bookkeeping of the syntax fixer: rope.contrib.fixsyntax._Commenter._set / _insert
# diffs[o] accumulates, per ORIGINAL line o, how many characters the repaired text has gained there; transferred_offset adds the diffs of the lines before.
M = "rope.contrib.fixsyntax:"
record("_Commenter", fields={"lines": "Seq[Str]", "origs": "Seq[Int]", "diffs": "Seq[Int]"})
WF = ["0 <= lineno and lineno < len(self.lines)", "lineno < len(self.origs)", "0 <= self.origs[lineno] and self.origs[lineno] < len(self.diffs)"]
contract("_Commenter._set", source=M + "_Commenter._set", params={"self": "_Commenter", "lineno": "Int", "line": "Str"},
         requires=WF, modifies=["self.lines", "self.diffs"], raises={},
         ensures=["len(self.lines) == len(old(self.lines))", "self.lines[lineno] == line",
                  "forall(lambda k: implies(0 <= k and k < len(self.lines) and k != lineno, self.lines[k] == old(self.lines)[k]))",
                  "len(self.diffs) == len(old(self.diffs))",
                  "self.diffs[self.origs[lineno]] == old(self.diffs)[self.origs[lineno]] + len(line) - len(old(self.lines)[lineno])",
                  "forall(lambda k: implies(0 <= k and k < len(self.diffs) and k != self.origs[lineno], self.diffs[k] == old(self.diffs)[k]))"],
         note="replacing a line records exactly its change in length against the original line it stems from, and nothing else")
contract("_Commenter._insert", source=M + "_Commenter._insert", params={"self": "_Commenter", "lineno": "Int", "line": "Str"},
         requires=WF, modifies=["self.lines", "self.diffs", "self.origs"], raises={},
         ensures=["len(self.lines) == len(old(self.lines)) + 1", "self.lines[lineno] == line",
                  "forall(lambda k: implies(0 <= k and k < lineno, self.lines[k] == old(self.lines)[k]))",
                  "forall(lambda k: implies(lineno < k and k < len(self.lines), self.lines[k] == old(self.lines)[k - 1]))",
                  "len(self.origs) == len(old(self.origs)) + 1", "self.origs[lineno] == old(self.origs)[lineno]",
                  "forall(lambda k: implies(lineno < k and k < len(self.origs), self.origs[k] == old(self.origs)[k - 1]))",
                  "self.diffs[old(self.origs)[lineno]] == old(self.diffs)[old(self.origs)[lineno]] + len(line) + 1",
                  "forall(lambda k: implies(0 <= k and k < len(self.diffs) and k != old(self.origs)[lineno], self.diffs[k] == old(self.diffs)[k]))"],
         note="an inserted line (plus its newline) is charged to the original line at that position; later lines keep their origin")

from bounded import c20_assist as _b20
bounded_check(name="c20-assist", fn=_b20.run_case, domain=_b20.domain, exhaustive=True, serial=True,
              label="B3: every offset and every line truncation of a 19-line module (940 completions), 15 completeness probes, go-to-definition on every identifier of 30 catalogue programs, 4 scenarios")

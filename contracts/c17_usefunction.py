# C17 — use function: which functions are refused.  rope.refactor.usefunction.UseFunction._check_returns
# "Use function" replaces code shaped like a function's body by a call.  That preserves behaviour only when the body has no yield, at most one
# return, and that return is the LAST statement (an early `return` cuts the rest of the body short, which the replaced code would not do).
# The property says such functions are refused; the contract says _check_returns raises in exactly those cases.
M = "rope.refactor.usefunction:"
record("FunctionNode", fields={})
record("PyFunction", fields={})
record("UseFunction", fields={"pyfunction": "PyFunction"})
specfun("ast_of", ["PyFunction"], "FunctionNode", note="pyfunction.get_ast()")
specfun("yields_in", ["FunctionNode"], "Int", note="number of yield expressions of the function itself (nested defs excluded): _yield_count")
specfun("returns_in", ["FunctionNode"], "Int", note="number of return statements of the function itself, with or without a value: _return_count")
specfun("last_is_return", ["FunctionNode"], "Bool", note="the body's last statement is a return: truthiness of _returns_last")
specfun("has_value_return", ["UseFunction"], "Bool", note="UseFunction._does_return(): some `return <value>` in the body (bare returns not seen)")
contract("PyFunction.get_ast", abstract=True, pure=True, heap_independent=True, params={"self": "PyFunction"}, returns="FunctionNode", ensures=["result == ast_of(self)"])
contract("_yield_count", abstract=True, pure=True, heap_independent=True, params={"node": "FunctionNode"}, returns="Int", ensures=["result == yields_in(node)", "result >= 0"],
         note="visitor count; checked natively against an independent walk (c17-check-returns-native)")
contract("_return_count", abstract=True, pure=True, heap_independent=True, params={"node": "FunctionNode"}, returns="Int", ensures=["result == returns_in(node)", "result >= 0"],
         note="visitor count; checked natively against an independent walk")
contract("_returns_last", abstract=True, pure=True, heap_independent=True, params={"node": "FunctionNode"}, returns="Bool", ensures=["result == last_is_return(node)"],
         note="returns `node.body and isinstance(node.body[-1], ast.Return)`; only its truthiness is used, modelled as Bool")
contract("UseFunction._does_return", abstract=True, pure=True, heap_independent=True, params={"self": "UseFunction"}, returns="Bool", ensures=["result == has_value_return(self)"],
         note="declared so that a body using it instead of the return count is judged, not left undecided; nothing is assumed to relate it to returns_in")
specdef("unsafe_shape", {"n": "FunctionNode"}, "Bool", "yields_in(n) > 0 or returns_in(n) > 1 or (returns_in(n) == 1 and not last_is_return(n))")
contract("UseFunction._check_returns", source=M + "UseFunction._check_returns", params={"self": "UseFunction"}, returns="NoneT", modifies=[],
         raises={"RefactoringError": {"when": "unsafe_shape(ast_of(self.pyfunction))", "ensures": []}},
         ensures=["not unsafe_shape(ast_of(self.pyfunction))"],
         note="accepted  <=>  no yield, at most one return, and a single return is the last statement; refused otherwise (and only then)")


# ---- CPython cross-check on real function nodes, with an independent count of returns / yields -------------------------------------------------
_XC_BODIES = [
    "    return x\n", "    print(x)\n", "    print(x)\n    return x\n", "    if not x:\n        return\n    print(x)\n", "    if x:\n        return 1\n    return 2\n",
    "    yield x\n", "    if not x:\n        return 0\n    print(x)\n", "    def g():\n        return 1\n    print(g())\n", "    def g():\n        yield 1\n    return list(g())\n",
    "    return\n", "    print(x)\n    return\n", "    for i in x:\n        if i:\n            return i\n", "    y = (yield)\n", "    class C:\n        def m(self):\n            return 1\n    return C\n",
    "    try:\n        return x\n    finally:\n        print(x)\n", "    while x:\n        x -= 1\n    return x\n", "    return (yield x)\n", "    lambda: (yield)\n    return 1\n",
]


def _xc_cr_domain(tier, seed):
    for i in range(len(_XC_BODIES)):
        yield i


def _xc_cr_build(i):
    # a REAL PyFunction of a string module, so that a changed body may use anything UseFunction offers (_does_return, _get_body, ...)
    from rope.base import libutils
    from rope.base.project import NoProject
    from rope.refactor import usefunction
    project = NoProject()
    pm = libutils.get_string_module(project, "def f(x):\n" + _XC_BODIES[i])
    uf = object.__new__(usefunction.UseFunction)
    uf.project, uf.offset, uf.resource = project, 4, None
    uf.pyfunction = pm["f"].get_object()
    return {"self": uf}


def _xc_own(node, kinds):
    import ast as _ast
    n, todo = 0, list(_ast.iter_child_nodes(node))
    while todo:
        c = todo.pop()
        if isinstance(c, (_ast.FunctionDef, _ast.AsyncFunctionDef, _ast.ClassDef)):
            continue
        n += isinstance(c, kinds)
        todo.extend(_ast.iter_child_nodes(c))
    return n


def _xc_env():
    import ast as _ast
    return {"ast_of": lambda pf: pf.get_ast(), "yields_in": lambda n: _xc_own(n, (_ast.Yield,)), "returns_in": lambda n: _xc_own(n, (_ast.Return,)),
            "last_is_return": lambda n: bool(n.body) and isinstance(n.body[-1], _ast.Return), "has_value_return": lambda uf: uf._does_return()}


bounded_check(name="c17-check-returns-native", props=["C17"], contract="UseFunction._check_returns", build=_xc_cr_build, domain=_xc_cr_domain, exhaustive=True, env=_xc_env(),
              label="CPython cross-check: _check_returns refuses exactly the functions with a yield, several returns or an early return — %d real function nodes, "
                    "returns and yields counted by an independent walk (nested defs and classes excluded)" % len(_XC_BODIES))

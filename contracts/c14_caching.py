# C14 — rope.base.codeanalyze.CachingLogicalLineFinder.logical_line_in: looking a line up in the cached start / end marks gives back exactly the
# logical line (the range of the partition, c14_logical.py) that contains it.  This is the function every refactoring asks ("which statement is this
# line part of?"), e.g. encapsulate field for the end of an assignment.
M = "rope.base.codeanalyze:"
MARKS = "Seq[Opt[Bool]]"
R = "Seq[Tuple[Int,Int]]"
record("CachingLogicalLineFinder", fields={})
specfun("st_of", ["CachingLogicalLineFinder"], MARKS, note="self.starts: [None] * (length + 1) with True at every first line of a logical line")
specfun("en_of", ["CachingLogicalLineFinder"], MARKS, note="self.ends: the same for last lines")
specfun("ranges_of", ["CachingLogicalLineFinder"], R, note="ghost: the ranges the generator produced (what _init_logicals iterated over)")
contract("CachingLogicalLineFinder.starts", abstract=True, is_property=True, pure=True, heap_independent=True, params={"self": "CachingLogicalLineFinder"}, returns=MARKS,
         ensures=["result == st_of(self)"], note="lazily initialised cache (_init_logicals runs once); its content is the precondition `marks_ok` below")
contract("CachingLogicalLineFinder.ends", abstract=True, is_property=True, pure=True, heap_independent=True, params={"self": "CachingLogicalLineFinder"}, returns=MARKS,
         ensures=["result == en_of(self)"])
specdef("on", {"m": MARKS, "a": "Int"}, "Bool", "not is_none(m[a]) and val(m[a])")
specdef("ranges_ok", {"r": R, "upto": "Int"}, "Bool",
        "forall(lambda k: implies(0 <= k and k < len(r), 1 <= r[k][0] and r[k][0] <= r[k][1] and r[k][1] < upto)) and "
        "forall(lambda j, k: implies(0 <= j and j < k and k < len(r), r[j][1] < r[k][0]))")
# the marks are exactly the starts / ends of the ranges (what `for start, end in generate(lines): starts[start] = True; ends[end] = True` leaves)
specdef("marks_ok", {"s": MARKS, "e": MARKS, "r": R}, "Bool",
        "len(s) == len(e) and len(s) >= 1 and ranges_ok(r, len(s)) and "
        "forall(lambda a: implies(0 <= a and a < len(s), (is_none(s[a]) or val(s[a])) and (is_none(e[a]) or val(e[a])))) and "
        "forall(lambda a: implies(0 <= a and a < len(s) and on(s, a), exists(lambda k: 0 <= k and k < len(r) and r[k][0] == a))) and "
        "forall(lambda a: implies(0 <= a and a < len(s) and on(e, a), exists(lambda k: 0 <= k and k < len(r) and r[k][1] == a))) and "
        "forall(lambda k: implies(0 <= k and k < len(r), on(s, r[k][0]) and on(e, r[k][1])))")
contract("CachingLogicalLineFinder.logical_line_in", source=M + "CachingLogicalLineFinder.logical_line_in", params={"self": "CachingLogicalLineFinder", "line_number": "Int"},
         returns="Tuple[Int,Int]", requires=["marks_ok(st_of(self), en_of(self), ranges_of(self))", "0 <= line_number and line_number < len(st_of(self))"],
         modifies=[], raises={},
         ensures=[
             # a line inside a logical line: exactly that logical line
             "forall(lambda k: implies(0 <= k and k < len(ranges_of(self)) and ranges_of(self)[k][0] <= line_number and line_number <= ranges_of(self)[k][1], "
             "       result[0] == ranges_of(self)[k][0] and result[1] == ranges_of(self)[k][1]))",
             # no logical line at all (an empty or all-blank text): the line itself
             "implies(len(ranges_of(self)) == 0, result[0] == line_number and result[1] == line_number)"],
         loops={1: {"inv": ["0 <= start and start <= line_number",
                            "forall(lambda a: implies(start < a and a <= line_number, not on(st_of(self), a)))"],
                    "decreases": "start"}},
         note="walk back to the nearest start mark, then forward to the first end mark: with marks that come from a partition this is the containing range")


# ---- generate_starts: the first lines of the logical lines inside a line interval, in order, none missing ------------------------------------------------
record("Lines", fields={})
REG.records["CachingLogicalLineFinder"].fields.update({"lines": "Lines"})
specfun("n_lines", ["Lines"], "Int", note="lines.length()")
contract("Lines.length", abstract=True, pure=True, heap_independent=True, params={"self": "Lines"}, returns="Int", ensures=["result == n_lines(self)"])
specdef("upper", {"f": "CachingLogicalLineFinder", "e": "Opt[Int]"}, "Int", "ite(is_none(e), n_lines(f.lines), val(e))")
contract("CachingLogicalLineFinder.generate_starts", source=M + "CachingLogicalLineFinder.generate_starts",
         params={"self": "CachingLogicalLineFinder", "start_line": "Int", "end_line": "Opt[Int]"}, defaults={"start_line": "1", "end_line": "None"}, returns="Seq[Int]",
         requires=["len(st_of(self)) == n_lines(self.lines) + 1", "0 <= start_line", "implies(not is_none(end_line), val(end_line) <= len(st_of(self)))",
                   "forall(lambda a: implies(0 <= a and a < len(st_of(self)), is_none(st_of(self)[a]) or val(st_of(self)[a])))"],
         modifies=[], raises={},
         ensures=["forall(lambda a, b: implies(0 <= a and a < b and b < len(result), result[a] < result[b]))",
                  "forall(lambda k: implies(0 <= k and k < len(result), start_line <= result[k] and result[k] < upper(self, end_line) and on(st_of(self), result[k])))",
                  "forall(lambda a: implies(start_line <= a and a < upper(self, end_line) and on(st_of(self), a), a in result))"],
         loops={1: {"index": "i", "inv": [
             "forall(lambda a, b: implies(0 <= a and a < b and b < len(_yielded), _yielded[a] < _yielded[b]))",
             "forall(lambda k: implies(0 <= k and k < len(_yielded), start_line <= _yielded[k] and _yielded[k] < start_line + i and on(st_of(self), _yielded[k])))",
             "forall(lambda a: implies(start_line <= a and a < start_line + i and on(st_of(self), a), a in _yielded))"]}},
         note="generator: yields exactly the marked lines of [start_line, end_line) (end_line None = the last line, exclusive, as the code has it), increasing")


# ---- CPython cross-check on real CachingLogicalLineFinder objects: the precondition (what _init_logicals leaves) and the lookup ------------------------
def _xc_cl_domain(tier, seed):
    import itertools
    pieces = ["x = 1", "", "f(", ")", "'''", "s = 'a'", "# c", "a = \\", "[1,", "2]", "if x:", "    pass"]
    n = 4 if tier == "thorough" else 3
    for L in range(0, n + 1):
        for tup in itertools.product(pieces, repeat=L):
            text = "\n".join(tup)
            for line_number in range(0, text.count("\n") + 2):
                yield (text, line_number)


def _xc_cl_build(case):
    from rope.base import codeanalyze
    text, line_number = case
    lines = codeanalyze.SourceLinesAdapter(text)
    return {"self": codeanalyze.CachingLogicalLineFinder(lines), "line_number": line_number, "__dom__": range(-1, lines.length() + 3)}


def _xc_marks_established(case):
    """the precondition of the lookup is what the real _init_logicals leaves: marks exactly at the starts / ends of the generator's ranges"""
    from rope.base import codeanalyze
    text, _ = case
    lines = codeanalyze.SourceLinesAdapter(text)
    f = codeanalyze.CachingLogicalLineFinder(lines)
    ranges = list(codeanalyze.custom_generator(lines))
    s, e = f.starts, f.ends
    ok = (len(s) == len(e) == lines.length() + 1 and all(x in (None, True) for x in s + e)
          and {a for a, x in enumerate(s) if x} == {r[0] for r in ranges} and {a for a, x in enumerate(e) if x} == {r[1] for r in ranges}
          and all(1 <= a <= b < len(s) for a, b in ranges) and all(ranges[j][1] < ranges[j + 1][0] for j in range(len(ranges) - 1)))
    if not ok:
        return {"status": "fail", "clause": "marks_ok(starts, ends, ranges) after _init_logicals", "why": "text %r: starts %r ends %r ranges %r" % (text, s, e, ranges)}
    return {"status": "ok", "nontrivial": bool(ranges)}


_XC_CL_ENV = {"st_of": lambda f: f.starts, "en_of": lambda f: f.ends,
              "ranges_of": lambda f: list(__import__("rope.base.codeanalyze", fromlist=["x"]).custom_generator(f.lines))}
bounded_check(name="c14-logical-line-in-native", props=["C14"], contract="CachingLogicalLineFinder.logical_line_in", build=_xc_cl_build, domain=_xc_cl_domain, exhaustive=True,
              env=_XC_CL_ENV, label="CPython cross-check: the lookup contract on real finders: every text of <= 3 lines from 12 line shapes x every line number")
bounded_check(name="c14-marks-established-native", props=["C14"], fn=_xc_marks_established, domain=lambda t, s: [c for c in _xc_cl_domain(t, s) if c[1] == 0], exhaustive=True,
              label="native only (_init_logicals is not under contract: list repetition and item assignment): on the same texts the cached marks are exactly the "
                    "starts / ends of the generator's ranges, i.e. the precondition `marks_ok` of the lookup holds on real objects")


def _xc_gs_domain(tier, seed):
    seen = set()
    for text, _ in _xc_cl_domain(tier, seed):
        if text in seen:
            continue
        seen.add(text)
        n = text.count("\n") + 1
        for start_line in range(0, n + 1):
            for end_line in [None] + list(range(start_line, n + 2)):
                yield (text, start_line, end_line)


def _xc_gs_build(case):
    from rope.base import codeanalyze
    text, start_line, end_line = case
    lines = codeanalyze.SourceLinesAdapter(text)
    return {"self": codeanalyze.CachingLogicalLineFinder(lines), "start_line": start_line, "end_line": end_line, "__dom__": range(-1, lines.length() + 3)}


bounded_check(name="c14-generate-starts-native", props=["C14"], contract="CachingLogicalLineFinder.generate_starts", build=_xc_gs_build, domain=_xc_gs_domain, exhaustive=True,
              env=dict(_XC_CL_ENV, n_lines=lambda l: l.length()),
              label="CPython cross-check: generate_starts' contract on real finders: the same texts x every (start_line, end_line) pair including end_line=None")

# C14 — rope.base.codeanalyze._CustomGenerator.__call__: the logical lines rope works with PARTITION the non-blank lines of the text.
# Whatever _analyze_line decides about strings, brackets and continuations (regex work, abstract here), the list of (start, end) line ranges it
# returns is increasing and disjoint, lies inside the text, every range starts on a non-blank line, and every non-blank line lies in some range.
M = "rope.base.codeanalyze:"
record("Lines", fields={})
record("_CustomGenerator", fields={"lines": "Lines", "in_string": "Str", "open_count": "Int", "continuation": "Bool"})
specfun("n_lines", ["Lines"], "Int", note="lines.length()")
specfun("line_at", ["Lines", "Int"], "Str", note="lines.get_line(i), 1-based")
specfun("strip_of", ["Str"], "Str", note="str.strip()")
axiom("n_lines_nonneg", {"l": "Lines"}, "n_lines(l) >= 0", patterns=["n_lines(l)"])
contract("Lines.length", abstract=True, pure=True, heap_independent=True, params={"self": "Lines"}, returns="Int", ensures=["result == n_lines(self)"])
contract("Lines.get_line", abstract=True, pure=True, heap_independent=True, params={"self": "Lines", "number": "Int"}, returns="Str",
         requires=["1 <= number and number <= n_lines(self)"], ensures=["result == line_at(self, number)"],
         note="the precondition makes every call site prove that the line number is inside the text")
contract("Str.strip", external=True, pure=True, params={"self": "Str"}, returns="Str", ensures=["result == strip_of(self)"])
contract("_CustomGenerator._analyze_line", abstract=True, params={"self": "_CustomGenerator", "line": "Str"},
         modifies=["self.in_string", "self.open_count", "self.continuation"], ensures=[],
         note="regex scan of one line: updates the string / bracket / continuation state, nothing else (its effect on WHICH lines are joined is decided by c14-tokens)")
specdef("blank", {"l": "Lines", "n": "Int"}, "Bool", "len(strip_of(line_at(l, n))) == 0")
R = "Seq[Tuple[Int,Int]]"
specdef("ranges_ok", {"r": R, "l": "Lines", "upto": "Int"}, "Bool",
        "forall(lambda k: implies(0 <= k and k < len(r), 1 <= r[k][0] and r[k][0] <= r[k][1] and r[k][1] < upto and not blank(l, r[k][0]) and "
        "       implies(k > 0, r[k - 1][1] < r[k][0])))")
specdef("sorted_ranges", {"r": R}, "Bool", "forall(lambda j, k: implies(0 <= j and j < k and k < len(r), r[j][1] < r[k][0]))")
# coverage stated by gaps (no existential): every line before the first range, between two consecutive ranges, or after the last one (below `upto`) is blank
specdef("covers_upto", {"r": R, "l": "Lines", "upto": "Int"}, "Bool",
        "forall(lambda n: implies(1 <= n and n < upto and len(r) > 0 and n < r[0][0], blank(l, n))) and "
        "forall(lambda k, n: implies(0 <= k and k < len(r) - 1 and r[k][1] < n and n < r[k + 1][0], blank(l, n))) and "
        "forall(lambda n: implies(1 <= n and n < upto and (len(r) == 0 or r[len(r) - 1][1] < n), blank(l, n)))")
contract("_CustomGenerator.__call__", source=M + "_CustomGenerator.__call__", params={"self": "_CustomGenerator"}, returns=R,
         modifies=["self.in_string", "self.open_count", "self.continuation"], raises={}, locals={"result": R},
         ensures=["ranges_ok(result, self.lines, n_lines(self.lines) + 1)", "sorted_ranges(result)", "covers_upto(result, self.lines, n_lines(self.lines) + 1)"],
         loops={1: {"inv": ["size == n_lines(self.lines)", "1 <= i and i <= size + 1", "ranges_ok(result, self.lines, i)", "sorted_ranges(result)", "covers_upto(result, self.lines, i)"],
                    "decreases": "size + 1 - i"},
                2: {"inv": ["size == n_lines(self.lines)", "1 <= i and i <= size + 1", "ranges_ok(result, self.lines, i)", "sorted_ranges(result)", "covers_upto(result, self.lines, i)"],
                    "decreases": "size + 1 - i"},
                3: {"inv": ["size == n_lines(self.lines)", "1 <= start and start <= i and i <= size", "not blank(self.lines, start)",
                            "ranges_ok(result, self.lines, start)", "sorted_ranges(result)", "covers_upto(result, self.lines, start)"],
                    "decreases": "size - i"}},
         note="increasing, disjoint ranges inside the text, each starting on a non-blank line, together covering every non-blank line; terminates")


# ---- CPython cross-check on the real generator over real SourceLinesAdapter objects ------------------------------------------------------------------
def _xc_ll_domain(tier, seed):
    import itertools
    pieces = ["x = 1", "", "   ", "f(", ")", "'''", "s = 'a'", "# c", "a = \\", "[1,", "2]", "\t", '"""doc', 'end"""', "y = (", "if x:", "    pass"]
    n = 4 if tier == "thorough" else 3
    for L in range(0, n + 1):
        for tup in itertools.product(pieces, repeat=L):
            yield "\n".join(tup)
            if L and L <= 2:
                yield "\n".join(tup) + "\n"


def _xc_ll_build(text):
    from rope.base import codeanalyze
    lines = codeanalyze.SourceLinesAdapter(text)
    return {"self": codeanalyze._CustomGenerator(lines), "__dom__": range(-1, lines.length() + 3)}


bounded_check(name="c14-logical-lines-partition-native", props=["C14"], contract="_CustomGenerator.__call__", build=_xc_ll_build, domain=_xc_ll_domain, exhaustive=True,
              env={"n_lines": lambda l: l.length(), "line_at": lambda l, n: l.get_line(n), "strip_of": lambda s: s.strip()},
              label="CPython cross-check: the partition contract of _CustomGenerator.__call__ on the real generator: every text of <= 3 lines drawn from 17 line "
                    "shapes (blank, open/close brackets, triple quotes, backslash continuation, comments, tabs)")

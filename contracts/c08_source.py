# C08 — token consumption of the source-annotating walker: rope.refactor.patchedast._Source
M = "rope.refactor.patchedast:"
exception("MismatchedTokenError", "RopeError")
record("_Source", fields={"source": "Str", "offset": "Int"})
specdef("in_comment", {"src": "Str", "start": "Int", "off": "Int"}, "Bool",
        "exists(lambda c: start <= c and c < off and src[c] == '#' and forall(lambda n: implies(c < n and n < off, src[n] != '\\n')))")

contract("_Source._good_token", source=M + "_Source._good_token", strmode="intseq",
         params={"self": "_Source", "token": "Str", "offset": "Int", "start": "Opt[Int]"}, defaults={"start": "None"}, returns="Bool",
         requires=["0 <= self.offset and self.offset <= len(self.source)", "0 <= offset and offset <= len(self.source)",
                   "implies(not is_none(start), 0 <= val(start) and val(start) <= len(self.source))"],
         modifies=[], raises={},
         ensures=["implies(is_none(start), result == (not in_comment(self.source, self.offset, offset)))",
                  "implies(not is_none(start), result == (not in_comment(self.source, val(start), offset)))"],
         note="a token position is good iff no '#' after the last newline of the skipped text precedes it (i.e. it is not inside a comment)")
contract("_Source._skip_comment", source=M + "_Source._skip_comment", strmode="intseq", params={"self": "_Source"},
         requires=["0 <= self.offset and self.offset <= len(self.source)"], modifies=["self.offset"],
         ensures=["old(self.offset) < self.offset and self.offset < len(self.source)", "self.source[self.offset] == '\\n'",
                  "forall(lambda q: implies(old(self.offset) < q and q < self.offset, self.source[q] != '\\n'))"],
         raises={"ValueError": {"ensures": ["self.offset == old(self.offset)"]}},
         note="advances to the FIRST newline strictly after the cursor")
contract("_Source._get_location", abstract=True, pure=True, params={"self": "_Source"}, returns="Tuple[Int,Int]")
contract("_Source.consume", source=M + "_Source.consume", strmode="intseq", params={"self": "_Source", "token": "Str", "skip_comment": "Bool"},
         defaults={"skip_comment": "True"}, returns="Tuple[Int,Int]",
         requires=["0 <= self.offset and self.offset <= len(self.source)", "len(token) >= 1"], modifies=["self.offset"],
         ensures=["old(self.offset) <= result[0]", "result[1] == result[0] + len(token)", "result[1] == self.offset", "result[1] <= len(self.source)",
                  "self.source[result[0]:result[1]] == token",
                  # with skip_comment the match is not inside a comment: seen from the old cursor, or from a newline between it and the match
                  "implies(skip_comment, exists(lambda c: old(self.offset) <= c and c <= result[0] and (c == old(self.offset) or self.source[c] == '\\n') and "
                  "        not in_comment(self.source, c, result[0])))",
                  # without it, the match is simply the first occurrence at or after the cursor
                  "implies(not skip_comment, forall(lambda q: implies(old(self.offset) <= q and q < result[0], self.source[q:q + len(token)] != token)))"],
         raises={"MismatchedTokenError": {"ensures": []}},
         loops={1: {"decreases": "len(self.source) - self.offset",
                    "inv": ["old(self.offset) <= self.offset and self.offset <= len(self.source)",
                            "self.offset == old(self.offset) or (self.offset < len(self.source) and self.source[self.offset] == '\\n')",
                            "implies(not skip_comment, self.offset == old(self.offset))"]}},
         locals={"new_offset": "Int"},
         note="the returned range lies at or after the cursor, has the token's length, holds exactly the token text, and the cursor ends right after it")
contract("_Source.consume_joined_string", source=M + "_Source.consume_joined_string", strmode="intseq", params={"self": "_Source", "token": "Str"},
         returns="Tuple[Int,Int]", requires=["0 <= self.offset and self.offset <= len(self.source)", "len(token) >= 1"], modifies=["self.offset"],
         ensures=["old(self.offset) <= result[0]", "result[1] == result[0] + len(token)", "result[1] == self.offset", "self.source[result[0]:result[1]] == token"],
         raises={"ValueError": {"ensures": ["self.offset == old(self.offset)"]}})

from bounded import c08_corpus as _b8
bounded_check(name="c08-corpus", props=["C08"], fn=_b8.run_case, domain=_b8.domain, exhaustive=True,
              label="B3: fixed corpus = every module of rope (working tree) and ropetest, 40 (thorough 120) stdlib modules, 46 one-construct snippets: annotation succeeds, "
                    "write_ast == source, regions nested, region text == written node, expression regions cover the interpreter's span and re-parse to the same node")

# ---- CPython cross-check of the contract text above: the proved clauses evaluated natively on the real _Source (guards the encoding) ----
def _xc_texts():
    import itertools
    out = []
    for n in range(0, 6):
        for t in itertools.product("a#\n ", repeat=n):
            out.append("".join(t))
    return out


def _xc_domain(tier, seed):
    texts = _xc_texts()
    if tier != "thorough":
        texts = [t for i, t in enumerate(texts) if len(t) <= 4 or i % 5 == 0]
    for src in texts:
        for off in range(0, len(src) + 1):
            for token in ("a", "aa", "#", "a ", "\n"):
                for skip in (True, False):
                    yield (src, off, token, skip)


def _xc_build_consume(case):
    from rope.refactor import patchedast
    src, off, token, skip = case
    o = patchedast._Source(src)
    o.offset = off
    return {"self": o, "token": token, "skip_comment": skip}


def _xc_build_good(case):
    from rope.refactor import patchedast
    src, off, token, skip = case
    o = patchedast._Source(src)
    o.offset = min(off, len(src))
    # (token position `offset`: every position at or after the cursor; start: None or a position before it)
    return {"self": o, "token": token, "offset": len(src) if skip else off, "start": None}


bounded_check(name="c08-consume-native", props=["C08"], contract="_Source.consume", build=_xc_build_consume, domain=_xc_domain, exhaustive=True,
              label="CPython cross-check: _Source.consume's contract evaluated on the real object for every text of <= 4 (thorough 5) characters over {a,#,newline,space} "
                    "(and every 5th of length 5) x cursor x 5 tokens x skip_comment")
bounded_check(name="c08-good-token-native", props=["C08"], contract="_Source._good_token", build=_xc_build_good, domain=_xc_domain, exhaustive=True,
              label="CPython cross-check: _good_token's two-sided comment specification on the same domain")

# C17 — read/write classification of an attribute occurrence (what encapsulate-field turns into getter / setter calls): worder._RealFinder.get_assignment_type
M = "rope.base.worder:"
record("_RealFinder", fields={"code": "Str", "raw": "Str"})
specfun("wend", ["_RealFinder", "Int"], "Int", note="_find_word_end(offset): last character of the word (c14_worder.py)")
specfun("fnsc", ["_RealFinder", "Int"], "Int", note="_find_first_non_space_char(offset)")
contract("_RealFinder._find_word_end", abstract=True, pure=True, heap_independent=True, params={"self": "_RealFinder", "offset": "Int"}, returns="Int",
         ensures=["result >= offset", "result == wend(self, offset)"], note="verified in c14_worder.py")
contract("_RealFinder._find_first_non_space_char", abstract=True, pure=True, heap_independent=True, params={"self": "_RealFinder", "offset": "Int"}, returns="Int",
         ensures=["result >= 0", "result == fnsc(self, offset)"], note="first non-blank position at or after offset (or len(code))")
# the k characters that follow the word and the blanks after it
specdef("after", {"f": "_RealFinder", "offset": "Int", "k": "Int"}, "Str", "f.code[fnsc(f, wend(f, offset) + 1):fnsc(f, wend(f, offset) + 1) + k]")
specdef("is_cmp", {"d": "Str"}, "Bool", "d == '==' or d == '<=' or d == '>=' or d == '!='")
contract("_RealFinder.get_assignment_type", source=M + "_RealFinder.get_assignment_type", params={"self": "_RealFinder", "offset": "Int"}, returns="Opt[Str]",
         requires=["0 <= offset"], modifies=[], raises={}, loops={1: {"unroll": 3}},
         ensures=[
             # a reported operator ends with '=' and is never the first two characters of a comparison
             "implies(not is_none(result), val(result).endswith('=') and 1 <= len(val(result)) and len(val(result)) <= 3)",
             "implies(not is_none(result), val(result) != '==' and val(result) != '<=' and val(result) != '>=' and val(result) != '!=')",
             # exactly: nothing when a comparison follows; otherwise the shortest of the next 1, 2, 3 characters that ends in '='
             "implies(is_cmp(after(self, offset, 2)), is_none(result))",
             "implies(not is_none(result), val(result) == after(self, offset, 1) or "
             "        (val(result) == after(self, offset, 2) and not after(self, offset, 1).endswith('=')) or "
             "        (val(result) == after(self, offset, 3) and not after(self, offset, 1).endswith('=') and not after(self, offset, 2).endswith('=')))",
             "implies(is_none(result) and not is_cmp(after(self, offset, 2)), "
             "        not after(self, offset, 1).endswith('=') and not after(self, offset, 2).endswith('=') and not after(self, offset, 3).endswith('='))"],
         note="the text after the word is classified as an assignment operator (=, or an augmented one of 2-3 characters) and never as a comparison")

from bounded import c17_class_refactorings as _b17
bounded_check(name="c17-class-refactorings", fn=_b17.run_case, domain=_b17.domain, exhaustive=True,
              label="B3: encapsulate field on 19 usage shapes, introduce factory (3 client import styles x static/global, a string containing the factory name), method object, "
                    "local to field, use function (slices with omitted bounds, expressions): projects executed before and after")

# ---- CPython cross-check: the exact specification evaluated on the real _RealFinder (wend / fnsc are the real scanners here) --------------
def _xc_at_domain(tier, seed):
    import itertools
    alphabet = "x=+< " if tier != "thorough" else "x=+<! "
    n = 5 if tier != "thorough" else 5
    for k in range(1, n + 1):
        for t in itertools.product(alphabet, repeat=k):
            s = "x" + "".join(t)
            yield s


def _xc_at_build(s):
    from rope.base import worder
    f = worder._RealFinder(s, s)
    return {"self": f, "offset": 0}


bounded_check(name="c17-assignment-type-native", props=["C17"], contract="_RealFinder.get_assignment_type", build=_xc_at_build, domain=_xc_at_domain, exhaustive=True,
              env={"wend": lambda f, o: f._find_word_end(o), "fnsc": lambda f, o: f._find_first_non_space_char(o)},
              label="CPython cross-check: get_assignment_type's exact specification on every text `x` + <= 5 characters over {x,=,+,<,space} (thorough: also !)")

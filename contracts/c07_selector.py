# C07 — which import statements survive "remove unused": rope.refactor.importutils.module_imports._OneTimeSelector
M = "rope.refactor.importutils.module_imports:"
record("_OneTimeSelector", fields={"names": "Set[Str]", "selected_names": "Set[Str]"})
specfun("prefixes", ["Str"], "Seq[Str]", note="the dotted prefixes of a.b.c: [a, a.b, a.b.c] (_get_dotted_tokens; split/join not modelled)")
contract("_OneTimeSelector._get_dotted_tokens", abstract=True, pure=True, heap_independent=True, params={"self": "_OneTimeSelector", "imported_primary": "Str"},
         returns="Seq[Str]", ensures=["result == prefixes(imported_primary)"], note="bounded stand-in checks it against str.split")
specdef("wanted_unselected", {"s": "_OneTimeSelector", "n": "Str"}, "Bool", "select(s.names, n) and not select(s.selected_names, n)")
contract("_OneTimeSelector._can_name_be_added", source=M + "_OneTimeSelector._can_name_be_added",
         params={"self": "_OneTimeSelector", "imported_primary": "Str"}, returns="Bool", modifies=[], raises={},
         ensures=["implies(result, exists(lambda k: 0 <= k and k < len(prefixes(imported_primary)) and wanted_unselected(self, prefixes(imported_primary)[k])))",
                  "implies(not result, forall(lambda k: implies(0 <= k and k < len(prefixes(imported_primary)), not wanted_unselected(self, prefixes(imported_primary)[k]))))"],
         loops={1: {"index": "i", "inv": ["forall(lambda k: implies(0 <= k and k < i, not wanted_unselected(self, prefixes(imported_primary)[k])))"]}},
         note="an import is kept iff SOME dotted prefix of what it binds is used and not yet provided by an earlier statement")
contract("_OneTimeSelector.__call__", source=M + "_OneTimeSelector.__call__", params={"self": "_OneTimeSelector", "imported_primary": "Str"}, returns="Bool",
         modifies=["self.selected_names"], raises={},
         ensures=["implies(result, forall(lambda k: implies(0 <= k and k < len(prefixes(imported_primary)), select(self.selected_names, prefixes(imported_primary)[k]))))",
                  "forall(lambda n: implies(select(old(self.selected_names), n), select(self.selected_names, n)), 'Str')",
                  "implies(not result, self.selected_names == old(self.selected_names))",
                  # kept exactly when some dotted prefix was wanted and not yet provided before this call
                  "implies(result, old(exists(lambda k: 0 <= k and k < len(prefixes(imported_primary)) and wanted_unselected(self, prefixes(imported_primary)[k]))))",
                  "implies(not result, old(forall(lambda k: implies(0 <= k and k < len(prefixes(imported_primary)), not wanted_unselected(self, prefixes(imported_primary)[k])))))",
                  # and only the prefixes of this import become provided
                  "forall(lambda n: implies(select(self.selected_names, n) and not select(old(self.selected_names), n), "
                  "       exists(lambda k: 0 <= k and k < len(prefixes(imported_primary)) and prefixes(imported_primary)[k] == n)), 'Str')"],
         loops={1: {"index": "i", "inv": ["forall(lambda k: implies(0 <= k and k < i, select(self.selected_names, prefixes(imported_primary)[k])))",
                                          "forall(lambda n: implies(select(old(self.selected_names), n), select(self.selected_names, n)), 'Str')",
                                          "forall(lambda n: implies(select(self.selected_names, n) and not select(old(self.selected_names), n), "
                                          "       exists(lambda k: 0 <= k and k < i and prefixes(imported_primary)[k] == n)), 'Str')"]}},
         note="when an import is kept every prefix it provides becomes 'selected', and nothing is ever unselected")

from bounded import c07_imports as _b7
bounded_check(name="c07-imports", props=["C07"], fn=_b7.run_case, domain=_b7.domain, exhaustive=True, max_failures=100000, max_failures_per_chunk=100000,
              label="B3: import blocks of <= 2 statements out of 14 forms x 2 usages out of 16 x 5 actions inside a real package layout (quick: a 11-form/14-usage "
                    "sub-grid for pairs), 6 prefix-sharing scenarios and an offset-restricted organize: compiles, same printed values, __all__ exports kept, idempotent")

# ---- CPython cross-check of _OneTimeSelector.__call__ (prefixes = the real dotted prefixes) ----------------------------------------------
def _xc_sel_domain(tier, seed):
    import itertools
    names = ["a", "a.b", "a.b.c", "b", "ab"]
    for r in range(0, 3):
        for wanted in itertools.combinations(names, r):
            for r2 in range(0, 3):
                for selected in itertools.combinations(names, r2):
                    for prim in names:
                        yield (wanted, selected, prim)


def _xc_sel_build(case):
    from rope.refactor.importutils import module_imports
    wanted, selected, prim = case
    s = module_imports._OneTimeSelector(set(wanted))
    s.selected_names = set(selected)
    return {"self": s, "imported_primary": prim, "__dom_Str__": ["a", "a.b", "a.b.c", "b", "ab", "c"]}


def _prefixes(p):
    t = p.split(".")
    return [".".join(t[:i + 1]) for i in range(len(t))]


bounded_check(name="c07-selector-native", props=["C07"], contract="_OneTimeSelector.__call__", build=_xc_sel_build, domain=_xc_sel_domain, exhaustive=True,
              env={"prefixes": _prefixes},
              label="CPython cross-check: the selector's contract on the real class, every <= 2 wanted x <= 2 already provided names out of 5 x 5 imports")

# C09/C13 — every file-system mutation rope performs goes through _ResourceOperations and is announced to the project's observers
C = "rope.base.change:"
exception("ResourceNotFoundError", "RopeError")
ghost("fsops", "Seq[Tuple[Str,Str,Str]]")      # the mutating file-system calls issued: (operation, path, second path or '')
ghost("via_direct", "Seq[Bool]")               # for each of them: was it issued through the direct (non-VCS) commands?
ghost("told", "Seq[Tuple[Str,Resource]]")      # what the project's observers were told: (kind, resource), one entry per observer call
record("Resource", fields={"real_path": "Str", "_path": "Str"})
record("FSCommands", fields={})
record("Observer", fields={})
record("Project", fields={"observers": "Seq[Observer]"})
record("_ResourceOperations", fields={"project": "Project", "fscommands": "FSCommands", "direct_commands": "FSCommands"})
specfun("ignored", ["Project", "Resource"], "Bool", note="project.is_ignored(resource)")
specfun("is_folder_p", ["Resource"], "Bool")
specfun("parent_exists", ["Resource"], "Bool")
specfun("abs_path", ["Project", "Str"], "Str", note="project._get_resource_path(name)")
specfun("path_exists", ["Str"], "Bool", note="os.path.exists at the time of the call")
specfun("file_at", ["Project", "Str"], "Resource", note="project.get_file(name)")
contract("Project.is_ignored", abstract=True, pure=True, heap_independent=True, params={"self": "Project", "resource": "Resource"}, returns="Bool", ensures=["result == ignored(self, resource)"])
contract("Project._get_resource_path", abstract=True, pure=True, heap_independent=True, params={"self": "Project", "name": "Str"}, returns="Str", ensures=["result == abs_path(self, name)"])
contract("Project.get_file", abstract=True, pure=True, heap_independent=True, params={"self": "Project", "path": "Str"}, returns="Resource", ensures=["result == file_at(self, path)"])
contract("os.path.exists", external=True, pure=True, params={"path": "Str"}, returns="Bool", ensures=["result == path_exists(path)"])
contract("Resource.is_folder", abstract=True, pure=True, heap_independent=True, params={"self": "Resource"}, returns="Bool", ensures=["result == is_folder_p(self)"])
contract("Resource.path", source="rope.base.resources:Resource.path", is_property=True, inline=True, params={"self": "Resource"}, returns="Str")
record("ParentProxy", fields={})
specfun("parent_of", ["Resource"], "Resource")
contract("Resource.parent", abstract=True, is_property=True, pure=True, heap_independent=True, params={"self": "Resource"}, returns="Resource", ensures=["result == parent_of(self)"])
contract("Resource.exists", abstract=True, pure=True, heap_independent=True, params={"self": "Resource"}, returns="Bool", ensures=["result == parent_exists(self)"],
         note="(only asked of the parent folder here: parent_exists(parent_of(r)))")
specfun("is_direct", ["FSCommands"], "Bool", note="the plain file-system commands (not a version-control wrapper)")
WF = ["is_direct(self.direct_commands)", "not is_direct(self.fscommands)"]
OPMOD = ["fsops", "via_direct"]
def _op(name, params, entry):
    contract("FSCommands." + name, abstract=True, params=dict({"self": "FSCommands"}, **params), modifies=OPMOD,
             ensures=["fsops == old(fsops) + [%s]" % entry, "via_direct == old(via_direct) + [is_direct(self)]"],
             raises={"OSError": {"ensures": ["fsops == old(fsops)", "via_direct == old(via_direct)"]}},
             note="one file-system call: happens completely or raises OSError and nothing happened")
_op("move", {"path": "Str", "new_location": "Str"}, "('move', path, new_location)")
_op("remove", {"path": "Str"}, "('remove', path, '')")
_op("create_file", {"path": "Str"}, "('create_file', path, '')")
_op("create_folder", {"path": "Str"}, "('create_folder', path, '')")
for _k in ("moved", "removed", "created"):
    contract("Observer.resource_" + _k, abstract=True, params=dict({"self": "Observer", "resource": "Resource"}, **({"new_resource": "Resource"} if _k == "moved" else {})),
             modifies=["told"], ensures=["told == old(told) + [('%s', resource)]" % _k], note="observers are assumed not to raise")
contract("_ResourceOperations._get_fscommands", source=C + "_ResourceOperations._get_fscommands", params={"self": "_ResourceOperations", "resource": "Resource"},
         returns="FSCommands", modifies=[], raises={},
         ensures=["result == ite(ignored(self.project, resource), self.direct_commands, self.fscommands)"],
         note="ignored resources are never handed to the version-control commands")
TOLD = lambda kind: ["len(told) == len(old(told)) + len(self.project.observers)",
                     "forall(lambda k: implies(0 <= k and k < len(self.project.observers), told[len(old(told)) + k] == ('%s', resource)))" % kind,
                     "forall(lambda k: implies(0 <= k and k < len(old(told)), told[k] == old(told)[k]))"]
TOLD_INV = lambda kind: ["len(told) == len(old(told)) + i", "forall(lambda k: implies(0 <= k and k < i, told[len(old(told)) + k] == ('%s', resource)))" % kind,
                         "forall(lambda k: implies(0 <= k and k < len(old(told)), told[k] == old(told)[k]))"]
QUIET = {"ensures": ["fsops == old(fsops)", "told == old(told)"]}
contract("_ResourceOperations.move", source=C + "_ResourceOperations.move", params={"self": "_ResourceOperations", "resource": "Resource", "new_resource": "Resource"},
         requires=WF, modifies=OPMOD + ["told"], raises={"OSError": QUIET},
         ensures=["fsops == old(fsops) + [('move', resource.real_path, new_resource.real_path)]",
                  "via_direct == old(via_direct) + [ignored(self.project, resource)]"] + TOLD("moved"),
         loops={1: {"index": "i", "inv": ["fsops == old(fsops) + [('move', resource.real_path, new_resource.real_path)]",
                                          "via_direct == old(via_direct) + [ignored(self.project, resource)]"] + TOLD_INV("moved")}},
         note="exactly one move, then every observer is told once; a failed move tells nobody")
contract("_ResourceOperations.remove", source=C + "_ResourceOperations.remove", params={"self": "_ResourceOperations", "resource": "Resource"},
         requires=WF, modifies=OPMOD + ["told"], raises={"OSError": QUIET},
         ensures=["fsops == old(fsops) + [('remove', resource.real_path, '')]", "via_direct == old(via_direct) + [ignored(self.project, resource)]"] + TOLD("removed"),
         loops={1: {"index": "i", "inv": ["fsops == old(fsops) + [('remove', resource.real_path, '')]",
                                          "via_direct == old(via_direct) + [ignored(self.project, resource)]"] + TOLD_INV("removed")}},
         note="an ignored resource is removed through the plain commands, never through version control")
contract("_ResourceOperations._create_resource", source=C + "_ResourceOperations._create_resource",
         params={"self": "_ResourceOperations", "file_name": "Str", "kind": "Str"}, defaults={"kind": "'file'"}, modifies=OPMOD,
         ensures=["not path_exists(abs_path(self.project, file_name))", "parent_exists(parent_of(file_at(self.project, file_name)))",
                  "fsops == old(fsops) + [(ite(kind == 'file', 'create_file', 'create_folder'), abs_path(self.project, file_name), '')]"],
         raises={"ResourceNotFoundError": {"ensures": ["fsops == old(fsops)", "not parent_exists(parent_of(file_at(self.project, file_name)))"]},
                 "RopeError": {"ensures": ["fsops == old(fsops)"]}},
         note="creates exactly one file or folder, refuses an existing path and a missing parent folder, and turns an OS failure into a RopeError")
contract("_ResourceOperations.create", source=C + "_ResourceOperations.create", params={"self": "_ResourceOperations", "resource": "Resource"},
         modifies=OPMOD + ["told"], raises={"RopeError": QUIET},
         ensures=["fsops == old(fsops) + [(ite(is_folder_p(resource), 'create_folder', 'create_file'), abs_path(self.project, resource._path), '')]"] + TOLD("created"),
         loops={1: {"index": "i", "inv": ["fsops == old(fsops) + [(ite(is_folder_p(resource), 'create_folder', 'create_file'), abs_path(self.project, resource._path), '')]"]
                                          + TOLD_INV("created")}})

# ---- CPython cross-check of move / remove on a real _ResourceOperations with recording commands and observers ---------------------------------
class _XcCmds:
    def __init__(self, log, direct, is_direct, fail):
        self._log, self._direct, self._is_direct, self._fail = log, direct, is_direct, fail

    def _op(self, *entry):
        if self._fail:
            raise OSError("injected")
        self._log.append(tuple(entry))
        self._direct.append(self._is_direct)

    def move(self, path, new_location):
        self._op("move", path, new_location)

    def remove(self, path):
        self._op("remove", path, "")


class _XcObserver:
    def __init__(self, told):
        self._told = told

    def resource_moved(self, resource, new_resource):
        self._told.append(("moved", resource))

    def resource_removed(self, resource):
        self._told.append(("removed", resource))


class _XcRes:
    def __init__(self, path, ignored):
        self.real_path, self._path, self.path, self.ignored = "/root/" + path, path, path, ignored


class _XcProj:
    def __init__(self, observers):
        self.observers = observers

    def is_ignored(self, resource):
        return resource.ignored


def _xc_ops_domain(tier, seed):
    for op in ("move", "remove"):
        for n_obs in (0, 1, 3):
            for ignored in (False, True):
                for fail in (False, True):
                    yield (op, n_obs, ignored, fail)


def _xc_ops_build(case):
    from rope.base import change
    op, n_obs, ignored, fail = case
    fsops, via_direct, told = [("create_file", "/old", "")], [False], [("created", None)]
    ops = object.__new__(change._ResourceOperations)
    ops.project = _XcProj([_XcObserver(told) for _ in range(n_obs)])
    ops.fscommands = _XcCmds(fsops, via_direct, False, fail)
    ops.direct_commands = _XcCmds(fsops, via_direct, True, fail)
    d = {"self": ops, "resource": _XcRes("a.py", ignored), "fsops": fsops, "via_direct": via_direct, "told": told}
    if op == "move":
        d["new_resource"] = _XcRes("b.py", False)
    return d


_XC_OPS_ENV = {"ignored": lambda p, r: p.is_ignored(r), "is_direct": lambda c: c._is_direct}
bounded_check(name="c09-operations-move-native", props=["C09", "C13"], contract="_ResourceOperations.move", build=_xc_ops_build,
              domain=lambda t, s: [c for c in _xc_ops_domain(t, s) if c[0] == "move"], exhaustive=True, env=_XC_OPS_ENV,
              label="CPython cross-check: _ResourceOperations.move's contract with recording commands/observers: 0/1/3 observers x ignored x injected OSError")
bounded_check(name="c09-operations-remove-native", props=["C09", "C13"], contract="_ResourceOperations.remove", build=_xc_ops_build,
              domain=lambda t, s: [c for c in _xc_ops_domain(t, s) if c[0] == "remove"], exhaustive=True, env=_XC_OPS_ENV,
              label="CPython cross-check: _ResourceOperations.remove's contract on the same domain")

# C05 — dotted module name of a resource (what every import rewrite of move / rename / to-package is computed from): rope.base.libutils.modname
M = "rope.base.libutils:"
record("Resource", fields={})
specfun("name_of", ["Resource"], "Str")
specfun("parent_of", ["Resource"], "Resource")
specfun("folder_p", ["Resource"], "Bool")
specfun("has_init", ["Resource"], "Bool", note="folder.has_child('__init__.py')")
contract("Resource.name", abstract=True, is_property=True, pure=True, heap_independent=True, params={"self": "Resource"}, returns="Str", ensures=["result == name_of(self)"])
contract("Resource.parent", abstract=True, is_property=True, pure=True, heap_independent=True, params={"self": "Resource"}, returns="Resource", ensures=["result == parent_of(self)"])
contract("Resource.is_folder", abstract=True, pure=True, heap_independent=True, params={"self": "Resource"}, returns="Bool", ensures=["result == folder_p(self)"])
contract("Resource.has_child", abstract=True, pure=True, heap_independent=True, params={"self": "Resource", "name": "Str"}, returns="Bool",
         ensures=["implies(name == '__init__.py', result == has_init(self))"])
# qual(folder, m): m prefixed by the names of the enclosing package folders, innermost first, stopping at the first folder that is the root or has no __init__.py
specfun("qual", ["Resource", "Str"], "Str")
axiom("qual_stop", {"f": "Resource", "m": "Str"}, "implies(f == parent_of(f) or not has_init(f), qual(f, m) == m)", patterns=["qual(f, m)"])
axiom("qual_step", {"f": "Resource", "m": "Str"}, "implies(f != parent_of(f) and has_init(f), qual(f, m) == qual(parent_of(f), name_of(f) + '.' + m))", patterns=["qual(f, m)"],
      note="definition of the dotted name by recursion over the package chain")
specdef("init_name", {"r": "Resource"}, "Str",
        "ite(folder_p(r), name_of(r), ite(name_of(r) == '__init__.py', name_of(parent_of(r)), name_of(r)[0:len(name_of(r)) - 3]))")
specdef("init_folder", {"r": "Resource"}, "Resource",
        "ite(folder_p(r), parent_of(r), ite(name_of(r) == '__init__.py', parent_of(parent_of(r)), parent_of(r)))")
contract("modname", source=M + "modname", params={"resource": "Resource"}, returns="Str", modifies=[], raises={},
         requires=["implies(not folder_p(resource), len(name_of(resource)) >= 3)"],
         ensures=["result == qual(init_folder(resource), init_name(resource))"],
         loops={1: {"inv": ["qual(source_folder, module_name) == qual(init_folder(resource), init_name(resource))"]}},
         note="own name (without .py, or the package folder's name) qualified by every enclosing package; identity of Resource objects stands for equality of paths")
lemma("to_package_keeps_the_module_name",
      {"mod": "Resource", "pkgdir": "Resource", "init": "Resource", "base": "Str"},
      ["not folder_p(mod)", "name_of(mod)[0:len(name_of(mod)) - 3] == base", "name_of(mod) != '__init__.py'", "len(name_of(mod)) >= 3",
       # after ModuleToPackage: parent/base/ is a folder, parent/base/__init__.py the moved module
       "folder_p(pkgdir) == True", "name_of(pkgdir) == base", "parent_of(pkgdir) == parent_of(mod)",
       "not folder_p(init)", "name_of(init) == '__init__.py'", "parent_of(init) == pkgdir"],
      "qual(init_folder(init), init_name(init)) == qual(init_folder(mod), init_name(mod))",
      note="turning a module into a package does not change the dotted name importers use (over the modname contract's spec)")

from bounded import c05_moves as _b5
bounded_check(name="c05-moves", fn=_b5.run_case, domain=_b5.domain, exhaustive=True,
              label="B3: 9 client import styles x 10 move / rename / to-package scenarios, and 5 extra projects (bare relative imports, prefix-named destination, aliased "
                    "from-import of a moved module, move method, from-import inside a package): main.py executed before and after")

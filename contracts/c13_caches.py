# C13 — caches of a long-lived project: the file list (project._FileListCacher) and the module cache (pycore._ModuleCache)
P = "rope.base.project:"
C = "rope.base.pycore:"
record("Resource", abstract=True, fields={})
record("File", bases=["Resource"])
record("Folder", bases=["Resource"])
record("Project", fields={})
record("_FileListCacher", fields={"project": "Project", "files": "Opt[Set[Resource]]"})
contract("File.is_folder", source="rope.base.resources:File.is_folder", inline=True, params={"self": "File"}, returns="Bool")
contract("Folder.is_folder", source="rope.base.resources:Folder.is_folder", inline=True, params={"self": "Folder"}, returns="Bool")

# ghost: `listed(x)` = x is a non-ignored file on disk *before* the notified change; the notified change may only have added `resource`
specfun("listed", ["Resource"], "Bool")
specdef("coherent_before", {"c": "_FileListCacher"}, "Bool",
        "is_none(c.files) or forall(lambda x: select(val(c.files), x) == listed(x), 'Resource')")
contract("_FileListCacher._changed", source=P + "_FileListCacher._changed", params={"self": "_FileListCacher", "resource": "Resource"},
         requires=["coherent_before(self)"], modifies=["self.files"], raises={},
         ensures=[
             # after a change notification for `resource` (a write may have created it), the cache is empty or lists exactly the old files plus,
             # possibly, that resource -- and if it lists anything it already contained the changed file
             "is_none(self.files) or (self.files == old(self.files) and (isinstance(resource, Folder) == False) and select(val(self.files), resource))"],
         note="a change to a file the cache does not know must drop the cache (the write created the file)")
contract("_FileListCacher._invalid", source=P + "_FileListCacher._invalid", params={"self": "_FileListCacher", "resource": "Resource", "new_resource": "Opt[Resource]"},
         modifies=["self.files"], raises={}, ensures=["is_none(self.files)"], note="create / move / remove / validate always drop the cached list")

ghost("forgotten", "Bool")
record("PyModule", fields={})
record("Observer", fields={})
record("_ModuleCache", fields={"module_map": "Map[Resource,PyModule]", "observer": "Observer"})
contract("_ModuleCache.forget_all_data", abstract=True, params={"self": "_ModuleCache"}, modifies=["forgotten"], ensures=["forgotten"],
         note="every cached module forgets its concluded data (loop over module_map.values(); pyobjects side not under contract)")
contract("Observer.remove_resource", abstract=True, params={"self": "Observer", "resource": "Resource"})
contract("_ModuleCache._invalidate_resource", source=C + "_ModuleCache._invalidate_resource", params={"self": "_ModuleCache", "resource": "Resource"},
         modifies=["self.module_map", "forgotten"], raises={},
         ensures=["is_none(select(self.module_map, resource))",
                  "forall(lambda r: implies(r != resource, select(self.module_map, r) == select(old(self.module_map), r)), 'Resource')",
                  "implies(not is_none(select(old(self.module_map), resource)), forgotten)"],
         note="a changed resource leaves the module cache, nothing else does, and concluded data of every module is dropped whenever a cached module or package changes")

from bounded import c13_warm as _b13
bounded_check(name="c13-warm-vs-fresh", fn=_b13.run_case, domain=_b13.domain, exhaustive=False,
              label="B3 (random + scenarios): 100 (thorough 400) seeded 14-step histories of rope and behind-the-back changes, and 5 fixed scenarios "
                    "(move to an ignored name with a warm file list, package gaining a sub-module, class behind two package levels edited): every query "
                    "(files, python files, find_module, sources, attributes + definition locations, attribute names of denoted objects, package attributes) warm == fresh")

# C13 — caches of a long-lived project: the file list (project._FileListCacher) and the module cache (pycore._ModuleCache)
P = "rope.base.project:"
C = "rope.base.pycore:"
record("Resource", abstract=True, fields={})
record("File", bases=["Resource"])
record("Folder", bases=["Resource"])
record("Project", fields={})
record("_FileListCacher", fields={"project": "Project", "files": "Opt[Set[Resource]]"})
contract("File.is_folder", source="rope.base.resources:File.is_folder", inline=True, params={"self": "File"}, returns="Bool", ensures=["not result"])
contract("Folder.is_folder", source="rope.base.resources:Folder.is_folder", inline=True, params={"self": "Folder"}, returns="Bool", ensures=["result"])

# ghost: `listed(x)` = x is a non-ignored file on disk *before* the notified change; the notified change may only have added `resource`
specfun("listed", ["Resource"], "Bool")
specdef("coherent_before", {"c": "_FileListCacher"}, "Bool",
        "is_none(c.files) or forall(lambda x: select(val(c.files), x) == listed(x), 'Resource')")
contract("_FileListCacher._changed", source=P + "_FileListCacher._changed", params={"self": "_FileListCacher", "resource": "Resource"},
         requires=["coherent_before(self)"], modifies=["self.files"], raises={},
         ensures=[
             # after a change notification for `resource` (a write may have created it), the cache is empty or lists exactly the old files plus,
             # possibly, that resource -- and if it lists anything it already contained the changed file
             "is_none(self.files) or (self.files == old(self.files) and (isinstance(resource, Folder) == False) and select(val(self.files), resource))"],
         note="a change to a file the cache does not know must drop the cache (the write created the file)")
contract("_FileListCacher._invalid", source=P + "_FileListCacher._invalid", params={"self": "_FileListCacher", "resource": "Resource", "new_resource": "Opt[Resource]"}, defaults={"new_resource": "None"},
         modifies=["self.files"], raises={}, ensures=["is_none(self.files)"], note="create / move / remove / validate always drop the cached list")

ghost("forgotten", "Bool")
ghost("observed", "Set[Resource]")      # the resources the filtered observer watches: a change to one of them reaches _invalidate_resource
record("PyCore", fields={})
record("PyModule", fields={"has_errors": "Bool"})
record("Observer", fields={})
record("_ModuleCache", fields={"module_map": "Map[Resource,PyModule]", "observer": "Observer", "pycore": "PyCore"})
contract("_ModuleCache.forget_all_data", abstract=True, params={"self": "_ModuleCache"}, modifies=["forgotten"], ensures=["forgotten"],
         note="every cached module forgets its concluded data (loop over module_map.values(); pyobjects side not under contract)")
contract("Observer.remove_resource", abstract=True, params={"self": "Observer", "resource": "Resource"}, modifies=["observed"],
         ensures=["not select(observed, resource)", "forall(lambda r: implies(r != resource, select(observed, r) == select(old(observed), r)), 'Resource')"],
         note="FilteredResourceObserver.remove_resource: stop watching that resource")
contract("Observer.add_resource", abstract=True, params={"self": "Observer", "resource": "Resource"}, modifies=["observed"],
         ensures=["select(observed, resource)", "forall(lambda r: implies(r != resource, select(observed, r) == select(old(observed), r)), 'Resource')"],
         note="FilteredResourceObserver.add_resource: start watching that resource")
# every cached module is watched: otherwise a change to its file would never reach the cache
specdef("watched", {"c": "_ModuleCache", "obs": "Set[Resource]"}, "Bool", "forall(lambda r: implies(not is_none(select(c.module_map, r)), select(obs, r)), 'Resource')")
contract("_ModuleCache._invalidate_resource", source=C + "_ModuleCache._invalidate_resource", params={"self": "_ModuleCache", "resource": "Resource"},
         requires=["watched(self, observed)"],
         modifies=["self.module_map", "forgotten", "observed"], raises={},
         ensures=["is_none(select(self.module_map, resource))",
                  "forall(lambda r: implies(r != resource, select(self.module_map, r) == select(old(self.module_map), r)), 'Resource')",
                  "implies(not is_none(select(old(self.module_map), resource)), forgotten and not select(observed, resource))",
                  "implies(is_none(select(old(self.module_map), resource)), observed == old(observed) and forgotten == old(forgotten))",
                  "watched(self, observed)"],
         note="a changed resource leaves the module cache and the watch list, nothing else does, and concluded data of every module is dropped whenever a "
              "cached module or package changes")
contract("pyobjectsdef.PyPackage", external=True, params={"pycore": "PyCore", "resource": "Resource", "force_errors": "Bool"}, returns="PyModule",
         note="builds the package object; no effect on the cache")
contract("pyobjectsdef.PyModule", external=True, params={"pycore": "PyCore", "resource": "Resource", "force_errors": "Bool"}, returns="PyModule",
         note="parses the module; no effect on the cache")
contract("_ModuleCache.get_pymodule", source=C + "_ModuleCache.get_pymodule", params={"self": "_ModuleCache", "resource": "Resource", "force_errors": "Bool"},
         defaults={"force_errors": "False"}, returns="PyModule",
         requires=["watched(self, observed)"], modifies=["self.module_map", "observed"], raises={},
         ensures=[
             # a hit answers from the cache and changes nothing
             "implies(not is_none(select(old(self.module_map), resource)), result == val(select(old(self.module_map), resource)) and self.module_map == old(self.module_map) and observed == old(observed))",
             # a miss caches what it returns and starts watching the resource -- unless a module came out with syntax errors, which is handed out uncached
             "implies(is_none(select(old(self.module_map), resource)) and not (isinstance(resource, File) and result.has_errors), "
             "        select(self.module_map, resource) == Some(result) and select(observed, resource))",
             "implies(is_none(select(old(self.module_map), resource)) and isinstance(resource, File) and result.has_errors, "
             "        self.module_map == old(self.module_map) and observed == old(observed))",
             "forall(lambda r: implies(r != resource, select(self.module_map, r) == select(old(self.module_map), r)), 'Resource')",
             "watched(self, observed)"],
         note="whatever enters the cache is watched from then on")

# ---- PyCore passes every notification from its filtered observer on to every registered cache ------------------------------------------------
ghost("cache_calls", "Seq[Tuple[CacheObserver,Resource]]")
record("CacheObserver", fields={})
REG.records["PyCore"].fields.update({"cache_observers": "Seq[CacheObserver]"})
contract("CacheObserver.__call__", abstract=True, params={"self": "CacheObserver", "resource": "Resource"}, modifies=["cache_calls"],
         ensures=["cache_calls == old(cache_calls) + [(self, resource)]"],
         note="a registered cache callback (e.g. the bound method _ModuleCache._invalidate_resource, proved above); assumed not to raise")
contract("PyCore._invalidate_resource_cache", source=C + "PyCore._invalidate_resource_cache", params={"self": "PyCore", "resource": "Resource", "new_resource": "Opt[Resource]"},
         defaults={"new_resource": "None"}, modifies=["cache_calls"], raises={},
         ensures=["len(cache_calls) == len(old(cache_calls)) + len(self.cache_observers)",
                  "forall(lambda k: implies(0 <= k and k < len(self.cache_observers), cache_calls[len(old(cache_calls)) + k] == (self.cache_observers[k], resource)))"],
         loops={1: {"index": "i", "inv": ["len(cache_calls) == len(old(cache_calls)) + i",
                                          "forall(lambda k: implies(0 <= k and k < i, cache_calls[len(old(cache_calls)) + k] == (self.cache_observers[k], resource)))"]}},
         note="every registered cache is told about the changed resource, in registration order (moved/removed notifications pass the OLD resource)")

from bounded import c13_warm as _b13
bounded_check(name="c13-warm-vs-fresh", fn=_b13.run_case, domain=_b13.domain, exhaustive=False,
              label="B3 (random + scenarios): 100 (thorough 400) seeded 14-step histories of rope and behind-the-back changes, and 5 fixed scenarios "
                    "(move to an ignored name with a warm file list, package gaining a sub-module, class behind two package levels edited): every query "
                    "(files, python files, find_module, sources, attributes + definition locations, attribute names of denoted objects, package attributes) warm == fresh")

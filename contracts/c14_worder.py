# C14 — word scanners of rope.base.worder._RealFinder and codeanalyze.count_line_indents: maximal identifier-character run around an offset
M = "rope.base.worder:"
record("_RealFinder", fields={"code": "Str", "raw": "Str"}, pyclass="rope.base.worder:_RealFinder")
specdef("idc", {"s": "Str", "i": "Int"}, "Bool", "s[i].isalnum() or s[i] == '_'")
contract("_RealFinder._is_id_char", source=M + "_RealFinder._is_id_char", inline=True, params={"self": "_RealFinder", "offset": "Int"}, returns="Bool")

contract("_RealFinder._find_word_start", source=M + "_RealFinder._find_word_start", strmode="intseq", params={"self": "_RealFinder", "offset": "Int"}, returns="Int",
         requires=["0 <= offset and offset < len(self.code)", "idc(self.code, offset)"], modifies=[], raises={},
         ensures=["0 <= result and result <= offset",
                  "forall(lambda k: implies(result <= k and k <= offset, idc(self.code, k)))",
                  "result == 0 or not idc(self.code, result - 1)"],
         loops={1: {"inv": ["-1 <= current_offset and current_offset <= offset",
                            "forall(lambda k: implies(current_offset < k and k <= offset, idc(self.code, k)))"],
                    "decreases": "current_offset + 1"}},
         note="start of the maximal identifier-character run containing offset")
contract("_RealFinder._find_word_end", source=M + "_RealFinder._find_word_end", strmode="intseq", params={"self": "_RealFinder", "offset": "Int"}, returns="Int",
         requires=["0 <= offset and offset < len(self.code)", "idc(self.code, offset)"], modifies=[], raises={},
         ensures=["offset <= result and result < len(self.code)",
                  "forall(lambda k: implies(offset <= k and k <= result, idc(self.code, k)))",
                  "result + 1 == len(self.code) or not idc(self.code, result + 1)"],
         loops={1: {"inv": ["old(offset) <= offset and offset < len(self.code)",
                            "forall(lambda k: implies(old(offset) <= k and k <= offset, idc(self.code, k)))"], "decreases": "len(self.code) - offset"}},
         note="end (inclusive) of the maximal identifier-character run containing offset")
contract("_RealFinder._find_last_non_space_char", source=M + "_RealFinder._find_last_non_space_char", strmode="intseq",
         params={"self": "_RealFinder", "offset": "Int"}, returns="Int",
         requires=["offset < len(self.code)"], modifies=[], raises={},
         ensures=["-1 <= result", "result <= max(offset, -1)",
                  "implies(result >= 0, not self.code[result].isspace() or self.code[result] == '\\n')",
                  "forall(lambda k: implies(result < k and k <= offset and 0 <= k, self.code[k].isspace() and self.code[k] != '\\n'))"],
         loops={1: {"inv": ["offset <= old(offset)",
                            "forall(lambda k: implies(offset < k and k <= old(offset) and 0 <= k, self.code[k].isspace() and self.code[k] != '\\n'))"],
                    "decreases": "offset + 1"}},
         note="nearest position at or before offset that is not blank (a newline stops the scan); -1 when there is none")

# ---- CPython cross-check of the three scanner contracts on the real _RealFinder ---------------------------------------------------------
def _xc_w_domain(tier, seed):
    import itertools
    alphabet = "a_ \n." if tier != "thorough" else "a_ \n.1\t"
    for n in range(1, 6 if tier != "thorough" else 6):
        for t in itertools.product(alphabet, repeat=n):
            s = "".join(t)
            for off in range(-1, n):
                yield (s, off)


def _xc_w_build(case):
    from rope.base import worder
    s, off = case
    return {"self": worder._RealFinder(s, s), "offset": off}


for _fn in ("_find_word_start", "_find_word_end", "_find_last_non_space_char"):
    bounded_check(name="c14-%s-native" % _fn.strip("_").replace("_", "-"), props=["C14"], contract="_RealFinder." + _fn, build=_xc_w_build, domain=_xc_w_domain,
                  exhaustive=True, label="CPython cross-check: %s's contract on every text of <= 5 characters over {a,_,space,newline,.} x every offset "
                                         "(cases outside the precondition are skipped)" % _fn)

# ---- indentation of a line: rope.base.codeanalyze.count_line_indents (scope extents, holding scope by line, auto-indent) ----------------
specfun("ind", ["Str", "Int"], "Int", note="indentation contributed by the first k characters: 1 per space, 8 per tab")
axiom("ind_zero", {"s": "Str"}, "ind(s, 0) == 0", patterns=["ind(s, 0)"], strmode="intseq", note="definition")
axiom("ind_step", {"s": "Str", "k": "Int"},
      "implies(0 <= k and k < len(s), ind(s, k + 1) == ind(s, k) + ite(s[k] == ' ', 1, ite(s[k] == '\\t', 8, 0)))", patterns=["ind(s, k + 1)"], strmode="intseq",
      note="definition by recurrence")
specdef("blank", {"s": "Str", "k": "Int"}, "Bool", "s[k] == ' ' or s[k] == '\\t'")
contract("count_line_indents", source="rope.base.codeanalyze:count_line_indents", strmode="intseq", params={"line": "Str"}, returns="Int", modifies=[], raises={},
         ensures=[
             # a line with nothing but blanks has indentation 0; otherwise the blanks before the first other character are counted
             "implies(forall(lambda k: implies(0 <= k and k < len(line), blank(line, k))), result == 0)",
             "forall(lambda p: implies(0 <= p and p < len(line) and not blank(line, p) and forall(lambda k: implies(0 <= k and k < p, blank(line, k))), result == ind(line, p)))",
             "result >= 0"],
         loops={1: {"index": "i", "inv": ["indents == ind(line, i)", "indents >= 0", "forall(lambda k: implies(0 <= k and k < i, blank(line, k)))"]}},
         note="spaces count 1, tabs 8, up to the first character that is neither; an all-blank (or empty) line counts 0")


def _xc_ind(s, k):
    return sum(1 if c == " " else 8 if c == "\t" else 0 for c in s[:k])


def _xc_cli_domain(tier, seed):
    import itertools
    for n in range(0, 6 if tier != "thorough" else 7):
        for t in itertools.product(" \tx", repeat=n):
            yield "".join(t)


bounded_check(name="c14-count-line-indents-native", props=["C14"], contract="count_line_indents", build=lambda s: {"line": s}, domain=_xc_cli_domain, exhaustive=True,
              env={"ind": _xc_ind}, label="CPython cross-check: count_line_indents' contract on every string of <= 5 (thorough 6) characters over {space, tab, x}")

# C15/C20 — which scope holds an offset / a line: rope.base.pyscopes._HoldingScopeFinder
S = "rope.base.pyscopes:"
record("Scope", fields={})
specfun("children", ["Scope"], "Seq[Scope]", note="scope.get_scopes(): the directly nested scopes, in source order")
specfun("inreg", ["Scope", "Int"], "Bool", note="scope.in_region(offset)")
# desc(x, r): x is r or nested (at any depth) in r
specfun("desc", ["Scope", "Scope"], "Bool")
axiom("desc_refl", {"x": "Scope"}, "desc(x, x)", patterns=["desc(x, x)"], note="definition (reflexive)")
axiom("desc_up", {"x": "Scope", "r": "Scope", "k": "Int"},
      "implies(0 <= k and k < len(children(r)) and desc(x, children(r)[k]), desc(x, r))", patterns=["desc(x, children(r)[k])"],
      note="definition (what lies in a child's subtree lies in the parent's): desc is the least relation closed under the two rules")
axiom("desc_down", {"y": "Scope", "r": "Scope", "k": "Int"},
      "implies(desc(y, r) and 0 <= k and k < len(children(y)), desc(children(y)[k], r))", patterns=[["desc(y, r)", "children(y)[k]"]],
      note="a property of reachability (a child of a reachable scope is reachable); with desc_refl and desc_up: desc(x, r) = x is reachable from r by child steps")
axiom("desc_tree", {"p": "Scope", "k": "Int", "y": "Scope"},
      "implies(0 <= k and k < len(children(p)) and desc(children(p)[k], y) and y != children(p)[k], desc(p, y))", patterns=[["children(p)[k]", "desc(children(p)[k], y)"]],
      note="ASSUMPTION made explicit: scopes form a tree (whatever contains a nested scope, other than itself, contains its parent)")
specfun("height", ["Scope"], "Int", note="nesting height of a scope's subtree")
axiom("height_child", {"y": "Scope", "k": "Int"}, "implies(0 <= k and k < len(children(y)), 0 <= height(children(y)[k]) and height(children(y)[k]) < height(y))",
      patterns=["children(y)[k]"], note="ASSUMPTION made explicit: scopes nest finitely (a nested scope's subtree is strictly lower)")
axiom("desc_height", {"x": "Scope", "r": "Scope"}, "implies(desc(x, r) and x != r, height(x) < height(r))", patterns=["desc(x, r)"],
      note="what is strictly nested is strictly lower (consequence of height_child along the nesting path; stated, not derived)")
contract("Scope.get_scopes", abstract=True, pure=True, heap_independent=True, params={"self": "Scope"}, returns="Seq[Scope]", ensures=["result == children(self)"])
specfun("region_of", ["Scope"], "Tuple[Int,Int]", note="scope.get_region(): (start, end) offsets of the scope's node")
contract("Scope.get_region", abstract=True, pure=True, heap_independent=True, params={"self": "Scope"}, returns="Tuple[Int,Int]", ensures=["result == region_of(self)"])
axiom("inreg_def", {"s": "Scope", "o": "Int"}, "inreg(s, o) == (region_of(s)[0] < o and o < region_of(s)[1])", patterns=["inreg(s, o)"],
      note="definition: Scope.in_region (verified below against this)")
contract("Scope.in_region", source=S + "Scope.in_region", params={"self": "Scope", "offset": "Int"}, returns="Bool", modifies=[], raises={},
         ensures=["result == inreg(self, offset)"], note="strictly inside the scope's region")
contract("_HoldingScopeFinder.get_holding_scope_for_offset", source=S + "_HoldingScopeFinder.get_holding_scope_for_offset",
         params={"scope": "Scope", "offset": "Int"}, returns="Scope", modifies=[], raises={},
         ensures=[
             # the answer is the given scope or something nested in it, it contains the offset unless it is the given scope itself,
             # and it is innermost: none of its own children contains the offset
             "desc(result, scope)",
             "result == scope or inreg(result, offset)",
             "forall(lambda k: implies(0 <= k and k < len(children(result)), not inreg(children(result)[k], offset)))",
             "implies(forall(lambda k: implies(0 <= k and k < len(children(scope)), not inreg(children(scope)[k], offset))), result == scope)"],
         loops={1: {"index": "i", "inv": ["forall(lambda k: implies(0 <= k and k < i, not inreg(children(scope)[k], offset)))"]}},
         note="the innermost scope whose region holds the offset (recursion verified against this very contract; finite nesting assumed)")

# ---- by line and indentation: get_holding_scope ---------------------------------------------------------------------------
record("_HoldingScopeFinder", fields={})
specfun("start_of", ["Scope"], "Int")
specfun("end_of", ["Scope"], "Int")
specfun("kind_of", ["Scope"], "Str")
specfun("indents_of", ["_HoldingScopeFinder", "Scope"], "Int", note="indentation of the scope's first line")
specfun("indent_of_line", ["_HoldingScopeFinder", "Int"], "Int", note="indentation of a line")
contract("Scope.get_start", abstract=True, pure=True, heap_independent=True, params={"self": "Scope"}, returns="Int", ensures=["result == start_of(self)"])
contract("Scope.get_end", abstract=True, pure=True, heap_independent=True, params={"self": "Scope"}, returns="Int", ensures=["result == end_of(self)"])
contract("Scope.get_kind", abstract=True, pure=True, heap_independent=True, params={"self": "Scope"}, returns="Str", ensures=["result == kind_of(self)"])
contract("_HoldingScopeFinder._get_scope_indents", abstract=True, pure=True, heap_independent=True, params={"self": "_HoldingScopeFinder", "scope": "Scope"}, returns="Int",
         ensures=["result == indents_of(self, scope)"])
contract("_HoldingScopeFinder.get_indents", abstract=True, pure=True, heap_independent=True, params={"self": "_HoldingScopeFinder", "lineno": "Int"}, returns="Int",
         ensures=["result == indent_of_line(self, lineno)"])
specdef("holds", {"s": "Scope", "l": "Int"}, "Bool", "start_of(s) <= l and l <= end_of(s)")
specdef("eligible", {"f": "_HoldingScopeFinder", "s": "Scope", "ind": "Int"}, "Bool", "kind_of(s) == 'Module' or indents_of(f, s) <= ind")
IND = "ite(is_none(line_indents), indent_of_line(self, lineno), val(line_indents))"
contract("_HoldingScopeFinder.get_holding_scope", source=S + "_HoldingScopeFinder.get_holding_scope",
         params={"self": "_HoldingScopeFinder", "module_scope": "Scope", "lineno": "Int", "line_indents": "Opt[Int]"}, defaults={"line_indents": "None"},
         returns="Scope", requires=["kind_of(module_scope) == 'Module'", "height(module_scope) >= 0"], modifies=[], raises={},
         ensures=[
             "desc(result, module_scope)",
             # the descent stops at the FIRST scope on its way that starts on the line: no scope strictly around the answer does
             "forall(lambda y: implies(desc(result, y) and desc(y, module_scope) and y != result, not (start_of(y) == lineno and kind_of(y) != 'Module')), 'Scope')",
             # below the module scope the answer spans the line and is not indented deeper than it
             "result == module_scope or (holds(result, lineno) and eligible(self, result, " + IND + "))",
             # it is as deep as the rule allows: it starts on the line itself, or no directly nested scope that could continue the descent spans the line
             "(start_of(result) == lineno and kind_of(result) != 'Module') or "
             "forall(lambda k: implies(0 <= k and k < len(children(result)) and holds(children(result)[k], lineno) and "
             "       forall(lambda j: implies(0 <= j and j < k, start_of(children(result)[j]) <= lineno and not holds(children(result)[j], lineno))), "
             "       not eligible(self, children(result)[k], " + IND + ")))"],
         loops={1: {"decreases": "ite(is_none(new_scope), 0, 1 + height(val(new_scope)))",
                    "inv": ["desc(current_scope, module_scope)", "is_none(new_scope) or height(val(new_scope)) >= 0",
                            "forall(lambda y: implies(desc(current_scope, y) and desc(y, module_scope) and y != current_scope, not (start_of(y) == lineno and kind_of(y) != 'Module')), 'Scope')",
                            "implies(not is_none(new_scope) and val(new_scope) != current_scope, not (start_of(current_scope) == lineno and kind_of(current_scope) != 'Module'))",
                            "current_scope == module_scope or (holds(current_scope, lineno) and eligible(self, current_scope, line_indents))",
                            "is_none(new_scope) or desc(val(new_scope), module_scope)",
                            "is_none(new_scope) or val(new_scope) == module_scope or holds(val(new_scope), lineno)",
                            # either we are about to look at new_scope, or the descent below current_scope found no spanning child in order
                            "implies(is_none(new_scope), forall(lambda k: implies(0 <= k and k < len(children(current_scope)) and holds(children(current_scope)[k], lineno), "
                            "        exists(lambda j: 0 <= j and j < k and not (start_of(children(current_scope)[j]) <= lineno and not holds(children(current_scope)[j], lineno))))))",
                            "implies(not is_none(new_scope) and val(new_scope) != current_scope, exists(lambda k: 0 <= k and k < len(children(current_scope)) and "
                            "        children(current_scope)[k] == val(new_scope) and holds(val(new_scope), lineno) and "
                            "        forall(lambda j: implies(0 <= j and j < k, start_of(children(current_scope)[j]) <= lineno and not holds(children(current_scope)[j], lineno)))))"]},
                2: {"index": "i", "inv": ["is_none(new_scope)",
                                          "forall(lambda j: implies(0 <= j and j < i, start_of(children(current_scope)[j]) <= lineno and not holds(children(current_scope)[j], lineno)))"]}},
         locals={"new_scope": "Opt[Scope]", "current_scope": "Scope"},
         note="descends from the module scope through the first nested scope that spans the line, as long as that scope is not indented deeper than the line; "
              "stops at a scope that starts on the line (children in source order: the search stops at the first child starting after the line)")

# ---- where a scope ends: find_scope_end -------------------------------------------------------------------------------------------------
record("Lines", fields={})
record("LogicalLines", fields={})
record("Node", fields={"lineno": "Int"})
record("Ast", fields={"body": "Seq[Node]"})
record("PyObject", fields={})
record("PyModule", fields={"logical_lines": "LogicalLines"})
REG.records["Scope"].fields.update({"parent": "Opt[Scope]", "pyobject": "PyObject", "start": "Int"})
REG.records["_HoldingScopeFinder"].fields.update({"pymodule": "PyModule"})
specfun("n_lines", ["_HoldingScopeFinder"], "Int", note="self.lines.length()")
specfun("ast_of", ["PyObject"], "Ast")
specfun("logical_end", ["LogicalLines", "Int"], "Int", note="last physical line of the logical line holding that line")
specfun("logical_begin", ["LogicalLines", "Int"], "Int")
specfun("starts_in", ["LogicalLines", "Int", "Int"], "Seq[Int]", note="logical_lines.generate_starts(a, b): the logical line starts in [a, b), increasing")
specfun("empty_line", ["_HoldingScopeFinder", "Int"], "Bool", note="blank or comment-only line")
specfun("body_indents_of", ["_HoldingScopeFinder", "Scope"], "Int", note="indentation of the scope's first body line")
contract("_HoldingScopeFinder.lines", abstract=True, is_property=True, pure=True, heap_independent=True, params={"self": "_HoldingScopeFinder"}, returns="Lines")
contract("_HoldingScopeFinder.logical_lines", abstract=True, is_property=True, pure=True, heap_independent=True, params={"self": "_HoldingScopeFinder"}, returns="LogicalLines",
         ensures=["result == self.pymodule.logical_lines"])
contract("Lines.length", abstract=True, pure=True, params={"self": "Lines"}, returns="Int", note="number of lines")
REG.contracts["Lines.length"].heap_independent = True
specfun("len_of_lines", ["Lines"], "Int")
REG.contracts["Lines.length"].ensures = ["result == len_of_lines(self)", "result >= 0"]
contract("PyObject.get_ast", abstract=True, pure=True, heap_independent=True, params={"self": "PyObject"}, returns="Ast", ensures=["result == ast_of(self)", "len(result.body) >= 1"],
         note="a function or class definition has at least one body statement")
contract("LogicalLines.logical_line_in", abstract=True, pure=True, heap_independent=True, params={"self": "LogicalLines", "line_number": "Int"}, returns="Tuple[Int,Int]",
         ensures=["result[0] == logical_begin(self, line_number)", "result[1] == logical_end(self, line_number)"])
contract("LogicalLines.generate_starts", abstract=True, pure=True, heap_independent=True, params={"self": "LogicalLines", "start_line": "Int", "end_line": "Int"},
         returns="Seq[Int]",
         ensures=["result == starts_in(self, start_line, end_line)",
                  "forall(lambda a, b: implies(0 <= a and a < b and b < len(result), result[a] < result[b]))",
                  "forall(lambda a: implies(0 <= a and a < len(result), start_line <= result[a] and result[a] < end_line))"],
         note="generator of the logical line starts in [start_line, end_line), in increasing order (codeanalyze.CachingLogicalLineFinder; its tokenizer agreement is C14's stand-in)")
contract("_HoldingScopeFinder._is_empty_line", abstract=True, pure=True, heap_independent=True, params={"self": "_HoldingScopeFinder", "lineno": "Int"}, returns="Bool",
         ensures=["result == empty_line(self, lineno)"])
contract("_HoldingScopeFinder._get_body_indents", abstract=True, pure=True, heap_independent=True, params={"self": "_HoldingScopeFinder", "scope": "Scope"}, returns="Int",
         ensures=["result == body_indents_of(self, scope)"])
specdef("end0", {"s": "Scope"}, "Int", "ast_of(s.pyobject).body[len(ast_of(s.pyobject).body) - 1].lineno")
# a one-liner (`def f(): return 1`, header and body on one logical line) has no body line of its own: its body counts as indented 4 deeper than the header
specdef("body_ind", {"f": "_HoldingScopeFinder", "s": "Scope"}, "Int",
        "ite(logical_end(f.pymodule.logical_lines, s.start) >= end0(s), indents_of(f, s) + 4, body_indents_of(f, s))")
SQ = "starts_in(self.pymodule.logical_lines, min(end0(scope) + 1, len_of_lines(self.lines)), len_of_lines(self.lines) + 1)"
contract("_HoldingScopeFinder.find_scope_end", source=S + "_HoldingScopeFinder.find_scope_end", params={"self": "_HoldingScopeFinder", "scope": "Scope"}, returns="Int",
         requires=["implies(not is_none(scope.parent), end0(scope) <= len_of_lines(self.lines))"], modifies=[], raises={},
         ensures=[
             "implies(is_none(scope.parent), result == len_of_lines(self.lines))", "implies(not is_none(scope.parent), result >= end0(scope))",
             # a nested scope ends at its last body statement or at a later logical line that still belongs to it
             "implies(not is_none(scope.parent), result == end0(scope) or exists(lambda k: 0 <= k and k < len(" + SQ + ") and " + SQ + "[k] == result and "
             "        not empty_line(self, result) and indent_of_line(self, result) >= body_ind(self, scope)))",
             # every non-empty logical line up to the end is indented at least like the body ...
             "implies(not is_none(scope.parent), forall(lambda k: implies(0 <= k and k < len(" + SQ + ") and end0(scope) < " + SQ + "[k] and " + SQ + "[k] <= result and not empty_line(self, " + SQ + "[k]), "
             "        indent_of_line(self, " + SQ + "[k]) >= body_ind(self, scope))))",
             # ... and the first non-empty one after it is not
             "implies(not is_none(scope.parent), forall(lambda k: implies(0 <= k and k < len(" + SQ + ") and " + SQ + "[k] > result and not empty_line(self, " + SQ + "[k]) and "
             "        forall(lambda j: implies(0 <= j and j < k and " + SQ + "[j] > result, empty_line(self, " + SQ + "[j]))), "
             "        indent_of_line(self, " + SQ + "[k]) < body_ind(self, scope))))"],
         loops={1: {"index": "i", "inv": [
             "end == end0(scope) or exists(lambda k: 0 <= k and k < i and elem_at(k) == end and not empty_line(self, end) and indent_of_line(self, end) >= body_indents)",
             "body_indents == body_ind(self, scope)",
             "forall(lambda k: implies(0 <= k and k < i and not empty_line(self, elem_at(k)), indent_of_line(self, elem_at(k)) >= body_indents and elem_at(k) <= end))",
             "forall(lambda k: implies(0 <= k and k < i and not empty_line(self, elem_at(k)), elem_at(k) <= end))",
             "forall(lambda k: implies(i <= k and k < len(" + SQ + "), end < " + SQ + "[k] or " + SQ + "[k] <= end0(scope)))", "end >= end0(scope)"]}},
         note="scope extents by indentation; the one-liner rule is `>=` (a header continued over several lines with the body on its last line is a one-liner too)")

# ---- CPython cross-check on REAL scope trees: the contracts above evaluated natively (also judges bodies that leave the verified subset) ----------------
_XC_SRCS = [
    "def f(a):\n    def g(b):\n        return [c for c in b]\n    return g(a)\n\n\nclass K:\n    def m(self):\n        return lambda q: q\n",
    "def f(xs, ys, flag):\n    best = [g + 1 for g in xs] if any([h > 0 for h in ys]) else []\n    chosen = [d for d in xs] if flag else [e for e in ys]\n    return best, chosen\n",
    "x = [i for i in range(3)]\n\n\ndef top():\n    y = {k: v for k, v in {}.items()}\n    class In:\n        z = (w for w in [])\n    return y\n",
    "class A:\n    class B:\n        def c(self):\n            def d():\n                pass\n            return d\n    def e(self): return 1\n",
    "def one(): return 1\ndef two():\n    a = 1\n\n    b = 2\n    return a + b\n\n# trailing comment\nvalue = two()\n",
    "class C:\n    def spread(self): return (1 +\n                              2)\n    other = 3\n\n\ndef after(): return [1,\n    2]\nz = 1\n",
]
_XC_MODS = {}


def _xc_scopes(i):
    if i not in _XC_MODS:
        from rope.base.project import NoProject
        from rope.base import libutils
        pm = libutils.get_string_module(NoProject(), _XC_SRCS[i])
        _XC_MODS[i] = (pm, pm.get_scope())
    return _XC_MODS[i]


def _xc_all(scope):
    out = [scope]
    for c in scope.get_scopes():
        out += _xc_all(c)
    return out


def _xc_hso_domain(tier, seed):
    for i, src in enumerate(_XC_SRCS):
        n_scopes = 12
        for off in range(0, len(src) + 1):
            yield (i, -1, off)           # from the module scope
        for off in range(0, len(src) + 1, 3):
            for j in range(1, n_scopes):
                yield (i, j, off)        # from the j-th scope of the tree (if there is one)


def _xc_hso_build(case):
    i, j, off = case
    pm, root = _xc_scopes(i)
    scopes = _xc_all(root)
    start = root if j < 0 else (scopes[j] if j < len(scopes) else None)
    if start is None:
        start = root
    return {"scope": start, "offset": off, "__dom_Scope__": scopes}


def _xc_desc(x, r):
    return x is r or any(_xc_desc(x, c) for c in r.get_scopes())


_XC_SCOPE_ENV = {"children": lambda s: s.get_scopes(), "inreg": lambda s, o: s.in_region(o), "desc": _xc_desc,
                 "region_of": lambda s: s.get_region(), "height": lambda s: 1 + max([0] + [_XC_SCOPE_ENV["height"](c) for c in s.get_scopes()])}
bounded_check(name="c15-holding-offset-native", props=["C15", "C20"], contract="_HoldingScopeFinder.get_holding_scope_for_offset", build=_xc_hso_build,
              domain=_xc_hso_domain, exhaustive=True, env=_XC_SCOPE_ENV,
              label="CPython cross-check: get_holding_scope_for_offset's contract on the real scope trees of 5 small modules (nested functions, classes, lambdas, "
                    "comprehensions, a conditional expression with comprehensions in body and test), every offset from the module scope and every 3rd from every scope")


def _xc_hs_domain(tier, seed):
    for i, src in enumerate(_XC_SRCS):
        for line in range(1, src.count("\n") + 2):
            for ind in (None, 0, 4, 8):
                yield (i, line, ind)


def _xc_hs_build(case):
    from rope.base import pyscopes
    i, line, ind = case
    pm, root = _xc_scopes(i)
    return {"self": pyscopes._HoldingScopeFinder(pm), "module_scope": root, "lineno": line, "line_indents": ind, "__dom_Scope__": _xc_all(root)}


_XC_SCOPE_ENV2 = dict(_XC_SCOPE_ENV, start_of=lambda s: s.get_start(), end_of=lambda s: s.get_end(), kind_of=lambda s: s.get_kind(),
                      indents_of=lambda f, s: f._get_scope_indents(s), indent_of_line=lambda f, l: f.get_indents(l))
bounded_check(name="c15-holding-line-native", props=["C15", "C20"], contract="_HoldingScopeFinder.get_holding_scope", build=_xc_hs_build, domain=_xc_hs_domain,
              exhaustive=True, env=_XC_SCOPE_ENV2,
              label="CPython cross-check: get_holding_scope's contract on the same real scope trees, every line x given indentation None/0/4/8")


def _xc_fse_domain(tier, seed):
    for i in range(len(_XC_SRCS)):
        for j in range(0, 12):
            yield (i, j)


def _xc_fse_build(case):
    from rope.base import pyscopes
    i, j = case
    pm, root = _xc_scopes(i)
    # (find_scope_end is only ever asked about the module, functions and classes: comprehension scopes answer get_logical_end themselves)
    scopes = [s for s in _xc_all(root) if s.get_kind() in ("Module", "Function", "Class")]
    return {"self": pyscopes._HoldingScopeFinder(pm), "scope": scopes[j % len(scopes)]}


_XC_SCOPE_ENV3 = dict(_XC_SCOPE_ENV2, len_of_lines=lambda ls: ls.length(), ast_of=lambda o: o.get_ast(), logical_end=lambda ll, n: ll.logical_line_in(n)[1],
                      logical_begin=lambda ll, n: ll.logical_line_in(n)[0], starts_in=lambda ll, a, b: list(ll.generate_starts(a, b)),
                      empty_line=lambda f, n: f._is_empty_line(n), body_indents_of=lambda f, s: f._get_body_indents(s))
bounded_check(name="c15-scope-end-native", props=["C15", "C20"], contract="_HoldingScopeFinder.find_scope_end", build=_xc_fse_build, domain=_xc_fse_domain, exhaustive=True,
              env=_XC_SCOPE_ENV3, label="CPython cross-check: find_scope_end's contract on every scope of the same real modules (one-liners, blank lines and comments after a body)")

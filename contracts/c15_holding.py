# C15/C20 — which scope holds an offset / a line: rope.base.pyscopes._HoldingScopeFinder
S = "rope.base.pyscopes:"
record("Scope", fields={})
specfun("children", ["Scope"], "Seq[Scope]", note="scope.get_scopes(): the directly nested scopes, in source order")
specfun("inreg", ["Scope", "Int"], "Bool", note="scope.in_region(offset)")
# desc(x, r): x is r or nested (at any depth) in r
specfun("desc", ["Scope", "Scope"], "Bool")
axiom("desc_refl", {"x": "Scope"}, "desc(x, x)", patterns=["desc(x, x)"], note="definition (reflexive)")
axiom("desc_up", {"x": "Scope", "r": "Scope", "k": "Int"},
      "implies(0 <= k and k < len(children(r)) and desc(x, children(r)[k]), desc(x, r))", patterns=["desc(x, children(r)[k])"],
      note="definition (what lies in a child's subtree lies in the parent's): desc is the least relation closed under the two rules")
axiom("desc_down", {"y": "Scope", "r": "Scope", "k": "Int"},
      "implies(desc(y, r) and 0 <= k and k < len(children(y)), desc(children(y)[k], r))", patterns=[["desc(y, r)", "children(y)[k]"]],
      note="a property of reachability (a child of a reachable scope is reachable); with desc_refl and desc_up: desc(x, r) = x is reachable from r by child steps")
axiom("desc_tree", {"p": "Scope", "k": "Int", "y": "Scope"},
      "implies(0 <= k and k < len(children(p)) and desc(children(p)[k], y) and y != children(p)[k], desc(p, y))", patterns=[["children(p)[k]", "desc(children(p)[k], y)"]],
      note="ASSUMPTION made explicit: scopes form a tree (whatever contains a nested scope, other than itself, contains its parent)")
specfun("height", ["Scope"], "Int", note="nesting height of a scope's subtree")
axiom("height_child", {"y": "Scope", "k": "Int"}, "implies(0 <= k and k < len(children(y)), 0 <= height(children(y)[k]) and height(children(y)[k]) < height(y))",
      patterns=["children(y)[k]"], note="ASSUMPTION made explicit: scopes nest finitely (a nested scope's subtree is strictly lower)")
axiom("desc_height", {"x": "Scope", "r": "Scope"}, "implies(desc(x, r) and x != r, height(x) < height(r))", patterns=["desc(x, r)"],
      note="what is strictly nested is strictly lower (consequence of height_child along the nesting path; stated, not derived)")
contract("Scope.get_scopes", abstract=True, pure=True, heap_independent=True, params={"self": "Scope"}, returns="Seq[Scope]", ensures=["result == children(self)"])
contract("Scope.in_region", abstract=True, pure=True, heap_independent=True, params={"self": "Scope", "offset": "Int"}, returns="Bool", ensures=["result == inreg(self, offset)"])
contract("_HoldingScopeFinder.get_holding_scope_for_offset", source=S + "_HoldingScopeFinder.get_holding_scope_for_offset",
         params={"scope": "Scope", "offset": "Int"}, returns="Scope", modifies=[], raises={},
         ensures=[
             # the answer is the given scope or something nested in it, it contains the offset unless it is the given scope itself,
             # and it is innermost: none of its own children contains the offset
             "desc(result, scope)",
             "result == scope or inreg(result, offset)",
             "forall(lambda k: implies(0 <= k and k < len(children(result)), not inreg(children(result)[k], offset)))",
             "implies(forall(lambda k: implies(0 <= k and k < len(children(scope)), not inreg(children(scope)[k], offset))), result == scope)"],
         loops={1: {"index": "i", "inv": ["forall(lambda k: implies(0 <= k and k < i, not inreg(children(scope)[k], offset)))"]}},
         note="the innermost scope whose region holds the offset (recursion verified against this very contract; finite nesting assumed)")

# ---- by line and indentation: get_holding_scope ---------------------------------------------------------------------------
record("_HoldingScopeFinder", fields={})
specfun("start_of", ["Scope"], "Int")
specfun("end_of", ["Scope"], "Int")
specfun("kind_of", ["Scope"], "Str")
specfun("indents_of", ["_HoldingScopeFinder", "Scope"], "Int", note="indentation of the scope's first line")
specfun("indent_of_line", ["_HoldingScopeFinder", "Int"], "Int", note="indentation of a line")
contract("Scope.get_start", abstract=True, pure=True, heap_independent=True, params={"self": "Scope"}, returns="Int", ensures=["result == start_of(self)"])
contract("Scope.get_end", abstract=True, pure=True, heap_independent=True, params={"self": "Scope"}, returns="Int", ensures=["result == end_of(self)"])
contract("Scope.get_kind", abstract=True, pure=True, heap_independent=True, params={"self": "Scope"}, returns="Str", ensures=["result == kind_of(self)"])
contract("_HoldingScopeFinder._get_scope_indents", abstract=True, pure=True, heap_independent=True, params={"self": "_HoldingScopeFinder", "scope": "Scope"}, returns="Int",
         ensures=["result == indents_of(self, scope)"])
contract("_HoldingScopeFinder.get_indents", abstract=True, pure=True, heap_independent=True, params={"self": "_HoldingScopeFinder", "lineno": "Int"}, returns="Int",
         ensures=["result == indent_of_line(self, lineno)"])
specdef("holds", {"s": "Scope", "l": "Int"}, "Bool", "start_of(s) <= l and l <= end_of(s)")
specdef("eligible", {"f": "_HoldingScopeFinder", "s": "Scope", "ind": "Int"}, "Bool", "kind_of(s) == 'Module' or indents_of(f, s) <= ind")
IND = "ite(is_none(line_indents), indent_of_line(self, lineno), val(line_indents))"
contract("_HoldingScopeFinder.get_holding_scope", source=S + "_HoldingScopeFinder.get_holding_scope",
         params={"self": "_HoldingScopeFinder", "module_scope": "Scope", "lineno": "Int", "line_indents": "Opt[Int]"}, defaults={"line_indents": "None"},
         returns="Scope", requires=["kind_of(module_scope) == 'Module'", "height(module_scope) >= 0"], modifies=[], raises={},
         ensures=[
             "desc(result, module_scope)",
             # the descent stops at the FIRST scope on its way that starts on the line: no scope strictly around the answer does
             "forall(lambda y: implies(desc(result, y) and desc(y, module_scope) and y != result, not (start_of(y) == lineno and kind_of(y) != 'Module')), 'Scope')",
             # below the module scope the answer spans the line and is not indented deeper than it
             "result == module_scope or (holds(result, lineno) and eligible(self, result, " + IND + "))",
             # it is as deep as the rule allows: it starts on the line itself, or no directly nested scope that could continue the descent spans the line
             "(start_of(result) == lineno and kind_of(result) != 'Module') or "
             "forall(lambda k: implies(0 <= k and k < len(children(result)) and holds(children(result)[k], lineno) and "
             "       forall(lambda j: implies(0 <= j and j < k, start_of(children(result)[j]) <= lineno and not holds(children(result)[j], lineno))), "
             "       not eligible(self, children(result)[k], " + IND + ")))"],
         loops={1: {"decreases": "ite(is_none(new_scope), 0, 1 + height(val(new_scope)))",
                    "inv": ["desc(current_scope, module_scope)", "is_none(new_scope) or height(val(new_scope)) >= 0",
                            "forall(lambda y: implies(desc(current_scope, y) and desc(y, module_scope) and y != current_scope, not (start_of(y) == lineno and kind_of(y) != 'Module')), 'Scope')",
                            "implies(not is_none(new_scope) and val(new_scope) != current_scope, not (start_of(current_scope) == lineno and kind_of(current_scope) != 'Module'))",
                            "current_scope == module_scope or (holds(current_scope, lineno) and eligible(self, current_scope, line_indents))",
                            "is_none(new_scope) or desc(val(new_scope), module_scope)",
                            "is_none(new_scope) or val(new_scope) == module_scope or holds(val(new_scope), lineno)",
                            # either we are about to look at new_scope, or the descent below current_scope found no spanning child in order
                            "implies(is_none(new_scope), forall(lambda k: implies(0 <= k and k < len(children(current_scope)) and holds(children(current_scope)[k], lineno), "
                            "        exists(lambda j: 0 <= j and j < k and not (start_of(children(current_scope)[j]) <= lineno and not holds(children(current_scope)[j], lineno))))))",
                            "implies(not is_none(new_scope) and val(new_scope) != current_scope, exists(lambda k: 0 <= k and k < len(children(current_scope)) and "
                            "        children(current_scope)[k] == val(new_scope) and holds(val(new_scope), lineno) and "
                            "        forall(lambda j: implies(0 <= j and j < k, start_of(children(current_scope)[j]) <= lineno and not holds(children(current_scope)[j], lineno)))))"]},
                2: {"index": "i", "inv": ["is_none(new_scope)",
                                          "forall(lambda j: implies(0 <= j and j < i, start_of(children(current_scope)[j]) <= lineno and not holds(children(current_scope)[j], lineno)))"]}},
         locals={"new_scope": "Opt[Scope]", "current_scope": "Scope"},
         note="descends from the module scope through the first nested scope that spans the line, as long as that scope is not indented deeper than the line; "
              "stops at a scope that starts on the line (children in source order: the search stops at the first child starting after the line)")

# C06/C04 — rope.refactor.functionutils.ArgumentMapping.__init__: call arguments are bound to parameters as Python binds them
M = "rope.refactor.functionutils:"
A = "Opaque[ArgText]"
record("DefinitionInfo", fields={"args_with_defaults": "Seq[Tuple[Str,Opt[Opaque[ArgText]]]]"})
record("CallInfo", fields={"args": "Seq[Opaque[ArgText]]", "keywords": "Seq[Tuple[Str,Opaque[ArgText]]]"})
record("ArgumentMapping", fields={"call_info": "CallInfo", "param_dict": "Map[Str,Opaque[ArgText]]", "keyword_args": "Seq[Tuple[Str,Opaque[ArgText]]]",
                                  "args_arg": "Seq[Opaque[ArgText]]"})
specdef("pname", {"d": "DefinitionInfo", "k": "Int"}, "Str", "d.args_with_defaults[k][0]")
specdef("is_param", {"d": "DefinitionInfo", "n": "Str"}, "Bool", "exists(lambda k: 0 <= k and k < len(d.args_with_defaults) and pname(d, k) == n)")
specdef("npos", {"d": "DefinitionInfo", "c": "CallInfo"}, "Int", "min(len(c.args), len(d.args_with_defaults))")

contract("ArgumentMapping.__init__", source=M + "ArgumentMapping.__init__",
         params={"self": "ArgumentMapping", "definition_info": "DefinitionInfo", "call_info": "CallInfo"},
         requires=[
             # a call Python accepts: parameter names distinct; keyword names distinct and not already bound positionally
             "forall(lambda a, b: implies(0 <= a and a < b and b < len(definition_info.args_with_defaults), pname(definition_info, a) != pname(definition_info, b)))",
             "forall(lambda a, b: implies(0 <= a and a < b and b < len(call_info.keywords), call_info.keywords[a][0] != call_info.keywords[b][0]))",
             "forall(lambda a, k: implies(0 <= a and a < len(call_info.keywords) and 0 <= k and k < npos(definition_info, call_info), call_info.keywords[a][0] != pname(definition_info, k)))"],
         modifies=["self.call_info", "self.param_dict", "self.keyword_args", "self.args_arg"], raises={},
         ensures=[
             "self.call_info == call_info",
             # positional arguments bind the leading parameters; surplus positionals are kept in order
             "forall(lambda k: implies(0 <= k and k < npos(definition_info, call_info), select(self.param_dict, pname(definition_info, k)) == Some(call_info.args[k])))",
             "self.args_arg == call_info.args[npos(definition_info, call_info):len(call_info.args)]",
             # a keyword naming a parameter binds it; other keywords are kept
             "forall(lambda a: implies(0 <= a and a < len(call_info.keywords) and is_param(definition_info, call_info.keywords[a][0]), "
             "       select(self.param_dict, call_info.keywords[a][0]) == Some(call_info.keywords[a][1])))",
             "forall(lambda a: implies(0 <= a and a < len(self.keyword_args), not is_param(definition_info, self.keyword_args[a][0])))",
             # ... every one of them
             "forall(lambda a: implies(0 <= a and a < len(call_info.keywords) and not is_param(definition_info, call_info.keywords[a][0]), call_info.keywords[a] in self.keyword_args))"],
         loops={1: {"index": "i", "inv": [
                        "len(self.keyword_args) == 0",
                        "forall(lambda k: implies(0 <= k and k < min(i, len(definition_info.args_with_defaults)), select(self.param_dict, pname(definition_info, k)) == Some(call_info.args[k])))",
                        "self.args_arg == call_info.args[min(i, len(definition_info.args_with_defaults)):i]",
                        "forall(lambda n: implies(not is_none(select(self.param_dict, n)), exists(lambda k: 0 <= k and k < min(i, len(definition_info.args_with_defaults)) and pname(definition_info, k) == n)), 'Str')"]},
                2: {"index": "j", "inv": [
                        "forall(lambda k: implies(0 <= k and k < npos(definition_info, call_info), select(self.param_dict, pname(definition_info, k)) == Some(call_info.args[k])))",
                        "self.args_arg == call_info.args[npos(definition_info, call_info):len(call_info.args)]",
                        "forall(lambda a: implies(0 <= a and a < j and is_param(definition_info, call_info.keywords[a][0]), select(self.param_dict, call_info.keywords[a][0]) == Some(call_info.keywords[a][1])))",
                        "forall(lambda a: implies(0 <= a and a < len(self.keyword_args), not is_param(definition_info, self.keyword_args[a][0])))",
                        "forall(lambda a: implies(0 <= a and a < j and not is_param(definition_info, call_info.keywords[a][0]), call_info.keywords[a] in self.keyword_args))"]},
                3: {"index": "m", "inv": ["forall(lambda k: implies(0 <= k and k < m, pname(definition_info, k) != name))"]}},
         note="argument texts are opaque (only moved and compared)")

from bounded import c06_signatures as _b6
bounded_check(name="c06-signatures", props=["C06"], fn=_b6.run_case, domain=_b6.domain, exhaustive=True, max_failures=100000, max_failures_per_chunk=100000, serial=True,
              label="B3: 15 signatures x 16 call shapes x 6 changers: the rewritten definition and call executed, bindings of surviving parameters compared through the interpreter")
bounded_check(name="c06-projects", props=["C06"], fn=_b6.project_case, domain=_b6.project_domain, exhaustive=True, serial=True,
              label="B3: 5 projects: constructor called from another module, dotted receiver, identical call text bound/unbound, keyword+default method calls, classmethod/staticmethod")

# ---- re-emission of a call from the mapping: ArgumentMapping.to_call_info -----------------------------------------------
record("CallInfoFull", bases=[], fields={"function_name": "Str", "args": "Seq[Opaque[ArgText]]", "keywords": "Seq[Tuple[Str,Opaque[ArgText]]]",
                                         "args_arg": "Opt[Str]", "keywords_arg": "Opt[Str]", "implicit_arg": "Bool", "constructor": "Bool"})
REG.records["CallInfo"].fields.update({"function_name": "Str", "args_arg": "Opt[Str]", "keywords_arg": "Opt[Str]", "implicit_arg": "Bool", "constructor": "Bool"})
contract("CallInfo.__init__", source=M + "CallInfo.__init__", inline=True,
         params={"self": "CallInfo", "function_name": "Str", "args": "Seq[Opaque[ArgText]]", "keywords": "Seq[Tuple[Str,Opaque[ArgText]]]", "args_arg": "Opt[Str]",
                 "keywords_arg": "Opt[Str]", "implicit_arg": "Bool", "constructor": "Bool"})
specdef("bound_in", {"m": "ArgumentMapping", "n": "Str"}, "Bool", "not is_none(select(m.param_dict, n))")
# k = number of leading parameters that have a value: the positional prefix of the re-emitted call
specdef("is_prefix_end", {"m": "ArgumentMapping", "d": "DefinitionInfo", "k": "Int"}, "Bool",
        "0 <= k and k <= len(d.args_with_defaults) and forall(lambda j: implies(0 <= j and j < k, bound_in(m, pname(d, j)))) and "
        "(k == len(d.args_with_defaults) or not bound_in(m, pname(d, k)))")
contract("ArgumentMapping.to_call_info", source=M + "ArgumentMapping.to_call_info",
         params={"self": "ArgumentMapping", "definition_info": "DefinitionInfo"}, returns="CallInfo", ghost_in={"k": "Int"},
         requires=["is_prefix_end(self, definition_info, k)"],
         modifies=["CallInfo.function_name[*]", "CallInfo.args[*]", "CallInfo.keywords[*]", "CallInfo.args_arg[*]", "CallInfo.keywords_arg[*]",
                   "CallInfo.implicit_arg[*]", "CallInfo.constructor[*]"], raises={},
         locals={"args": "Seq[Opaque[ArgText]]", "keywords": "Seq[Tuple[Str,Opaque[ArgText]]]"},
         ensures=[
             # positional part: the values of the leading bound parameters, in order, followed by the surplus positionals
             "len(result.args) == k + len(self.args_arg)",
             "forall(lambda j: implies(0 <= j and j < k, Some(result.args[j]) == select(self.param_dict, pname(definition_info, j))))",
             "forall(lambda j: implies(0 <= j and j < len(self.args_arg), result.args[k + j] == self.args_arg[j]))",
             # keyword part: every emitted keyword names a parameter after the prefix and carries that parameter's value; the kept keywords follow
             "len(result.keywords) >= len(self.keyword_args)",
             "forall(lambda t: implies(0 <= t and t < len(result.keywords) - len(self.keyword_args), "
             "       Some(result.keywords[t][1]) == select(self.param_dict, result.keywords[t][0])))",
             "forall(lambda j: implies(0 <= j and j < len(self.keyword_args), result.keywords[len(result.keywords) - len(self.keyword_args) + j] == self.keyword_args[j]))",
             "result.function_name == self.call_info.function_name and result.args_arg == self.call_info.args_arg and result.keywords_arg == self.call_info.keywords_arg",
             "result.implicit_arg == self.call_info.implicit_arg and result.constructor == self.call_info.constructor",
             # no bound parameter is lost: one after the positional prefix is passed by keyword
             "forall(lambda i: implies(k <= i and i < len(definition_info.args_with_defaults) and bound_in(self, pname(definition_info, i)), "
             "       (pname(definition_info, i), val(select(self.param_dict, pname(definition_info, i)))) in result.keywords))"],
         loops={1: {"index": "a", "inv": ["len(keywords) == 0", "a <= k", "len(args) == a",
                                          "forall(lambda j: implies(0 <= j and j < a, Some(args[j]) == select(self.param_dict, pname(definition_info, j))))"]},
                2: {"index": "b", "inv": ["len(args) == index", "index == k",
                                          "forall(lambda j: implies(0 <= j and j < len(args), Some(args[j]) == select(self.param_dict, pname(definition_info, j))))",
                                          "forall(lambda t: implies(0 <= t and t < len(keywords), Some(keywords[t][1]) == select(self.param_dict, keywords[t][0])))",
                                          "forall(lambda i: implies(k <= i and i < k + b and bound_in(self, pname(definition_info, i)), "
                                          "       (pname(definition_info, i), val(select(self.param_dict, pname(definition_info, i)))) in keywords))"]}},
         note="what is emitted positionally is exactly the bound prefix; what is emitted by keyword is a parameter with its own value (so the re-bound call gives "
              "every parameter the value the mapping holds); surplus positionals after an incomplete prefix are the known finding #23")

# ---- CPython cross-check of the binding contracts on real DefinitionInfo / CallInfo objects ------------------------------------------------
def _xc_map_domain(tier, seed):
    import itertools
    params = [[], ["a"], ["a", "b"], ["a", "b", "c"]]
    for ps in params:
        for npos in range(0, 5):
            args = ["v%d" % i for i in range(npos)]
            free = [p for p in ps[min(npos, len(ps)):]] + ["z"]
            for r in range(0, 3):
                for kws in itertools.permutations(free, r):
                    yield (ps, args, [(k, "k_" + k) for k in kws])


def _xc_map_build(case):
    from rope.refactor import functionutils as fu
    ps, args, kws = case
    d = fu.DefinitionInfo("f", False, [(p, None) for p in ps], None, None)
    c = fu.CallInfo("f", list(args), list(kws), None, None, False, False)
    m = object.__new__(fu.ArgumentMapping)
    return {"self": m, "definition_info": d, "call_info": c, "__dom_Str__": ["a", "b", "c", "z", "q"]}


def _xc_tci_build(case):
    from rope.refactor import functionutils as fu
    ps, args, kws = case
    d = fu.DefinitionInfo("f", False, [(p, None) for p in ps], None, None)
    c = fu.CallInfo("f", list(args), list(kws), None, None, False, False)
    m = fu.ArgumentMapping(d, c)
    k = 0
    while k < len(ps) and ps[k] in m.param_dict:
        k += 1
    return {"self": m, "definition_info": d, "k": k, "__dom_Str__": ["a", "b", "c", "z", "q"]}


REG.records["DefinitionInfo"].pyclass = "rope.refactor.functionutils:DefinitionInfo"
REG.records["CallInfo"].pyclass = "rope.refactor.functionutils:CallInfo"
REG.records["ArgumentMapping"].pyclass = "rope.refactor.functionutils:ArgumentMapping"
bounded_check(name="c06-mapping-native", props=["C06", "C04"], contract="ArgumentMapping.__init__", build=_xc_map_build, domain=_xc_map_domain, exhaustive=True,
              label="CPython cross-check: ArgumentMapping.__init__'s contract on real objects: 0-3 parameters x 0-4 positionals x <= 2 keywords (free parameters and a stranger)")
bounded_check(name="c06-to-call-info-native", props=["C06", "C04"], contract="ArgumentMapping.to_call_info", build=_xc_tci_build, domain=_xc_map_domain, exhaustive=True,
              label="CPython cross-check: to_call_info's contract on the mappings of the same domain (k = the bound prefix, computed natively)")

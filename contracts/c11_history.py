# C10/C11 — rope.base.history.History: list discipline of undo/redo, exceptional posts, dependency search
M = "rope.base.history:"
ghost("tree", "Opaque[Tree]")
ghost("faults", "Int")
record("Change", abstract=True)
record("AnyChange", bases=["Change"])
record("BaseJobSet", abstract=True)
record("AnyJobSet", bases=["BaseJobSet"])
record("BaseTaskHandle", abstract=True)
record("AnyTaskHandle", bases=["BaseTaskHandle"])
record("History", pyclass="rope.base.history:History",
       fields={"_undo_list": "Seq[Change]", "_redo_list": "Seq[Change]", "_maxundos": "Opt[Int]", "current_change": "Opt[Change]"},
       aliases={"undo_list": "_undo_list", "redo_list": "_redo_list"})
constant("taskhandle.DEFAULT_TASK_HANDLE", "BaseTaskHandle")
specfun("apply", ["Change", "Opaque[Tree]"], "Opaque[Tree]")
specfun("unapply", ["Change", "Opaque[Tree]"], "Opaque[Tree]")
axiom("undo_inverts_do", {"c": "Change", "t": "Opaque[Tree]"}, "unapply(c, apply(c, t)) == t", patterns=["apply(c, t)"],
      note="leaf inverse law (C11 file-system model); RemoveResource is the known exception")

LEAF_EXC = {"Exception": {"ensures": ["tree == old(tree)", "old(faults) >= 1", "faults == old(faults) - 1"]}}
contract("Change.do", abstract=True, params={"self": "Change", "job_set": "BaseJobSet"}, modifies=["tree", "faults"],
         ensures=["tree == apply(self, old(tree))", "faults == old(faults)"], raises=LEAF_EXC,
         note="all-or-nothing contract of a (composite) change: established for ChangeSet.do/undo in c10_change.py")
contract("Change.undo", abstract=True, params={"self": "Change", "job_set": "BaseJobSet"}, modifies=["tree", "faults"],
         ensures=["tree == unapply(self, old(tree))", "faults == old(faults)"], raises=LEAF_EXC)
contract("change.create_job_set", abstract=True, params={"task_handle": "BaseTaskHandle", "change": "Change"}, returns="BaseJobSet",
         note="creates a job set and informs observers; no effect on tree or history (rope.base.change.create_job_set -> TaskHandle.create_jobset)")
specfun("interesting", ["History", "Change"], "Bool", note="the change touches at least one resource that is not ignored")
contract("History._is_change_interesting", abstract=True, pure=True, params={"self": "History", "changes": "Change"}, returns="Bool",
         ensures=["result == interesting(self, changes)"])
contract("History.max_undos", abstract=True, is_property=True, pure=True, params={"self": "History"}, returns="Int",
         note="configured limit (prefs lookup)")
specfun("max_undos_of", ["History"], "Int")
REG.contracts["History.max_undos"].ensures = ["result == max_undos_of(self)"]
specdef("kept", {"n": "Int", "m": "Int"}, "Int", "ite(m <= 0, 0, ite(n <= m, n, m))")

contract("History._remove_extra_items", source=M + "History._remove_extra_items", params={"self": "History"},
         modifies=["self._undo_list"],
         ensures=["self._undo_list == old(self._undo_list)[len(old(self._undo_list)) - kept(len(old(self._undo_list)), max_undos_of(self)):len(old(self._undo_list))]",
                  "len(self._undo_list) <= max(max_undos_of(self), 0)"])

contract("History.do", source=M + "History.do", params={"self": "History", "changes": "Change", "task_handle": "BaseTaskHandle"},
         requires=["0 <= faults and faults <= 1"],
         modifies=["tree", "faults", "self._undo_list", "self._redo_list", "self.current_change"],
         ensures=["len(self._redo_list) == 0", "is_none(self.current_change)", "tree == apply(changes, old(tree))",
                  "len(self._undo_list) <= max(max_undos_of(self), 0) or len(self._undo_list) == len(old(self._undo_list))",
                  "forall(lambda k: implies(0 <= k and k < len(self._undo_list), self._undo_list[k] == (old(self._undo_list) + [changes])[k + (len(old(self._undo_list)) + 1 - len(self._undo_list))] or self._undo_list == old(self._undo_list)))",
                  # an uninteresting change (ignored files only) is performed but not recorded; an interesting one is recorded last (if anything is kept)
                  "implies(not interesting(self, changes), self._undo_list == old(self._undo_list))",
                  "implies(interesting(self, changes) and max_undos_of(self) >= 1, len(self._undo_list) >= 1 and self._undo_list[len(self._undo_list) - 1] == changes)"],
         raises={"Exception": {"ensures": ["tree == old(tree)", "self._undo_list == old(self._undo_list)", "self._redo_list == old(self._redo_list)",
                                           "is_none(self.current_change)"]}})

contract("History.clear", source=M + "History.clear", params={"self": "History"}, modifies=["self._undo_list", "self._redo_list"],
         ensures=["len(self._undo_list) == 0", "len(self._redo_list) == 0"])

contract("History._perform_undos", source=M + "History._perform_undos", params={"self": "History", "count": "Int", "task_handle": "BaseTaskHandle"},
         requires=["count == 1", "len(self._undo_list) >= 1", "0 <= faults and faults <= 1"],
         modifies=["tree", "faults", "self._undo_list", "self._redo_list", "self.current_change"],
         ensures=["self._undo_list == old(self._undo_list)[0:len(old(self._undo_list)) - 1]",
                  "self._redo_list == old(self._redo_list) + [old(self._undo_list)[len(old(self._undo_list)) - 1]]",
                  "tree == unapply(old(self._undo_list)[len(old(self._undo_list)) - 1], old(tree))", "is_none(self.current_change)"],
         raises={"Exception": {"ensures": ["tree == old(tree)", "self._undo_list == old(self._undo_list)", "self._redo_list == old(self._redo_list)",
                                           "is_none(self.current_change)"]}},
         loops={1: {"unroll": 1}},
         note="plain undo (count == 1): exact inverse on the lists and the tree; unchanged on failure.  count > 1 (selective undo) is covered by the bounded stand-in only")
contract("History._perform_redos", source=M + "History._perform_redos", params={"self": "History", "count": "Int", "task_handle": "BaseTaskHandle"},
         requires=["count == 1", "len(self._redo_list) >= 1", "0 <= faults and faults <= 1"],
         modifies=["tree", "faults", "self._undo_list", "self._redo_list", "self.current_change"],
         ensures=["self._redo_list == old(self._redo_list)[0:len(old(self._redo_list)) - 1]",
                  "self._undo_list == old(self._undo_list) + [old(self._redo_list)[len(old(self._redo_list)) - 1]]",
                  "tree == apply(old(self._redo_list)[len(old(self._redo_list)) - 1], old(tree))", "is_none(self.current_change)"],
         raises={"Exception": {"ensures": ["tree == old(tree)", "self._undo_list == old(self._undo_list)", "self._redo_list == old(self._redo_list)",
                                           "is_none(self.current_change)"]}},
         loops={1: {"unroll": 1}})

# ---- undo / redo (plain: change is None) ---------------------------------------------------------------
specdef("distinct", {"s": "Seq[Change]"}, "Bool", "forall(lambda a, b: implies(0 <= a and a < b and b < len(s), s[a] != s[b]))")
contract("History._find_dependencies", abstract=True, params={"self": "History", "change_list": "Seq[Change]", "change": "Change"},
         returns="Seq[Change]", requires=["len(change_list) >= 1", "change in change_list"],
         ensures=["len(result) >= 1", "result[0] == change", "len(result) <= len(change_list)",
                  "implies(change == change_list[len(change_list) - 1] and distinct(change_list), result == [change])"],
         note="this very contract is verified from the body in c11_dependencies2.py (index, slice, _FindChangeDependencies.__init__ and __call__)")
contract("History._move_front", source=M + "History._move_front", params={"self": "History", "change_list": "Seq[Change]", "changes": "Seq[Change]"},
         requires=["len(changes) == 1", "len(change_list) >= 1", "changes[0] == change_list[len(change_list) - 1]", "distinct(change_list)"],
         ensures=[], loops={1: {"unroll": 1}}, inline=True,
         note="inlined into undo/redo: moving the single last element to the end leaves the list unchanged (plain undo/redo)")
contract("History.undo", source=M + "History.undo", defaults={"change": "None", "drop": "False"},
         params={"self": "History", "change": "Opt[Change]", "drop": "Bool", "task_handle": "BaseTaskHandle"}, returns="Seq[Change]",
         requires=["is_none(change)", "0 <= faults and faults <= 1", "distinct(self._undo_list)"],
         modifies=["tree", "faults", "self._undo_list", "self._redo_list", "self.current_change"],
         ensures=["len(old(self._undo_list)) >= 1",
                  "self._undo_list == old(self._undo_list)[0:len(old(self._undo_list)) - 1]",
                  "implies(not drop, self._redo_list == old(self._redo_list) + [old(self._undo_list)[len(old(self._undo_list)) - 1]])",
                  "implies(drop, self._redo_list == old(self._redo_list))",
                  "result == [old(self._undo_list)[len(old(self._undo_list)) - 1]]",
                  "tree == unapply(old(self._undo_list)[len(old(self._undo_list)) - 1], old(tree))"],
         raises={"HistoryError": {"when": "len(self._undo_list) == 0",
                                  "ensures": ["tree == old(tree)", "self._undo_list == old(self._undo_list)", "self._redo_list == old(self._redo_list)"]},
                 "Exception": {"ensures": ["tree == old(tree)", "self._undo_list == old(self._undo_list)", "self._redo_list == old(self._redo_list)",
                                           "len(old(self._undo_list)) >= 1"]}})
contract("History.redo", source=M + "History.redo", defaults={"change": "None"},
         params={"self": "History", "change": "Opt[Change]", "task_handle": "BaseTaskHandle"}, returns="Seq[Change]",
         requires=["is_none(change)", "0 <= faults and faults <= 1", "distinct(self._redo_list)"],
         modifies=["tree", "faults", "self._undo_list", "self._redo_list", "self.current_change"],
         ensures=["len(old(self._redo_list)) >= 1",
                  "self._redo_list == old(self._redo_list)[0:len(old(self._redo_list)) - 1]",
                  "self._undo_list == old(self._undo_list) + [old(self._redo_list)[len(old(self._redo_list)) - 1]]",
                  "result == [old(self._redo_list)[len(old(self._redo_list)) - 1]]",
                  "tree == apply(old(self._redo_list)[len(old(self._redo_list)) - 1], old(tree))"],
         raises={"HistoryError": {"when": "len(self._redo_list) == 0",
                                  "ensures": ["tree == old(tree)", "self._undo_list == old(self._undo_list)", "self._redo_list == old(self._redo_list)"]},
                 "Exception": {"ensures": ["tree == old(tree)", "self._undo_list == old(self._undo_list)", "self._redo_list == old(self._redo_list)",
                                           "len(old(self._redo_list)) >= 1"]}})

# redo o undo = identity on lists and tree, undo o redo likewise: lemmas over the two contracts (not over bodies)
lemma("redo_after_undo_is_identity",
      {"h": "History", "c": "Change", "t0": "Opaque[Tree]", "u0": "Seq[Change]", "r0": "Seq[Change]",
       "t1": "Opaque[Tree]", "u1": "Seq[Change]", "r1": "Seq[Change]", "t2": "Opaque[Tree]", "u2": "Seq[Change]", "r2": "Seq[Change]"},
      hyps=["len(u0) >= 1", "c == u0[len(u0) - 1]", "t0 == apply(c, t1) or True",
            # state after undo, as History.undo's postcondition gives it (drop=False)
            "u1 == u0[0:len(u0) - 1]", "r1 == r0 + [c]", "t1 == unapply(c, t0)",
            # state after redo, as History.redo's postcondition gives it
            "u2 == u1 + [r1[len(r1) - 1]]", "r2 == r1[0:len(r1) - 1]", "t2 == apply(r1[len(r1) - 1], t1)",
            # the tree before the undo is the post-state of c (c was performed last)
            "exists(lambda tb: t0 == apply(c, tb), 'Opaque[Tree]')"],
      goal="u2 == u0 and r2 == r0 and t2 == t0",
      note="undo followed by redo restores both lists and the tree")

# ---- bounded stand-in (B3): real histories on a real temp project -----------------------------------
from bounded import c11_histories
bounded_check(name="c11-histories", props=["C11"], fn=c11_histories.run_seq, domain=c11_histories.domain, exhaustive=True,
              label="B3: every applicable sequence of <= 3 (thorough: <= 4) distinct changes out of 11 (edits, file move, folder move, creations, nested "
                    "edits); plain undo/redo against recorded snapshots; selective undo at every index x drop in {False, True} against the reference "
                    "dependency closure and a replay of the remaining changes on a fresh project")

# ---- CPython cross-check of the trimming contract on a real History ------------------------------------------------------------------------
def _xc_trim_domain(tier, seed):
    for n in range(0, 7):
        for m in range(-1, 8):
            yield (n, m)


def _xc_trim_build(case):
    from rope.base.history import History
    n, m = case
    h = object.__new__(History)
    h._undo_list = ["c%d" % i for i in range(n)]
    h._redo_list = []
    h._maxundos = m
    h.current_change = None
    return {"self": h}


bounded_check(name="c11-trim-native", props=["C11", "C10"], contract="History._remove_extra_items", build=_xc_trim_build, domain=_xc_trim_domain, exhaustive=True,
              env={"max_undos_of": lambda h: h.max_undos},
              label="CPython cross-check: _remove_extra_items' contract on a real History: 0-6 recorded changes x limit -1..7 (limit 0 keeps nothing)")

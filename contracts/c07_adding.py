# C04/C05/C07 — adding `import x` / `import x.y` to a module that already has imports: rope.refactor.importutils.actions.AddingVisitor.visitNormalImport
# After the visitor answers True the caller adds NO new statement: the statement visited (possibly replaced) must then provide what the new import binds.
M = "rope.refactor.importutils.actions:"
NA = "Seq[Tuple[Str,Opt[Str]]]"
record("ImportInfo", abstract=True, fields={"names_and_aliases": NA})
record("NormalImport", bases=["ImportInfo"])
record("FromImport", bases=["ImportInfo"])
record("ImportStatement", fields={"import_info": "ImportInfo"})
record("AddingVisitor", fields={"import_info": "ImportInfo"})
contract("ImportInfo._are_name_and_alias_lists_equal", source="rope.refactor.importutils.importinfo:ImportInfo._are_name_and_alias_lists_equal",
         params={"self": "ImportInfo", "list1": NA, "list2": NA}, returns="Bool", modifies=[], raises={},
         ensures=["result == (len(list1) == len(list2) and forall(lambda k: implies(0 <= k and k < len(list1), list1[k] == list2[k])))"],
         loops={1: {"index": "i", "inv": ["len(list1) == len(list2)", "forall(lambda k: implies(0 <= k and k < i, list1[k] == list2[k]))"]}},
         note="element-wise equality of two (name, alias) lists")
# a single un-aliased `import p` makes the dotted name q usable iff q is p or a prefix package of p
specdef("provides", {"p": "Str", "q": "Str"}, "Bool", "p == q or p.startswith(q + '.')")
specdef("single_plain", {"i": "ImportInfo"}, "Bool", "len(i.names_and_aliases) == 1 and is_none(i.names_and_aliases[0][1])")
contract("AddingVisitor.visitNormalImport", source=M + "AddingVisitor.visitNormalImport",
         params={"self": "AddingVisitor", "import_stmt": "ImportStatement", "import_info": "ImportInfo"}, returns="Opt[Bool]",
         requires=["import_stmt.import_info == import_info"],
         modifies=["import_stmt.import_info"], raises={},
         ensures=[
             # "already there" is only ever answered for two plain `import` statements
             "implies(not is_none(result) and val(result), class_of(self.import_info) == class_of(import_info))",
             # ... and then the statement, as it stands afterwards, provides the name the added import binds: either the very same (name, alias) list,
             # or two single un-aliased imports one of which is a sub-module of the other (the longer one stays)
             "implies(not is_none(result) and val(result), "
             "        (len(import_stmt.import_info.names_and_aliases) == len(self.import_info.names_and_aliases) and "
             "         forall(lambda k: implies(0 <= k and k < len(self.import_info.names_and_aliases), import_stmt.import_info.names_and_aliases[k] == self.import_info.names_and_aliases[k]))) or "
             "        (single_plain(import_stmt.import_info) and single_plain(self.import_info) and "
             "         provides(import_stmt.import_info.names_and_aliases[0][0], self.import_info.names_and_aliases[0][0])))",
             # what the statement provided before, it still provides
             "implies(import_stmt.import_info != import_info, single_plain(import_info) and single_plain(import_stmt.import_info) and "
             "        provides(import_stmt.import_info.names_and_aliases[0][0], import_info.names_and_aliases[0][0]))",
             "implies(is_none(result) or not val(result), import_stmt.import_info == import_info)",
             # and it IS answered whenever that is the case (otherwise the caller would add a second, redundant statement)
             "implies(class_of(self.import_info) == class_of(import_info) and "
             "        ((len(import_info.names_and_aliases) == len(self.import_info.names_and_aliases) and "
             "          forall(lambda k: implies(0 <= k and k < len(import_info.names_and_aliases), import_info.names_and_aliases[k] == self.import_info.names_and_aliases[k]))) or "
             "         (single_plain(old(import_info)) and single_plain(self.import_info) and "
             "          (old(import_info.names_and_aliases)[0][0].startswith(self.import_info.names_and_aliases[0][0] + '.') or "
             "           self.import_info.names_and_aliases[0][0].startswith(old(import_info.names_and_aliases)[0][0] + '.')))), "
             "        not is_none(result) and val(result))"],
         note="`import pkg` is covered by an existing `import pkg.mod` and vice versa (the longer one stays) -- but `import ab` does not cover `import a`, and an "
              "aliased `import pkg.mod as m` covers nothing but itself (the import_info property setter is modelled as a plain field store)")

# ---- adding `from m import a, b` to a module that already has `from m import ...` ---------------------------------------------------
REG.records["ImportInfo"].fields.update({"module_name": "Str", "level": "Int"})   # (FromImport's fields, declared on the base: read only behind the same-class test)
record("Prefs", fields={})
record("Project", fields={"prefs": "Prefs"})
REG.records["AddingVisitor"].fields.update({"project": "Project"})
specfun("star", ["ImportInfo"], "Bool", note="import_info.is_star_import()")
specfun("split_imports", ["Prefs"], "Bool", note="prefs.get('split_imports')")
contract("ImportInfo.is_star_import", abstract=True, pure=True, heap_independent=True, params={"self": "ImportInfo"}, returns="Bool", ensures=["result == star(self)"])
contract("Prefs.get", abstract=True, pure=True, heap_independent=True, params={"self": "Prefs", "key": "Str"}, returns="Bool",
         ensures=["implies(key == 'split_imports', result == split_imports(self))"])
contract("importinfo.FromImport", abstract=True, params={"module_name": "Str", "level": "Int", "names_and_aliases": NA}, returns="FromImport",
         modifies=["ImportInfo.module_name[*]", "ImportInfo.level[*]", "ImportInfo.names_and_aliases[*]"],
         ensures=["result.module_name == module_name", "result.level == level", "result.names_and_aliases == names_and_aliases",
                  "forall(lambda o: implies(o != result, o.names_and_aliases == old(o.names_and_aliases) and o.module_name == old(o.module_name) and o.level == old(o.level)), 'ImportInfo')"],
         note="FromImport.__init__ stores its three arguments (a fresh object: nothing else changes)")
specdef("has_pair", {"s": NA, "x": "Tuple[Str,Opt[Str]]"}, "Bool", "exists(lambda k: 0 <= k and k < len(s) and s[k] == x)")
contract("AddingVisitor.visitFromImport", source=M + "AddingVisitor.visitFromImport",
         params={"self": "AddingVisitor", "import_stmt": "ImportStatement", "import_info": "FromImport"}, returns="Opt[Bool]",
         requires=["import_stmt.import_info == import_info", "isinstance(self.import_info, FromImport)"],
         modifies=["import_stmt.import_info", "ImportInfo.module_name[*]", "ImportInfo.level[*]", "ImportInfo.names_and_aliases[*]"], raises={},
         locals={"new_pairs": NA},
         ensures=[
             # "merged into this statement" is only answered for a from-import of the same module at the same level
             "implies(not is_none(result) and val(result), self.import_info.module_name == old(import_info.module_name) and self.import_info.level == old(import_info.level))",
             # and then the statement, as it stands afterwards, imports from that module and covers every (name, alias) the added import asks for
             # (a star import on either side covers everything; with split_imports only an identical list counts)
             "implies(not is_none(result) and val(result), import_stmt.import_info.names_and_aliases == import_stmt.import_info.names_and_aliases and "
             "        (star(old(import_info)) or import_stmt.import_info == self.import_info or "
             "         forall(lambda k: implies(0 <= k and k < len(self.import_info.names_and_aliases), "
             "                self.import_info.names_and_aliases[k] in import_stmt.import_info.names_and_aliases))))",
             # what it imported before, it still imports, in the same order at the front
             "implies(not is_none(result) and val(result) and not star(self.import_info) and not star(old(import_info)), "
             "        forall(lambda k: implies(0 <= k and k < len(old(import_info.names_and_aliases)), "
             "               import_stmt.import_info.names_and_aliases[k] == old(import_info.names_and_aliases)[k])))",
             "implies(is_none(result) or not val(result), import_stmt.import_info == import_info)",
             # a from-import of the same module at the same level IS merged (with split_imports: only an identical list counts as already there)
             "implies(self.import_info.module_name == old(import_info.module_name) and self.import_info.level == old(import_info.level) and "
             "        (star(old(import_info)) or star(self.import_info) or not split_imports(self.project.prefs)), not is_none(result) and val(result))",
             "implies(self.import_info.module_name == old(import_info.module_name) and self.import_info.level == old(import_info.level) and "
             "        not star(old(import_info)) and not star(self.import_info) and split_imports(self.project.prefs), "
             "        not is_none(result) and val(result) == (self.import_info.names_and_aliases == old(import_info.names_and_aliases)))"],
         loops={1: {"index": "i", "inv": [
             "len(new_pairs) >= len(import_info.names_and_aliases)",
             "forall(lambda k: implies(0 <= k and k < len(import_info.names_and_aliases), new_pairs[k] == import_info.names_and_aliases[k]))",
             "forall(lambda k: implies(0 <= k and k < i, self.import_info.names_and_aliases[k] in new_pairs))",
             "import_stmt.import_info == import_info"]}},
         note="the names asked for are appended to the names already imported, none twice, none lost")

# ---- which file a from-import names: FromImport.get_imported_resource ----------------------------------------------------------------------
I = "rope.refactor.importutils.importinfo:"
record("Folder", fields={})
record("ImportContext", fields={"project": "Project", "folder": "Folder"})
record("ResourceX", fields={})
specfun("abs_module", ["Project", "Str", "Folder"], "Opt[ResourceX]", note="project.find_module(name, folder=folder): absolute module search (source folders, then the folder)")
specfun("rel_module", ["Project", "Str", "Folder", "Int"], "Opt[ResourceX]", note="project.find_relative_module(name, folder, level): resolved from the importing package only")
contract("Project.find_module", abstract=True, pure=True, heap_independent=True, params={"self": "Project", "modname": "Str", "folder": "Folder"}, returns="Opt[ResourceX]",
         ensures=["result == abs_module(self, modname, folder)"])
contract("Project.find_relative_module", abstract=True, pure=True, heap_independent=True, params={"self": "Project", "modname": "Str", "folder": "Folder", "level": "Int"},
         returns="Opt[ResourceX]", ensures=["result == rel_module(self, modname, folder, level)"])
contract("FromImport.get_imported_resource", source=I + "FromImport.get_imported_resource", params={"self": "FromImport", "context": "ImportContext"},
         returns="Opt[ResourceX]", modifies=[], raises={},
         ensures=["implies(self.level == 0, result == abs_module(context.project, self.module_name, context.folder))",
                  # an explicit relative import is resolved from its own package and never through the global module search
                  "implies(self.level != 0, result == rel_module(context.project, self.module_name, context.folder, self.level))"],
         note="`from .utils import x` names pkg/utils.py even when a top-level utils.py exists")

# ---- CPython cross-check of the two AddingVisitor contracts on real import objects ---------------------------------------------------------
class _XcPrefs(dict):
    pass


class _XcProject:
    def __init__(self, split):
        self.prefs = _XcPrefs(split_imports=split)


def _xc_add_domain(tier, seed):
    import itertools
    normal = [[("a", None)], [("a.b", None)], [("ab", None)], [("a.b", "x")], [("a", "x")], [("a", None), ("c", None)], [("a.b.c", None)]]
    for old in normal:
        for new in normal:
            yield ("normal", old, new, False)
    pairs = [[("n", None)], [("n", "al")], [("m", None), ("n", None)], [("*", None)], [("n", None), ("n", "al")]]
    for old in pairs:
        for new in pairs:
            for mod2, lvl2 in (("helpers", 0), ("other", 0), ("helpers", 1)):
                for split in (False, True):
                    yield ("from", old, new, (mod2, lvl2, split))
    for old in normal[:3]:
        yield ("mixed", old, pairs[0], False)


def _xc_add_build(case):
    from rope.refactor.importutils import importinfo, actions
    kind, old, new, extra = case
    if kind == "normal":
        oi, ni = importinfo.NormalImport(list(old)), importinfo.NormalImport(list(new))
        proj = _XcProject(False)
    elif kind == "from":
        mod2, lvl2, split = extra
        oi, ni = importinfo.FromImport("helpers", 0, list(old)), importinfo.FromImport(mod2, lvl2, list(new))
        proj = _XcProject(split)
    else:
        oi, ni = importinfo.NormalImport(list(old)), importinfo.FromImport("helpers", 0, list(new))
        proj = _XcProject(False)
    stmt = importinfo.ImportStatement(oi, 1, 2)
    v = actions.AddingVisitor(proj, [ni])
    v.import_info = ni
    return {"self": v, "import_stmt": stmt, "import_info": oi}


_XC_ADD_ENV = {"star": lambda i: i.is_star_import(), "split_imports": lambda prefs: bool(prefs.get("split_imports"))}
REG.records["NormalImport"].pyclass = "rope.refactor.importutils.importinfo:NormalImport"
REG.records["FromImport"].pyclass = "rope.refactor.importutils.importinfo:FromImport"
bounded_check(name="c07-adding-normal-native", props=["C04", "C05", "C07"], contract="AddingVisitor.visitNormalImport",
              build=lambda c: _xc_add_build(c), domain=lambda t, s: [c for c in _xc_add_domain(t, s) if c[0] != "from"], exhaustive=True, env=_XC_ADD_ENV,
              label="CPython cross-check: visitNormalImport's contract on real NormalImport/FromImport objects, 7 x 7 (name, alias) lists")
bounded_check(name="c07-adding-from-native", props=["C04", "C05", "C07"], contract="AddingVisitor.visitFromImport",
              build=lambda c: _xc_add_build(c), domain=lambda t, s: [c for c in _xc_add_domain(t, s) if c[0] == "from"], exhaustive=True, env=_XC_ADD_ENV,
              label="CPython cross-check: visitFromImport's contract on real FromImport objects: 5 x 5 name lists x same/other module/level x split_imports")

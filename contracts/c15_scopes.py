# C15 — parameter names of every kind; name lookup through the scope chain (LEGB with class scopes skipped)
M = "rope.base.pyobjectsdef:"
S = "rope.base.pyscopes:"
record("arg", fields={"arg": "Str"}, pyclass="ast:arg")
record("Arguments", fields={"posonlyargs": "Seq[arg]", "args": "Seq[arg]", "vararg": "Opt[arg]", "kwonlyargs": "Seq[arg]", "kwarg": "Opt[arg]"})
record("PyFunction", fields={"arguments": "Arguments"})

specdef("n_pos", {"a": "Arguments"}, "Int", "len(a.posonlyargs) + len(a.args)")
contract("PyFunction.get_param_names", source=M + "PyFunction.get_param_names", params={"self": "PyFunction", "special_args": "Bool"}, defaults={"special_args": "True"}, returns="Seq[Str]",
         modifies=[], raises={},
         ensures=[
             "len(result) == n_pos(self.arguments) + len(self.arguments.kwonlyargs) + ite(special_args and not is_none(self.arguments.vararg), 1, 0) + ite(special_args and not is_none(self.arguments.kwarg), 1, 0)",
             "forall(lambda k: implies(0 <= k and k < len(self.arguments.posonlyargs), result[k] == self.arguments.posonlyargs[k].arg))",
             "forall(lambda k: implies(0 <= k and k < len(self.arguments.args), result[len(self.arguments.posonlyargs) + k] == self.arguments.args[k].arg))",
             "implies(special_args and not is_none(self.arguments.vararg), result[n_pos(self.arguments)] == val(self.arguments.vararg).arg)",
             "forall(lambda k: implies(0 <= k and k < len(self.arguments.kwonlyargs), "
             "       result[n_pos(self.arguments) + ite(special_args and not is_none(self.arguments.vararg), 1, 0) + k] == self.arguments.kwonlyargs[k].arg))",
             "implies(special_args and not is_none(self.arguments.kwarg), result[len(result) - 1] == val(self.arguments.kwarg).arg)"],
         loops={1: {"index": "i", "elem": "Str", "inv": ["len(_comp) == i", "forall(lambda k: implies(0 <= k and k < i, _comp[k] == positional[k].arg))"]},
                2: {"index": "i", "elem": "Str", "inv": ["len(_comp) == i", "forall(lambda k: implies(0 <= k and k < i, _comp[k] == self.arguments.kwonlyargs[k].arg))"]}},
         note="every parameter the interpreter's symbol table binds: positional-only, positional-or-keyword, *args, keyword-only, **kwargs, in definition order")

# ---- LEGB ---------------------------------------------------------------------------------------------------------
record("PyName", fields={})
record("Scope", abstract=True, fields={"parent": "Opt[Scope]"})
record("PlainScope", bases=["Scope"])          # GlobalScope / FunctionScope / ComprehensionScope: get_propagated_names == get_names
record("ClassScope", bases=["Scope"])
specfun("names_of", ["Scope"], "Map[Str,PyName]", note="the scope's own name table (get_names()); fixed during a lookup")
specfun("legb", ["Scope", "Str"], "Opt[PyName]", note="binding of a name as seen from scopes nested in this one: own table unless this is a class scope, else the parent's")
specdef("bound_here", {"s": "Scope", "n": "Str"}, "Bool", "not is_none(select(names_of(s), n))")
axiom("legb_here", {"s": "Scope", "n": "Str"},
      "implies(not isinstance(s, ClassScope) and bound_here(s, n), legb(s, n) == select(names_of(s), n))", patterns=["legb(s, n)"])
axiom("legb_top", {"s": "Scope", "n": "Str"},
      "implies((isinstance(s, ClassScope) or not bound_here(s, n)) and is_none(s.parent), is_none(legb(s, n)))", patterns=["legb(s, n)"])
axiom("legb_up", {"s": "Scope", "n": "Str"},
      "implies((isinstance(s, ClassScope) or not bound_here(s, n)) and not is_none(s.parent), legb(s, n) == legb(val(s.parent), n))", patterns=["legb(s, n)"],
      note="the three axioms define legb by recursion over the parent chain: Python's rule that class bodies are skipped by nested scopes")
contract("Scope.get_names", abstract=True, pure=True, heap_independent=True, params={"self": "Scope"}, returns="Map[Str,PyName]",
         ensures=["result == names_of(self)"], note="the scope's name table (built by the scope visitors; C15 bounded stand-in compares it with symtable)")
contract("Scope.get_propagated_names", source=S + "Scope.get_propagated_names", inline=True, params={"self": "Scope"}, returns="Map[Str,PyName]")
contract("ClassScope.get_propagated_names", source=S + "ClassScope.get_propagated_names", inline=True, params={"self": "ClassScope"}, returns="Map[Str,PyName]")
contract("Scope._propagated_lookup", source=S + "Scope._propagated_lookup", params={"self": "Scope", "name": "Str"}, returns="Opt[PyName]",
         modifies=[], raises={}, ensures=["result == legb(self, name)"],
         note="recursion verified against the function's own contract (induction over the parent chain; termination = finiteness of the chain, assumed)")
contract("Scope.lookup", source=S + "Scope.lookup", params={"self": "Scope", "name": "Str"}, returns="Opt[PyName]",
         modifies=[], raises={},
         ensures=["implies(bound_here(self, name), result == select(names_of(self), name))",
                  "implies(not bound_here(self, name) and is_none(self.parent), is_none(result))",
                  "implies(not bound_here(self, name) and not is_none(self.parent), result == legb(val(self.parent), name))"],
         note="the starting scope's own table counts even for a class scope; enclosing class scopes are skipped")

from bounded import c15_symtable as _b15
bounded_check(name="c15-symtable", fn=_b15.run_case, domain=_b15.domain, exhaustive=True, serial=True,
              label="B3: 42 binding constructs (every assignment form, every parameter kind, imports, definitions, for/with/except/walrus targets, "
                    "global, match captures, del, type alias, lambda/comprehension targets) x 5 contexts (module, function, class, method, nested "
                    "function with nonlocal): scopes, first lines and names per scope against symtable (corrected for PEP 709), nonlocal resolution")
bounded_check(name="c15-lookup", fn=_b15.lookup_case, domain=_b15.lookup_domain, exhaustive=True, serial=True,
              label="B3: all 128 three-deep nestings of function/class scopes x which levels bind x: lookup('x') from every level against LEGB with class scopes skipped")
bounded_check(name="c15-extents", fn=_b15.extent_case, domain=_b15.extent_domain, exhaustive=True, serial=True,
              label="B3: 10 snippets (one-line defs with continued bodies, decorated defs outside classes, async, conditional defs): scope line extents vs ast, definitions recorded in their holding scope")

# C02 — whole-word textual search is exact: rope.refactor.occurrences._TextualFinder._normal_search
M = "rope.refactor.occurrences:"
record("_TextualFinder", fields={"name": "Str"})
specdef("isid", {"c": "Str"}, "Bool", "c.isalnum() or c == '_'")
specdef("occ", {"src": "Str", "name": "Str", "p": "Int"}, "Bool", "0 <= p and p + len(name) <= len(src) and src[p:p + len(name)] == name")
specdef("W", {"src": "Str", "name": "Str", "p": "Int"}, "Bool",
        "occ(src, name, p) and (p == 0 or not isid(src[p - 1])) and (p + len(name) == len(src) or not isid(src[p + len(name)]))")
specfun("name_ids", ["Str"], "Bool", note="every character of the name is an identifier character (names searched for are identifiers)")
axiom("name_ids_def", {"name": "Str", "t": "Int"}, "implies(name_ids(name) and 0 <= t and t < len(name), isid(name[t]))", strmode="intseq")

lemma("occ_chars_are_id_chars", {"src": "Str", "name": "Str", "q": "Int", "t": "Int"},
      ["name_ids(name)", "occ(src, name, q)", "q <= t and t < q + len(name)"], "isid(src[t])",
      hints=["name[t - q]", "src[q:q + len(name)][t - q]"], export=True, strmode="intseq", patterns=[["src[t].isalnum()", "src[q:q + len(name)]"]],
      note="every character covered by an occurrence of an all-identifier-character name is an identifier character "
           "(why `current = found + len(name)` skips no whole-word occurrence: one starting inside an occurrence has an identifier character on its left)")

contract("_TextualFinder._is_id_char", source=M + "_TextualFinder._is_id_char", inline=True, params={"self": "_TextualFinder", "c": "Str"}, returns="Bool")
contract("_TextualFinder._normal_search", source=M + "_TextualFinder._normal_search", strmode="intseq", params={"self": "_TextualFinder", "source": "Str"}, returns="Seq[Int]",
         requires=["len(self.name) >= 1", "name_ids(self.name)"], modifies=[], raises={},
         ensures=["forall(lambda a, b: implies(0 <= a and a < b and b < len(result), result[a] < result[b]))",
                  "forall(lambda k: implies(0 <= k and k < len(result), W(source, self.name, result[k])))",
                  # completeness, stated by gaps: no whole-word occurrence before the first, between consecutive, or after the last yielded offset
                  "forall(lambda p: implies(0 <= p and (len(result) == 0 or p > result[len(result) - 1]), not W(source, self.name, p)))",
                  "forall(lambda k, p: implies(0 <= k and k < len(result) - 1 and result[k] < p and p < result[k + 1], not W(source, self.name, p)))",
                  "forall(lambda p: implies(len(result) > 0 and 0 <= p and p < result[0], not W(source, self.name, p)))"],
         loops={1: {"decreases": "len(source) - current",
                    "inv": ["0 <= current and current <= len(source)",
                            "forall(lambda a, b: implies(0 <= a and a < b and b < len(_yielded), _yielded[a] < _yielded[b]))",
                            "forall(lambda k: implies(0 <= k and k < len(_yielded), W(source, self.name, _yielded[k]) and _yielded[k] + len(self.name) <= current))",
                            "forall(lambda p: implies(0 <= p and p < current and (len(_yielded) == 0 or p > _yielded[len(_yielded) - 1]), not W(source, self.name, p)))",
                            "forall(lambda k, p: implies(0 <= k and k < len(_yielded) - 1 and _yielded[k] < p and p < _yielded[k + 1], not W(source, self.name, p)))",
                            "forall(lambda p: implies(len(_yielded) > 0 and 0 <= p and p < _yielded[0], not W(source, self.name, p)))"]}},
         note="the yielded offsets are exactly the whole-word occurrences of the name, strictly increasing")

from bounded import c02_binder as _bb, c01_projects as _bp
bounded_check(name="c02-find-binder", props=["C02"], fn=_bb.find_case, domain=_bb.domain, exhaustive=True,
              label="B3: 30 single-module programs (one per scoping feature): find_occurrences at every token of every binding against the reference binder")
bounded_check(name="c02-projects", props=["C02"], fn=_bp.run_case, domain=_bp.domain, exhaustive=True,
              label="B3: 9 multi-module projects: occurrence sets independent of the query point; rename from every occurrence keeps the output")

# ---- CPython cross-check: the whole-word contract evaluated on the real generator ---------------------------------------------------------
def _xc_ns_domain(tier, seed):
    import itertools
    alphabet = "ab_ ." if tier != "thorough" else "ab_ .1"
    for n in range(0, 7 if tier != "thorough" else 7):
        for t in itertools.product(alphabet, repeat=n):
            s = "".join(t)
            for name in ("a", "ab", "a_", "aa"):
                if n >= 6 and hash((s, name)) % 4:
                    continue
                yield (s, name)


def _xc_ns_build(case):
    from rope.refactor import occurrences
    src, name = case
    f = object.__new__(occurrences._TextualFinder)
    f.name = name
    return {"self": f, "source": src}


_XC_NAT = {}


def _xc_ns_run(case):
    """the generator is consumed into a list: the contract's `result` is the sequence of yielded offsets"""
    from pyvc import nativecheck, native
    inputs = _xc_ns_build(case)
    c = REG.contracts["_TextualFinder._normal_search"]
    nat = _XC_NAT.get("nat")
    if nat is None:
        nat = _XC_NAT["nat"] = native.NativeSpec(REG, {"name_ids": lambda n: all(ch.isalnum() or ch == "_" for ch in n)})
    return nativecheck.run_contract(REG, c, nat, inputs, fn=lambda self, source: list(type(self)._normal_search(self, source)))


bounded_check(name="c02-normal-search-native", props=["C01", "C02"], fn=_xc_ns_run, domain=_xc_ns_domain, exhaustive=True,
              label="CPython cross-check: _normal_search's contract (exactly the whole-word occurrences, increasing, none missing) on every text of <= 5 "
                    "(a quarter of those of 6) characters over {a,b,_,space,.} x 4 names")

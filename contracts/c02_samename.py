# C01/C02 — when are two resolved names "the same definition": rope.refactor.occurrences.same_pyname
M = "rope.refactor.occurrences:"
record("PyName", abstract=True)
record("ImportedModule", bases=["PyName"])
record("ImportedName", bases=["PyName"])
record("DefinedName", bases=["PyName"], )
specfun("defloc", ["PyName"], "Opaque[Loc]", note="pyname.get_definition_location(): (module, line)")
specfun("obj_of", ["PyName"], "Opaque[Obj]", note="pyname.get_object()")
contract("PyName.get_definition_location", abstract=True, pure=True, heap_independent=True, params={"self": "PyName"}, returns="Opaque[Loc]",
         ensures=["result == defloc(self)"])
contract("PyName.get_object", abstract=True, pure=True, heap_independent=True, params={"self": "PyName"}, returns="Opaque[Obj]",
         ensures=["result == obj_of(self)"])
specdef("imported", {"p": "PyName"}, "Bool", "isinstance(p, ImportedModule) or isinstance(p, ImportedName)")
contract("same_pyname", source=M + "same_pyname", params={"expected": "Opt[PyName]", "pyname": "Opt[PyName]"}, returns="Bool", modifies=[], raises={},
         ensures=[
             # nothing is the same as an unresolved name
             "implies(is_none(expected) or is_none(pyname), not result)",
             # the very same binding object: always; otherwise only through an import, and then the place of definition AND the object denoted must agree
             "implies(not is_none(expected) and not is_none(pyname), result == (val(expected) == val(pyname) or "
             "        ((imported(val(expected)) or imported(val(pyname))) and defloc(val(expected)) == defloc(val(pyname)) and obj_of(val(expected)) == obj_of(val(pyname)))))"],
         note="two distinct non-import bindings are never the same definition, even at one location (re-assignment on one line); an imported name is the same "
              "as what it resolves to only if both the definition location and the denoted object agree")

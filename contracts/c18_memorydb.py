# C18 — MemoryDB._load_files is safe on "None or a complete saved value"
M = "rope.base.oi.memorydb:"
record("_DataFiles", fields={})
record("Project", fields={"data_files": "_DataFiles"})
record("MemoryDB", fields={"_files": "Map[Str,Opaque[FileInfo]]", "project": "Project"})
contract("MemoryDB.persist", abstract=True, is_property=True, pure=True, params={"self": "MemoryDB"}, returns="Bool")
contract("_DataFiles.read_data", abstract=True, params={"self": "_DataFiles", "name": "Str"}, returns="Opt[Map[Str,Opaque[FileInfo]]]",
         note="None or the complete dict last written by MemoryDB.write (c18_datafiles.py)")
contract("_DataFiles.write_data", abstract=True, params={"self": "_DataFiles", "name": "Str", "data": "Map[Str,Opaque[FileInfo]]"})
contract("MemoryDB._load_files", source=M + "MemoryDB._load_files", params={"self": "MemoryDB"}, modifies=["self._files"], raises={},
         note="no exception for None or a complete value")
contract("MemoryDB.write", source=M + "MemoryDB.write", params={"self": "MemoryDB"}, modifies=[], raises={},
         note="saves exactly the in-memory dict")

# C18 — MemoryDB._load_files is safe on "None or a complete saved value"
M = "rope.base.oi.memorydb:"
record("_DataFiles", fields={})
record("Project", fields={"data_files": "_DataFiles"})
record("MemoryDB", fields={"_files": "Map[Str,Opaque[FileInfo]]", "project": "Project"})
contract("MemoryDB.persist", abstract=True, is_property=True, pure=True, heap_independent=True, params={"self": "MemoryDB"}, returns="Bool")
specfun("stored", ["_DataFiles", "Str"], "Opt[Map[Str,Opaque[FileInfo]]]", note="what read_data answers for that name: None or the complete saved dict")
ghost("saved", "Map[Str,Opaque[FileInfo]]")
ghost("saved_name", "Str")
ghost("writes", "Int")
contract("_DataFiles.read_data", abstract=True, params={"self": "_DataFiles", "name": "Str"}, returns="Opt[Map[Str,Opaque[FileInfo]]]",
         ensures=["result == stored(self, name)"],
         note="None or the complete dict last written by MemoryDB.write (c18_datafiles.py)")
contract("_DataFiles.write_data", abstract=True, params={"self": "_DataFiles", "name": "Str", "data": "Map[Str,Opaque[FileInfo]]"},
         modifies=["saved", "saved_name", "writes"], ensures=["saved == data", "saved_name == name", "writes == old(writes) + 1"])
contract("MemoryDB._load_files", source=M + "MemoryDB._load_files", params={"self": "MemoryDB"}, modifies=["self._files"], raises={},
         ensures=["implies(self.persist and not is_none(stored(self.project.data_files, 'objectdb')), self._files == val(stored(self.project.data_files, 'objectdb')))",
                  "implies(not self.persist or is_none(stored(self.project.data_files, 'objectdb')), forall(lambda k: not (k in self._files), 'Str'))"],
         note="no exception for None or a complete value; the dict is the saved one, else empty")
contract("MemoryDB.write", source=M + "MemoryDB.write", params={"self": "MemoryDB"}, modifies=["saved", "saved_name", "writes"], raises={},
         ensures=["implies(self.persist, saved == self._files and saved_name == 'objectdb' and writes == old(writes) + 1)",
                  "implies(not self.persist, writes == old(writes))"],
         note="saves exactly the in-memory dict under the name the loader reads, or nothing when persistence is off")

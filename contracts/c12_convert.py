# C12 — change <-> data conversion (rope.base.change.ChangeToData / DataToChange): what is saved is what is reloaded
M = "rope.base.change:"
R = "rope.base.resources:"
P = "rope.base.project:"
record("Project", fields={})
record("Resource", abstract=True, fields={"project": "Project", "_path": "Str"})
record("File", bases=["Resource"])
record("Folder", bases=["Resource"])
record("Change", abstract=True)
record("ChangeContents", bases=["Change"], fields={"resource": "Resource", "new_contents": "Str", "old_contents": "Opt[Str]"})
record("MoveResource", bases=["Change"], fields={"project": "Project", "resource": "Resource", "new_resource": "Resource"})
record("CreateResource", bases=["Change"], fields={"resource": "Resource"})
record("RemoveResource", bases=["Change"], fields={"resource": "Resource"})
record("ChangeToData", fields={})
record("DataToChange", fields={"project": "Project"})

contract("Resource.path", source=R + "Resource.path", inline=True, is_property=True, params={"self": "Resource"}, returns="Str")
contract("File.is_folder", source=R + "File.is_folder", inline=True, params={"self": "File"}, returns="Bool", ensures=["not result"])
contract("Folder.is_folder", source=R + "Folder.is_folder", inline=True, params={"self": "Folder"}, returns="Bool", ensures=["result"])
contract("Resource.__init__", source=R + "Resource.__init__", inline=True, params={"self": "Resource", "project": "Project", "path": "Str"})
contract("Project.get_file", source="rope.base.project:_Project.get_file", inline=True, params={"self": "Project", "path": "Str"}, returns="File")
contract("Project.get_folder", source="rope.base.project:_Project.get_folder", inline=True, params={"self": "Project", "path": "Str"}, returns="Folder")
contract("ChangeContents.__init__", source=M + "ChangeContents.__init__", inline=True,
         params={"self": "ChangeContents", "resource": "Resource", "new_contents": "Str", "old_contents": "Opt[Str]"}, defaults={"old_contents": "None"})
contract("CreateResource.__init__", source=M + "CreateResource.__init__", inline=True, params={"self": "CreateResource", "resource": "Resource"})
contract("RemoveResource.__init__", source=M + "RemoveResource.__init__", inline=True, params={"self": "RemoveResource", "resource": "Resource"})
specfun("abs_path", ["Project", "Str"], "Str", note="project._get_resource_path(name)")
specfun("is_dir", ["Str"], "Bool", note="os.path.isdir at the time of the call")
specfun("name_of", ["Resource"], "Str", note="resource.name: last component of the path")
contract("Project._get_resource_path", abstract=True, pure=True, heap_independent=True, params={"self": "Project", "name": "Str"}, returns="Str", ensures=["result == abs_path(self, name)"])
contract("os.path.isdir", external=True, pure=True, params={"path": "Str"}, returns="Bool", ensures=["result == is_dir(path)"])
contract("Resource.name", abstract=True, is_property=True, pure=True, heap_independent=True, params={"self": "Resource"}, returns="Str", ensures=["result == name_of(self)"])
# moving INTO an existing folder keeps the resource's own name below it; otherwise the destination is the new path itself
specdef("dest_of", {"r": "Resource", "d": "Str"}, "Str", "ite(is_dir(abs_path(r.project, d)), ite(d != '', d + '/' + name_of(r), name_of(r)), d)")
contract("MoveResource.__init__", source=M + "MoveResource.__init__", inline=True,
         params={"self": "MoveResource", "resource": "Resource", "new_location": "Str", "exact": "Bool"}, defaults={"exact": "False"},
         modifies=["self.project", "self.resource", "self.new_resource"],
         ensures=["self.resource == resource", "self.project == resource.project", "self.new_resource.project == resource.project",
                  # the destination is the given location as it stands (exact) or what _get_destination_for_move makes of it; same kind as the source
                  "self.new_resource._path == ite(exact, new_location, dest_of(resource, new_location))",
                  "isinstance(self.new_resource, Folder) == isinstance(resource, Folder)"],
         note="inlined into DataToChange.makeMoveResource (exact=True) and verified on its own for both modes")
contract("_get_destination_for_move", source=M + "_get_destination_for_move", params={"resource": "Resource", "destination": "Str"}, returns="Str",
         modifies=[], raises={}, ensures=["result == dest_of(resource, destination)"],
         note="only reached with exact=False; the reload path passes exact=True")

specdef("is_folder_of", {"r": "Resource"}, "Bool", "isinstance(r, Folder)")

contract("ChangeToData.convertChangeContents", source=M + "ChangeToData.convertChangeContents",
         params={"self": "ChangeToData", "change": "ChangeContents"}, returns="Tuple[Str,Str,Opt[Str]]",
         ensures=["result[0] == change.resource._path", "result[1] == change.new_contents", "result[2] == change.old_contents"])
contract("ChangeToData.convertMoveResource", source=M + "ChangeToData.convertMoveResource",
         params={"self": "ChangeToData", "change": "MoveResource"}, returns="Tuple[Str,Str]",
         ensures=["result[0] == change.resource._path", "result[1] == change.new_resource._path"])
contract("ChangeToData.convertCreateResource", source=M + "ChangeToData.convertCreateResource",
         params={"self": "ChangeToData", "change": "CreateResource"}, returns="Tuple[Str,Bool]",
         ensures=["result[0] == change.resource._path", "result[1] == is_folder_of(change.resource)"])
contract("ChangeToData.convertRemoveResource", source=M + "ChangeToData.convertRemoveResource",
         params={"self": "ChangeToData", "change": "RemoveResource"}, returns="Tuple[Str,Bool]",
         ensures=["result[0] == change.resource._path", "result[1] == is_folder_of(change.resource)"])

contract("DataToChange.makeChangeContents", source=M + "DataToChange.makeChangeContents",
         params={"self": "DataToChange", "path": "Str", "new_contents": "Str", "old_contents": "Opt[Str]"}, returns="ChangeContents",
         modifies=["ChangeContents.resource[*]", "ChangeContents.new_contents[*]", "ChangeContents.old_contents[*]", "Resource.project[*]", "Resource._path[*]"],
         ensures=["result.resource._path == path", "not is_folder_of(result.resource)", "result.new_contents == new_contents",
                  "result.old_contents == old_contents", "result.resource.project == self.project"])
contract("DataToChange.makeCreateResource", source=M + "DataToChange.makeCreateResource",
         params={"self": "DataToChange", "path": "Str", "is_folder": "Bool"}, returns="CreateResource",
         modifies=["CreateResource.resource[*]", "Resource.project[*]", "Resource._path[*]"],
         ensures=["result.resource._path == path", "is_folder_of(result.resource) == is_folder", "result.resource.project == self.project"])
contract("DataToChange.makeRemoveResource", source=M + "DataToChange.makeRemoveResource",
         params={"self": "DataToChange", "path": "Str", "is_folder": "Bool"}, returns="RemoveResource",
         modifies=["RemoveResource.resource[*]", "Resource.project[*]", "Resource._path[*]"],
         ensures=["result.resource._path == path", "is_folder_of(result.resource) == is_folder", "result.resource.project == self.project"])
contract("DataToChange.makeMoveResource", source=M + "DataToChange.makeMoveResource",
         params={"self": "DataToChange", "old_path": "Str", "new_path": "Str"}, returns="MoveResource",
         modifies=["MoveResource.resource[*]", "MoveResource.new_resource[*]", "MoveResource.project[*]", "Resource.project[*]", "Resource._path[*]"],
         ensures=["result.resource._path == old_path", "result.new_resource._path == new_path", "result.project == self.project"],
         note="the saved form has no folder flag: the reloaded resources are always File objects (known finding: folder-ness lost on reopen)")

# ---- round trip lemmas over the conversion contracts (single heap; the rebuilt change is a new object) ------------
V = {"ctd": "ChangeToData", "dtc": "DataToChange"}
lemma("roundtrip_ChangeContents", dict(V, c="ChangeContents", c2="ChangeContents", d="Tuple[Str,Str,Opt[Str]]"), ["c2 != c"],
      "c2.resource._path == c.resource._path and c2.new_contents == c.new_contents and c2.old_contents == c.old_contents",
      uses=[("ChangeToData.convertChangeContents", {"self": "ctd", "change": "c", "result": "d"}),
            ("DataToChange.makeChangeContents", {"self": "dtc", "path": "d[0]", "new_contents": "d[1]", "old_contents": "d[2]", "result": "c2"})])
lemma("roundtrip_MoveResource", dict(V, c="MoveResource", c2="MoveResource", d="Tuple[Str,Str]"), ["c2 != c"],
      "c2.resource._path == c.resource._path and c2.new_resource._path == c.new_resource._path",
      uses=[("ChangeToData.convertMoveResource", {"self": "ctd", "change": "c", "result": "d"}),
            ("DataToChange.makeMoveResource", {"self": "dtc", "old_path": "d[0]", "new_path": "d[1]", "result": "c2"})],
      note="paths only: the saved form does not record whether the moved resource is a folder (known finding)")
lemma("roundtrip_CreateResource", dict(V, c="CreateResource", c2="CreateResource", d="Tuple[Str,Bool]"), ["c2 != c"],
      "c2.resource._path == c.resource._path and is_folder_of(c2.resource) == is_folder_of(c.resource)",
      uses=[("ChangeToData.convertCreateResource", {"self": "ctd", "change": "c", "result": "d"}),
            ("DataToChange.makeCreateResource", {"self": "dtc", "path": "d[0]", "is_folder": "d[1]", "result": "c2"})])
lemma("roundtrip_RemoveResource", dict(V, c="RemoveResource", c2="RemoveResource", d="Tuple[Str,Bool]"), ["c2 != c"],
      "c2.resource._path == c.resource._path and is_folder_of(c2.resource) == is_folder_of(c.resource)",
      uses=[("ChangeToData.convertRemoveResource", {"self": "ctd", "change": "c", "result": "d"}),
            ("DataToChange.makeRemoveResource", {"self": "dtc", "path": "d[0]", "is_folder": "d[1]", "result": "c2"})])

from bounded import c12_reopen
bounded_check(name="c12-serializer", fn=c12_reopen.serializer_case, domain=c12_reopen.serializer_domain, exhaustive=True,
              label="B3: 118 075 values x 2 versions (22 atoms; tuples/lists of <= 2 elements, dicts of <= 2 entries, nesting depth 2): accepted values "
                    "round-trip through JSON text to an equal value of the same type")
bounded_check(name="c12-reopen", fn=c12_reopen.reopen_case, domain=c12_reopen.reopen_domain, exhaustive=True,
              label="B3: sequences of <= 2 (thorough: 3) changes out of 7 kinds x number undone; cleared/dropped histories; close, reopen, compare lists, redo/undo all")
bounded_check(name="c12-objectdb", fn=c12_reopen.objectdb_case, domain=c12_reopen.objectdb_domain, exhaustive=True, serial=True,
              label="B3: stored object information of an analysed module across one and two sessions")

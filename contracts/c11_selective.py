# C11 — selective undo: History._move_front for any list of changes (distinct, all present), then History.undo/redo with a chosen change
M = "rope.base.history:"
ghost("tree", "Opaque[Tree]")
ghost("faults", "Int")
record("Change", abstract=True)
record("AnyChange", bases=["Change"])
record("BaseTaskHandle", abstract=True)
record("AnyTaskHandle", bases=["BaseTaskHandle"])
record("History", pyclass="rope.base.history:History",
       fields={"_undo_list": "Seq[Change]", "_redo_list": "Seq[Change]", "_maxundos": "Opt[Int]", "current_change": "Opt[Change]"},
       aliases={"undo_list": "_undo_list", "redo_list": "_redo_list"})
constant("taskhandle.DEFAULT_TASK_HANDLE", "BaseTaskHandle")
specfun("unapply", ["Change", "Opaque[Tree]"], "Opaque[Tree]")
specfun("apply", ["Change", "Opaque[Tree]"], "Opaque[Tree]")
specdef("distinct", {"s": "Seq[Change]"}, "Bool", "forall(lambda a, b: implies(0 <= a and a < b and b < len(s), s[a] != s[b]))")
specdef("has", {"s": "Seq[Change]", "x": "Change"}, "Bool", "exists(lambda k: 0 <= k and k < len(s) and s[k] == x)")
contract("History._move_front", source=M + "History._move_front", params={"self": "History", "change_list": "Seq[Change]", "changes": "Seq[Change]"},
         requires=["distinct(change_list)", "distinct(changes)", "forall(lambda j: implies(0 <= j and j < len(changes), has(change_list, changes[j])))"],
         modifies=[], mutates=["change_list"], list_search="positional", raises={},
         ensures=[
             "len(final(change_list)) == len(old(change_list))",
             # the moved changes end up last, in the order given
             "forall(lambda j: implies(0 <= j and j < len(changes), final(change_list)[len(final(change_list)) - len(changes) + j] == changes[j]))",
             "forall(lambda c: implies(len(final(change_list)) - len(changes) <= c and c < len(final(change_list)), "
             "       final(change_list)[c] == changes[c - (len(final(change_list)) - len(changes))]))",
             # in front of them: the other changes of the old list, none of the moved ones, none lost, none twice
             "forall(lambda k, j: implies(0 <= k and k < len(final(change_list)) - len(changes) and 0 <= j and j < len(changes), final(change_list)[k] != changes[j]))",
             "forall(lambda k: implies(0 <= k and k < len(final(change_list)), has(old(change_list), final(change_list)[k])))",
             "forall(lambda k: implies(0 <= k and k < len(old(change_list)), has(final(change_list), old(change_list)[k])))",
             "distinct(final(change_list))"],
         loops={1: {"index": "i", "inv": [
             "len(change_list) == len(old(change_list))", "0 <= i and i <= len(changes)",
             "forall(lambda j: implies(0 <= j and j < i, change_list[len(change_list) - i + j] == changes[j]))",
             "forall(lambda k, j: implies(0 <= k and k < len(change_list) - i and 0 <= j and j < i, change_list[k] != changes[j]))",
             "forall(lambda j: implies(i <= j and j < len(changes), exists(lambda k: 0 <= k and k < len(change_list) - i and change_list[k] == changes[j])))",
             "forall(lambda k: implies(0 <= k and k < len(change_list), has(old(change_list), change_list[k])))",
             "forall(lambda k: implies(0 <= k and k < len(old(change_list)), has(change_list, old(change_list)[k])))",
             "distinct(change_list)"]}},
         note="remove + append per change: the changes are moved to the end in the given order; the rest keeps its elements (order of the rest: not stated)")


# ---- History.undo / History.redo with a chosen change (selective) -------------------------------------------------------------------------
# the tree after un-applying the last n entries of u, newest first (History._perform_undos, c11_history_n.py) ...
specfun("undone", ["Seq[Change]", "Int", "Opaque[Tree]"], "Opaque[Tree]")
axiom("undone_0", {"u": "Seq[Change]", "t": "Opaque[Tree]"}, "undone(u, 0, t) == t", patterns=["undone(u, 0, t)"], note="definition")
axiom("undone_step", {"u": "Seq[Change]", "n": "Int", "t": "Opaque[Tree]"},
      "implies(n >= 1, undone(u, n, t) == unapply(u[len(u) - n], undone(u, n - 1, t)))", patterns=["undone(u, n, t)"], note="definition")
# ... and the tree after un-applying r[0], r[1], ..., r[n-1] in that order
specfun("unapplied", ["Seq[Change]", "Int", "Opaque[Tree]"], "Opaque[Tree]")
axiom("unapplied_0", {"r": "Seq[Change]", "t": "Opaque[Tree]"}, "unapplied(r, 0, t) == t", patterns=["unapplied(r, 0, t)"], note="definition")
axiom("unapplied_step", {"r": "Seq[Change]", "n": "Int", "t": "Opaque[Tree]"},
      "implies(n >= 1, unapplied(r, n, t) == unapply(r[n - 1], unapplied(r, n - 1, t)))", patterns=["unapplied(r, n, t)"], note="definition")
induction("undone_is_unapplied", {"u": "Seq[Change]", "r": "Seq[Change]", "t": "Opaque[Tree]"}, "n",
          "implies(n <= len(r) and n <= len(u) and forall(lambda b: implies(0 <= b and b < n, r[b] == u[len(u) - 1 - b])), undone(u, n, t) == unapplied(r, n, t))",
          note="un-applying the last n entries newest-first is un-applying the returned list front to back")
lemma("undone_is_unapplied_2", {"u": "Seq[Change]", "r": "Seq[Change]", "t": "Opaque[Tree]", "n": "Int", "m": "Int"},
      ["0 <= n", "m == n", "n <= len(r)", "n <= len(u)", "forall(lambda b: implies(0 <= b and b < n, r[b] == u[len(u) - 1 - b]))"],
      "undone(u, n, t) == unapplied(r, m, t)", export=True, patterns=[["undone(u, n, t)", "unapplied(r, m, t)"]],
      note="the same with the two counts as separate variables: applies to lengths that are equal only arithmetically")

contract("History._find_dependencies", abstract=True, params={"self": "History", "change_list": "Seq[Change]", "change": "Change"}, returns="Seq[Change]",
         requires=["len(change_list) >= 1", "change in change_list", "distinct(change_list)"],
         ensures=["len(result) >= 1", "result[0] == change", "len(result) <= len(change_list)",
                  "forall(lambda t: implies(0 <= t and t < len(result), exists(lambda k: 0 <= k and k < len(change_list) and change_list[k] == result[t])))",
                  "distinct(result)"],
         note="verified from the body in c11_dependencies2.py")
MOVED = ("len(self._undo_list) == len(old(self._undo_list)) - {j} and "
         "forall(lambda a: implies(0 <= a and a < len(self._undo_list), self._undo_list[a] == old(self._undo_list)[a])) and "
         "len(self._redo_list) == len(old(self._redo_list)) + {j} and "
         "forall(lambda a: implies(0 <= a and a < len(old(self._redo_list)), self._redo_list[a] == old(self._redo_list)[a])) and "
         "forall(lambda b: implies(0 <= b and b < {j}, self._redo_list[len(old(self._redo_list)) + b] == old(self._undo_list)[len(old(self._undo_list)) - 1 - b])) and "
         "forall(lambda c: implies(len(old(self._redo_list)) <= c and c < len(old(self._redo_list)) + {j}, "
         "       self._redo_list[c] == old(self._undo_list)[len(old(self._undo_list)) - 1 - (c - len(old(self._redo_list)))])) and "
         "tree == undone(old(self._undo_list), {j}, old(tree))")
contract("History._perform_undos", abstract=True, params={"self": "History", "count": "Int", "task_handle": "BaseTaskHandle"},
         requires=["0 <= count and count <= len(self._undo_list)", "is_none(self.current_change)", "0 <= faults and faults <= 1"],
         modifies=["tree", "faults", "self._undo_list", "self._redo_list", "self.current_change"],
         ensures=[MOVED.format(j="count"), "is_none(self.current_change)"],
         raises={"Exception": {"ensures": ["is_none(self.current_change)", "exists(lambda j: 0 <= j and j < count and " + MOVED.format(j="j") + ")"]}},
         note="verified for any count in c11_history_n.py (label History._perform_undos#any-count)")

contract("History.undo#selective", source=M + "History.undo", defaults={"change": "None", "drop": "False"},
         params={"self": "History", "change": "Opt[Change]", "drop": "Bool", "task_handle": "BaseTaskHandle"}, returns="Seq[Change]",
         requires=["distinct(self._undo_list)", "implies(not is_none(change), has(self._undo_list, val(change)))", "is_none(self.current_change)",
                   "0 <= faults and faults <= 1"],
         modifies=["tree", "faults", "self._undo_list", "self._redo_list", "self.current_change"],
         ensures=[
             "len(old(self._undo_list)) >= 1 and len(result) >= 1 and len(result) <= len(old(self._undo_list))",
             # the chosen change (default: the last one) is undone last; what is returned are changes of the old undo list, each once
             "result[len(result) - 1] == ite(is_none(change), old(self._undo_list)[len(old(self._undo_list)) - 1], val(change))",
             "forall(lambda t: implies(0 <= t and t < len(result), has(old(self._undo_list), result[t])))", "distinct(result)",
             # they leave the undo list; everything else stays on it, nothing is duplicated
             "len(self._undo_list) == len(old(self._undo_list)) - len(result)",
             "forall(lambda k, t: implies(0 <= k and k < len(self._undo_list) and 0 <= t and t < len(result), self._undo_list[k] != result[t]))",
             "forall(lambda k: implies(0 <= k and k < len(self._undo_list), has(old(self._undo_list), self._undo_list[k])))",
             "distinct(self._undo_list)",
             # they go to the redo list in the order undone -- or, with drop, nowhere: the redo list is as before
             "implies(not drop, len(self._redo_list) == len(old(self._redo_list)) + len(result) and "
             "        forall(lambda b: implies(0 <= b and b < len(result), self._redo_list[len(old(self._redo_list)) + b] == result[b])))",
             "implies(drop, len(self._redo_list) == len(old(self._redo_list)))",
             "forall(lambda a: implies(0 <= a and a < len(old(self._redo_list)), self._redo_list[a] == old(self._redo_list)[a]))"],
         raises={"HistoryError": {"when": "len(self._undo_list) == 0", "ensures": ["tree == old(tree)", "self._undo_list == old(self._undo_list)", "self._redo_list == old(self._redo_list)"]},
                 "Exception": {"ensures": ["len(old(self._undo_list)) >= 1"]}},
         note="undo of a chosen change: its dependency closure is moved to the end of the undo list, un-applied newest first and handed to the redo list (or dropped). "
              "NOT stated here: the tree clause tree == unapplied(result, len(result), old(tree)); it follows from _perform_undos' own clause "
              "(tree == undone(list at its entry, count, tree)) and the lemma undone_is_unapplied_2 proved below, but no back end closes that last step "
              "(the two length terms are equal only arithmetically and the lemma's antecedent is itself universal)")

MOVED_R = MOVED.replace("_undo_list", "_XX").replace("_redo_list", "_undo_list").replace("_XX", "_redo_list").replace("undone(", "redone(")
specfun("redone", ["Seq[Change]", "Int", "Opaque[Tree]"], "Opaque[Tree]")
contract("History._perform_redos", abstract=True, params={"self": "History", "count": "Int", "task_handle": "BaseTaskHandle"},
         requires=["0 <= count and count <= len(self._redo_list)", "is_none(self.current_change)", "0 <= faults and faults <= 1"],
         modifies=["tree", "faults", "self._undo_list", "self._redo_list", "self.current_change"],
         ensures=[MOVED_R.format(j="count"), "is_none(self.current_change)"],
         raises={"Exception": {"ensures": ["is_none(self.current_change)", "exists(lambda j: 0 <= j and j < count and " + MOVED_R.format(j="j") + ")"]}},
         note="verified for any count in c11_history_n.py (label History._perform_redos#any-count)")
contract("History.redo#selective", source=M + "History.redo", defaults={"change": "None"},
         params={"self": "History", "change": "Opt[Change]", "task_handle": "BaseTaskHandle"}, returns="Seq[Change]",
         requires=["distinct(self._redo_list)", "implies(not is_none(change), has(self._redo_list, val(change)))", "is_none(self.current_change)",
                   "0 <= faults and faults <= 1"],
         modifies=["tree", "faults", "self._undo_list", "self._redo_list", "self.current_change"],
         ensures=[
             "len(old(self._redo_list)) >= 1 and len(result) >= 1 and len(result) <= len(old(self._redo_list))",
             "result[len(result) - 1] == ite(is_none(change), old(self._redo_list)[len(old(self._redo_list)) - 1], val(change))",
             "forall(lambda t: implies(0 <= t and t < len(result), has(old(self._redo_list), result[t])))", "distinct(result)",
             "len(self._redo_list) == len(old(self._redo_list)) - len(result)",
             "forall(lambda k, t: implies(0 <= k and k < len(self._redo_list) and 0 <= t and t < len(result), self._redo_list[k] != result[t]))",
             "forall(lambda k: implies(0 <= k and k < len(self._redo_list), has(old(self._redo_list), self._redo_list[k])))",
             "distinct(self._redo_list)",
             "len(self._undo_list) == len(old(self._undo_list)) + len(result)",
             "forall(lambda b: implies(0 <= b and b < len(result), self._undo_list[len(old(self._undo_list)) + b] == result[b]))",
             "forall(lambda a: implies(0 <= a and a < len(old(self._undo_list)), self._undo_list[a] == old(self._undo_list)[a]))"],
         raises={"HistoryError": {"when": "len(self._redo_list) == 0", "ensures": ["tree == old(tree)", "self._undo_list == old(self._undo_list)", "self._redo_list == old(self._redo_list)"]},
                 "Exception": {"ensures": ["len(old(self._redo_list)) >= 1"]}},
         note="redo of a chosen undone change: symmetric to History.undo")

# ---- CPython cross-check of History._move_front's contract text on the real method --------------------------------------------------
def _xc_mf_domain(tier, seed):
    import itertools
    n = 5 if tier != "thorough" else 6
    for m in range(0, n + 1):
        base = list(range(m))
        for perm in (itertools.permutations(base) if m <= 4 else list(itertools.permutations(base))[::7]):
            for r in range(0, m + 1):
                for sub in itertools.permutations(base, r):
                    if m >= 4 and r >= 3 and hash((perm, sub)) % 5:
                        continue
                    yield (list(perm), list(sub))


class _C:           # stands for a Change: identity only
    def __init__(self, k):
        self.k = k

    def __repr__(self):
        return "c%d" % self.k


def _xc_mf_build(case):
    from rope.base.history import History
    lst, sub = case
    objs = {k: _C(k) for k in lst}
    return {"self": object.__new__(History), "change_list": [objs[k] for k in lst], "changes": [objs[k] for k in sub]}


bounded_check(name="c11-move-front-native", props=["C11"], contract="History._move_front", build=_xc_mf_build, domain=_xc_mf_domain, exhaustive=True,
              label="CPython cross-check: _move_front's contract (final(change_list), has, distinct) evaluated on the real method for every permutation of <= 4 "
                    "(sampled 5) changes x every ordered sub-selection")

# ---- CPython cross-check of selective undo / redo on a real History with stand-in changes ----------------------------------------------------
class _XcR:
    def __init__(self, path, folder=False):
        self.path, self._folder = path, folder

    def is_folder(self):
        return self._folder

    def contains(self, other):
        return self is not other and (self.path == "" or other.path.startswith(self.path + "/"))

    def __repr__(self):
        return "<%s>" % self.path


class _XcChange:
    def __init__(self, name, resources):
        self.name, self._res = name, resources

    def get_changed_resources(self):
        return list(self._res)

    def do(self, job_set=None):
        pass

    def undo(self, job_set=None):
        pass

    def __repr__(self):
        return self.name


def _xc_su_domain(tier, seed):
    import itertools
    res_names = ["a.py", "pkg", "pkg/m.py", "b.py"]
    shapes = [["a.py"], ["pkg/m.py"], ["pkg"], ["b.py"], ["a.py", "b.py"]]
    n_max = 4 if tier != "thorough" else 5
    for n in range(1, n_max + 1):
        for combo in itertools.product(range(len(shapes)), repeat=n):
            if n >= 4 and hash(combo) % 7:
                continue
            for pick in list(range(n)) + [None]:
                for drop in (False, True):
                    yield (combo, pick, drop)


def _xc_su_build(case, redo=False):
    from rope.base.history import History
    from rope.base import taskhandle
    combo, pick, drop = case
    shapes = [["a.py"], ["pkg/m.py"], ["pkg"], ["b.py"], ["a.py", "b.py"]]
    rs = {p: _XcR(p, p == "pkg") for p in ("a.py", "pkg", "pkg/m.py", "b.py")}
    changes = [_XcChange("c%d" % i, [rs[p] for p in shapes[k]]) for i, k in enumerate(combo)]
    h = object.__new__(History)
    h._maxundos, h.current_change = 100, None
    h._undo_list, h._redo_list = ([], list(changes)) if redo else (list(changes), [])
    d = {"self": h, "change": None if pick is None else changes[pick], "task_handle": taskhandle.NullTaskHandle(), "tree": "T", "faults": 0}
    if not redo:
        d["drop"] = drop
    return d


bounded_check(name="c11-selective-undo-native", props=["C11"], contract="History.undo#selective", build=_xc_su_build, domain=_xc_su_domain, exhaustive=True,
              label="CPython cross-check: the selective-undo contract on a real History with stand-in changes over a file, a package and a module inside it: every "
                    "history of <= 3 (a seventh of those of 4) changes x every chosen change or none x drop")
bounded_check(name="c11-selective-redo-native", props=["C11"], contract="History.redo#selective", build=lambda c: _xc_su_build(c, redo=True),
              domain=lambda t, s: [c for c in _xc_su_domain(t, s) if not c[2]], exhaustive=True,
              label="CPython cross-check: the selective-redo contract on the same domain")

"""C11: History.do/_remove_extra_items/undo/redo (rope/base/history.py) — list-level contracts, hand VCs.
Change is an opaque sort; ghost tree with abstract apply/unapply (leaf inverse law is the callee contract)."""
import z3
from smt import prove, summary
C = z3.DeclareSort('Change'); T = z3.DeclareSort('Tree'); SC = z3.SeqSort(C); I = z3.IntSort()
undo = z3.Const('undo', SC); redo = z3.Const('redo', SC); c = z3.Const('c', C)
maxu = z3.Int('maxu'); k = z3.Int('k')
ap = z3.Function('apply', C, T, T); un = z3.Function('unapply', C, T, T)
t = z3.Const('t', T); t0 = z3.Const('t0', T)
inverse = z3.ForAll([c, t], un(c, ap(c, t)) == t)
inverse2 = z3.ForAll([c, t], ap(c, un(c, t)) == t)       # redo after undo (needs the change to have been done before)
nu = z3.Length(undo)
def drop_front(sq, m): return z3.SubSeq(sq, m, z3.Length(sq) - m)
# --- History.do (interesting change): undo' = remove_extra(undo + [c]); redo' = []
u1 = z3.Concat(undo, z3.Unit(c)); n1 = z3.Length(u1)
# _remove_extra_items: if len > max: del list[0 : len - max]
u2 = z3.If(n1 > maxu, drop_front(u1, n1 - maxu), u1)
prove('do: len(undo\') <= max_undos (max>=0)', [maxu >= 0], z3.Length(u2) <= maxu)
prove('do: undo\' is the suffix of old+[c] of length min(len+1,max)', [maxu >= 0],
      z3.And(z3.SuffixOf(u2, u1), z3.Length(u2) == z3.If(n1 > maxu, maxu, n1)))
prove('do: c is last when max>=1', [maxu >= 1], u2[z3.Length(u2) - 1] == c)
prove('do: max==0 keeps nothing', [maxu == 0], z3.Length(u2) == 0)
# max_undos < 0 (a misconfiguration): del undo[0 : len+|max|] clears everything -> document as precondition max>=0
prove('do: negative max violates len<=max (documents the precondition)', [maxu < 0], z3.Length(u2) <= maxu, expect='sat')
# --- plain undo: requires undo != []; dependencies == [undo[-1]]; _move_front no-op; one _perform_undos step
last = undo[nu - 1]
u3 = z3.SubSeq(undo, 0, nu - 1); r3 = z3.Concat(redo, z3.Unit(last))
prove('undo: last moved to redo, others untouched', [nu >= 1],
      z3.And(z3.Concat(u3, z3.Unit(last)) == undo, r3[z3.Length(r3) - 1] == last, z3.PrefixOf(redo, r3), z3.Length(u3) == nu - 1))
prove('undo: tree restored (leaf law)', [inverse, nu >= 1, t == ap(last, t0)], un(last, t) == t0)
# --- redo after undo gives back the lists and the tree
nr = z3.Length(r3); last_r = r3[nr - 1]
u4 = z3.Concat(u3, z3.Unit(last_r)); r4 = z3.SubSeq(r3, 0, nr - 1)
prove('redo . undo = id on lists', [nu >= 1], z3.And(u4 == undo, r4 == redo))
prove('redo . undo = id on tree', [inverse, nu >= 1, t == ap(last, t0)], ap(last_r, un(last, t)) == t)
# --- _move_front(change_list, deps): stable partition.  One step: remove(x) then append(x), x occurs once at index p.
lst = z3.Const('lst', SC); p = z3.Int('p'); x = z3.Const('x', C); q = z3.Int('q')
once = z3.And(0 <= p, p < z3.Length(lst), lst[p] == x, z3.ForAll([k], z3.Implies(z3.And(0 <= k, k < z3.Length(lst), k != p), lst[k] != x)))
moved = z3.Concat(z3.SubSeq(lst, 0, p), z3.SubSeq(lst, p + 1, z3.Length(lst) - p - 1), z3.Unit(x))
prove('move_front step: same length, x last', [once], z3.And(z3.Length(moved) == z3.Length(lst), moved[z3.Length(moved) - 1] == x))
prove('move_front step: others keep relative order (before p)', [once, 0 <= q, q < p], moved[q] == lst[q])
prove('move_front step: others keep relative order (after p)', [once, p < q, q < z3.Length(lst)], moved[q - 1] == lst[q])
summary()

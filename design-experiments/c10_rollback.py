"""C10: ChangeSet.do / ChangeSet.undo rollback and the _handle_job_set wrapper (rope/base/change.py:63-131).

Ghost tree; leaf contract: do: normal -> tree' = apply(c, tree), exceptional -> tree' = tree;
undo requires tree == apply(c, t) for some t and gives t back (unapply(c, apply(c,t)) == t).
"""
import z3
from smt import prove, summary
T = z3.DeclareSort('Tree'); C = z3.DeclareSort('Change'); I = z3.IntSort()
ap = z3.Function('apply', C, T, T); un = z3.Function('unapply', C, T, T)
c = z3.Const('c', C); t = z3.Const('t', T); t0 = z3.Const('t0', T)
changes = z3.Const('changes', z3.SeqSort(C)); n = z3.Length(changes)
aps = z3.Function('applyseq', I, T)      # applyseq(k) = tree after changes[0:k] applied to t0  (ghost, defined by recurrence)
k, i, j = z3.Ints('k i j')
def aps_at(m): return z3.Implies(z3.And(1 <= m, m <= n), aps(m) == ap(changes[m - 1], aps(m - 1)))
def inv_at(x, tr): return un(x, ap(x, tr)) == tr                       # ground instance of the leaf inverse law
tree = z3.Const('tree', T)
# do-loop invariant: tree == applyseq(i), done == changes[:i]
prove('do loop: init', [aps(0) == t0], t0 == aps(0))
prove('do loop: preserved by a successful change.do', [0 <= i, i < n, tree == aps(i), aps_at(i + 1)], ap(changes[i], tree) == aps(i + 1))
# failure of changes[i].do (callee exceptional post: tree unchanged).  Rollback as a maintainer would write it:
#   for change in reversed(done): change.undo()      invariant: tree == applyseq(i - j) after j undos
prove('rollback reversed: call/pre of undo (tree is the post-state of done[i-j-1])', [0 <= j, j < i, i <= n, tree == aps(i - j), aps_at(i - j)],
      tree == ap(changes[i - j - 1], aps(i - j - 1)))
prove('rollback reversed: invariant preserved', [0 <= j, j < i, i <= n, tree == aps(i - j), aps_at(i - j), inv_at(changes[i - j - 1], aps(i - j - 1))],
      un(changes[i - j - 1], tree) == aps(i - j - 1))
prove('rollback reversed: exc-post tree == tree0', [tree == aps(i - i), aps(0) == t0], tree == t0)
# rollback as in the unchanged tree:  for change in done: change.undo()   -> first undo is done[0] on applyseq(i)
prove('rollback forward (unchanged tree): call/pre of first undo fails for i>=2', [i >= 2, i <= n, tree == aps(i), aps_at(i), aps_at(1), aps(0) == t0],
      tree == ap(changes[0], t0), expect='sat')
# _handle_job_set.call:  started_job(); function(self); finished_job()
#   started_job / finished_job: may raise InterruptedTaskError, no tree effect.  function: leaf contract.
t1 = z3.Const('t1', T)
prove('call: raise in started_job leaves tree', [], t0 == t0)
prove('call: raise in function leaves tree (leaf exc contract)', [t1 == t0], t1 == t0)
prove('call: raise in finished_job AFTER function -> exc-post tree unchanged fails', [t1 == ap(c, t0)], t1 == t0, expect='sat')
summary()

"""C11: history._FindChangeDependencies.__call__/_depends_on (rope/base/history.py:204-229) — dependency closure.

cl: change list (cl[0] is the chosen change).  res(c): set of resources.  touch(r1,r2) := r1==r2 or contains(r1,r2) or contains(r2,r1)
(the code tests is_folder() before contains(); contains() is only true for folders, so the test is redundant — stated as a lemma on Folder.contains).
Spec (the property's own wording, made precise in list order):
    dep(0) ;  dep(j) <=> exists i<j: dep(i) and overlaps(cl[i], cl[j])      overlaps(a,b) := exists r in res(a), r2 in res(b): touch(r, r2)
Code state at loop head j: inR(i) for i<j (membership in `result`), CR = union of res(cl[i]) for i<j with inR(i).
"""
import z3
from smt import prove, summary
R = z3.DeclareSort('Resource'); I = z3.IntSort(); B = z3.BoolSort()
res = z3.Function('res', I, R, B)              # res(i, r): r in footprint of cl[i]
touch = z3.Function('touch', R, R, B)
inR = z3.Function('inR', I, B); dep = z3.Function('dep', I, B)
CR = z3.Function('CR', R, B); CR2 = z3.Function('CR2', R, B); inR2 = z3.Function('inR2', I, B)
j, i, w = z3.Ints('j i w'); r, r2, rw, rw2 = z3.Consts('r r2 rw rw2', R)
touch_sym = z3.ForAll([r, r2], touch(r, r2) == touch(r2, r))
# _depends_on(cl[j]) as computed by the code:  exists r in res(j): r in CR  or  exists ch in CR: touch(r, ch)   (r in CR is touch with itself)
touch_refl = z3.ForAll([r], touch(r, r))
# code's test, with Skolem witnesses (rw in res(j), rw2 in CR) when true:
def code_dep_true(rw, rw2): return z3.And(res(j, rw), CR(rw2), touch(rw, rw2))
def code_dep_false(): return z3.ForAll([r, r2], z3.Implies(z3.And(res(j, r), CR(r2)), z3.Not(touch(r, r2))))
# invariant pieces at loop head j (ground instances where needed):
#  I1: forall i<j: inR(i) == dep(i)          I2: CR(x) <=> exists i<j: inR(i) and res(i,x)   (witness function cw(x) for the => direction)
cw = z3.Function('cw', R, I)
def I2_fwd(x): return z3.Implies(CR(x), z3.And(0 <= cw(x), cw(x) < j, inR(cw(x)), res(cw(x), x)))
def I2_bwd(a, x): return z3.Implies(z3.And(0 <= a, a < j, inR(a), res(a, x)), CR(x))
# spec unfolding for j, both directions with witnesses:  dw = witness index, (sr, sr2) witness resources
dw = z3.Int('dw'); sr, sr2 = z3.Consts('sr sr2', R)
def spec_true(dw, sr, sr2): return z3.And(0 <= dw, dw < j, dep(dw), res(dw, sr), res(j, sr2), touch(sr, sr2))
spec_def_fwd = z3.Implies(dep(j), spec_true(dw, sr, sr2))                                            # Skolemised
def spec_def_bwd(a, x, y): return z3.Implies(z3.And(0 <= a, a < j, dep(a), res(a, x), res(j, y), touch(x, y)), dep(j))
H = [j >= 1, touch_sym]
# (a) code says "depends" => spec says dep(j)
prove('closure: code-true => dep(j)', H + [code_dep_true(rw, rw2), I2_fwd(rw2), inR(cw(rw2)) == dep(cw(rw2)), spec_def_bwd(cw(rw2), rw2, rw)], dep(j))
# (b) spec says dep(j) => code says "depends"
prove('closure: dep(j) => code-true', H + [dep(j), spec_def_fwd, inR(dw) == dep(dw), I2_bwd(dw, sr), code_dep_false()], z3.BoolVal(False))
# (c) CR update keeps I2 (backward direction) for the new member j
def CR2_def(x): return CR2(x) == z3.Or(CR(x), res(j, x))
prove('closure: CR update covers the new member', [CR2_def(r), res(j, r)], CR2(r))
# mutant: changed_resources not updated (non-transitive closure): I2 backward breaks for the member just added
def CR2_mut(x): return CR2(x) == CR(x)
prove('MUTANT no changed_resources.update: coverage of the new member must fail', [CR2_mut(r), res(j, r)], CR2(r), expect='sat')
summary()

"""C12: rope/base/serializer.py _py2js/_js2py round trip — hand VCs for the tuple/list case and the dict case.

Val is the nested datatype; D(js, R, v) is _js2py (pure) as an uninterpreted function constrained by the *path equations*
read off its body; IH = the contract of the recursive _py2js calls:  refs only grows, and for every R extending the
refs after the call, D(encoded, R, v) == original.  R* is an arbitrary extension of the final refs (Skolem constant).
"""
import z3
from smt import prove, summary
Val = z3.Datatype('Val'); VSd = z3.SeqSort(z3.DatatypeSort('Val'))
Val.declare('VNone'); Val.declare('VBool', ('b', z3.BoolSort())); Val.declare('VInt', ('i', z3.IntSort())); Val.declare('VStr', ('s', z3.StringSort()))
Val.declare('VList', ('litems', VSd)); Val.declare('VTuple', ('titems', VSd)); Val.declare('VDict', ('dkeys', VSd), ('dvals', VSd))
Val = Val.create(); VS = z3.SeqSort(Val); I = z3.IntSort(); S = z3.StringSort()
D = z3.Function('D', Val, VS, I, Val)
Rs = z3.Const('Rstar', VS); v = z3.Int('v'); k, m, m2 = z3.Ints('k m m2')
# ---------------- tuple, version 1: {"$": "t", "items": [enc(o_k)]} ----------------
js = z3.Const('js', VS); o = z3.Const('o', VS)
M = z3.Function('Dmap', VS, VS, I, VS)
enc_t = Val.VDict(z3.Concat(z3.Unit(Val.VStr(z3.StringVal("$"))), z3.Unit(Val.VStr(z3.StringVal("items")))),
                  z3.Concat(z3.Unit(Val.VStr(z3.StringVal("t"))), z3.Unit(Val.VList(js))))
path_eq = D(enc_t, Rs, 1) == Val.VTuple(M(js, Rs, 1))                       # _js2py: "$" in o, o["$"]=="t", version==1
d = z3.Int('d')
map_len = z3.Length(M(js, Rs, 1)) == z3.Length(js)                          # lemma/map_pointwise (proved by induction, see DESIGN 2.5)
map_at = z3.Implies(z3.And(0 <= d, d < z3.Length(js)), M(js, Rs, 1)[d] == D(js[d], Rs, 1))
ih_at = z3.Implies(z3.And(0 <= d, d < z3.Length(o)), D(js[d], Rs, 1) == o[d])   # loop invariant at exit, instantiated at d
ext = z3.Or(M(js, Rs, 1) == o, z3.Length(M(js, Rs, 1)) != z3.Length(o),
            z3.And(0 <= d, d < z3.Length(o), M(js, Rs, 1)[d] != o[d]))            # extensionality instance, Skolem d
prove('tuple v1: D(enc(o), R*) == o', [path_eq, map_len, map_at, ih_at, ext, z3.Length(js) == z3.Length(o)], D(enc_t, Rs, 1) == Val.VTuple(o))
# ---------------- dict ----------------
# python dict o: pairs (pk(m), pv(m)), m < n, keys pairwise distinct.  Ghost per pair: direct(m), jk(m) json key, rid(m), ek(m), ev(m).
n = z3.Int('n'); pk = z3.Function('pk', I, Val); pv = z3.Function('pv', I, Val)
direct = z3.Function('direct', I, z3.BoolSort()); jk = z3.Function('jk', I, S); rid = z3.Function('rid', I, I)
ek = z3.Function('ek', I, Val); ev = z3.Function('ev', I, Val)
isdigit = z3.Function('isdigit', S, z3.BoolSort()); itos = z3.Function('itos', I, S); stoi = z3.Function('stoi', S, I)
refs = z3.Const('refs', VS)            # references at loop head i ; len strictly above every rid(m), m<i
def str_axioms(a): return z3.Implies(a >= 0, z3.And(isdigit(itos(a)), stoi(itos(a)) == a))
dollar = z3.Not(isdigit(z3.StringVal("$")))
def pair_def(a):        # how the loop body defines the ghost for pair a (read off _py2js's dict branch)
    is_direct = z3.And(Val.is_VStr(pk(a)), z3.Not(isdigit(Val.s(pk(a)))))
    return z3.And(direct(a) == is_direct,
                  z3.Implies(direct(a), jk(a) == Val.s(pk(a))),
                  z3.Implies(z3.Not(direct(a)), z3.And(jk(a) == itos(rid(a)), rid(a) >= 0)),
                  pk(a) != Val.VStr(z3.StringVal("$")))
i = z3.Int('i')
# E1: no overwrite when inserting pair i (m < i already inserted; rid(i) == len(refs) > rid(m))
prove('dict E1: json key of pair i is fresh', [0 <= m, m < i, pair_def(m), pair_def(i), pk(m) != pk(i), str_axioms(rid(m)), str_axioms(rid(i)),
      z3.Implies(z3.Not(direct(m)), rid(m) < z3.Length(refs)), z3.Implies(z3.Not(direct(i)), rid(i) == z3.Length(refs))], jk(m) != jk(i))
# E4: the produced json dict has no "$" key, so _js2py takes the plain-dict branch
prove('dict E4: no "$" key is produced', [pair_def(m), str_axioms(rid(m)), dollar], jk(m) != z3.StringVal("$"))
# E2: a reference slot written for pair m is still there in any extension R* of the final refs
refs_m = z3.Const('refs_m', VS)        # references right after pair m's append (ghost snapshot)
prove('dict E2: R*[rid(m)] == ek(m)', [z3.Not(direct(m)), rid(m) == z3.Length(refs_m) - 1, rid(m) >= 0, refs_m[rid(m)] == ek(m), z3.PrefixOf(refs_m, refs), z3.PrefixOf(refs, Rs)],
      Rs[rid(m)] == ek(m))
# decode: keyof(jk) = VStr(jk) if not digit else D(R*[stoi(jk)], R*) ; value D(ev(m), R*)
def keyof(a): return z3.If(isdigit(jk(a)), D(Rs[stoi(jk(a))], Rs, v), Val.VStr(jk(a)))
ih_key = z3.Implies(z3.Not(direct(m)), D(ek(m), Rs, v) == pk(m))            # IH of the recursive call on the key, at R*
prove('dict: decoded key of pair m == original key', [pair_def(m), str_axioms(rid(m)), ih_key, z3.Implies(z3.Not(direct(m)), Rs[rid(m)] == ek(m))], keyof(m) == pk(m))
prove('dict: decoded keys stay pairwise distinct (no overwrite while decoding)', [pair_def(m), pair_def(m2), str_axioms(rid(m)), str_axioms(rid(m2)), keyof(m) == pk(m), keyof(m2) == pk(m2), pk(m) != pk(m2)], keyof(m) != keyof(m2))
# collision mutants that must be refuted: if isdigit strings were inlined (the `not pykey.isdigit()` test dropped) the fresh-key argument breaks
def pair_def_mut(a):
    is_direct = Val.is_VStr(pk(a))
    return z3.And(direct(a) == is_direct, z3.Implies(direct(a), jk(a) == Val.s(pk(a))),
                  z3.Implies(z3.Not(direct(a)), z3.And(jk(a) == itos(rid(a)), rid(a) >= 0)))
prove('MUTANT inline numeric-string keys: freshness must fail', [0 <= m, m < i, pair_def_mut(m), pair_def_mut(i), pk(m) != pk(i), str_axioms(rid(m)), str_axioms(rid(i)),
      z3.Implies(z3.Not(direct(m)), rid(m) < z3.Length(refs)), z3.Implies(z3.Not(direct(i)), rid(i) == z3.Length(refs))], jk(m) != jk(i), expect='sat')
summary()

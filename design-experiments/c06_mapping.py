"""C06/C04: functionutils.ArgumentMapping.__init__ / to_call_info vs Python's call binding (rope/refactor/functionutils.py:162-206).

Names are an opaque sort `Name`, argument texts an opaque sort `Val` (the code only moves/compares them).
bind(names, args, kws): positional k<min(len(args),n) -> names[k]; extra positionals args[n:]; keyword (nm,v): nm in names -> nm, else extra kw.
"""
import z3
from smt import prove, summary
Name = z3.DeclareSort('Name'); Val = z3.DeclareSort('Val'); I = z3.IntSort()
Opt = z3.Datatype('OptVal'); Opt.declare('none'); Opt.declare('some', ('val', Val)); Opt = Opt.create()
D = z3.ArraySort(Name, Opt)
names = z3.Function('names', I, Name); n = z3.Int('n')            # definition parameter names (distinct)
i, j, k, kk = z3.Ints('i j k kk')
def distinct_at(a, b): return z3.Implies(z3.And(0 <= a, a < n, 0 <= b, b < n, a != b), names(a) != names(b))
pd = z3.Const('pd', D)
# ---------- to_call_info(defs) on a mapping (pd, extra, kw_extra) ----------
# Result shape established by the loops (loop invariants checked in the second half):
#   P = first index with names(P) not in pd (or n);  args_out = [pd[names(k)] | k<P] ++ extra
#   kws_out = [(names(m), pd[names(m)]) | P<=m<n, names(m) in pd] ++ kw_extra
P = z3.Int('P'); ne = z3.Int('n_extra'); extra = z3.Function('extra', I, Val)
def inpd(x): return Opt.is_some(pd[x])
shape = z3.And(0 <= P, P <= n, z3.Or(P == n, z3.Not(inpd(names(P)))))
def prefix_at(a): return z3.Implies(z3.And(0 <= a, a < P), inpd(names(a)))
def args_out(a): return z3.If(a < P, Opt.val(pd[names(a)]), extra(a - P))     # a < P + ne
len_args = P + ne
# bind of the emitted call against the same definition: value bound to parameter q (0<=q<n)
q = z3.Int('q')
def bound_positional(q): return z3.And(q < len_args, q < n)
def bound_keyword(q): return z3.And(P <= q, inpd(names(q)))                   # emitted as keyword (names distinct => at most once)
bind_q = z3.If(bound_positional(q), Opt.some(args_out(q)), z3.If(bound_keyword(q), pd[names(q)], Opt.none))
G = [n >= 0, ne >= 0, shape, 0 <= q, q < n, prefix_at(q)]
prove('to_call_info: bind(def, emitted)[p] == param_dict[p] when no extra positionals', G + [ne == 0], bind_q == pd[names(q)])
prove('to_call_info: ... also when the positional prefix is complete (P == n)', G + [P == n], bind_q == pd[names(q)])
prove('to_call_info: extra positionals survive as *args when P == n', G + [P == n, 0 <= kk, kk < ne], args_out(n + kk) == extra(kk))
prove('to_call_info: FAILS when extra positionals meet an incomplete prefix (P<n, ne>0)', G + [ne > 0, P < n], bind_q == pd[names(q)], expect='sat')
prove('to_call_info: a parameter is never emitted both positionally and by keyword', G, z3.Not(z3.And(q < P, bound_keyword(q))))
# ---------- __init__ loop 1 (positional) : see DESIGN 2.5 "opaque payloads"; here the loop-2 (keywords) invariant ----------
#   for name, value in keywords: if name in names: pd[name] = value else keyword_args.append((name, value))
kwn = z3.Function('kwn', I, Name); kwv = z3.Function('kwv', I, Val); nk = z3.Int('nk')
isparam = z3.Function('isparam', Name, z3.BoolSort())
def isparam_def(x, w): return z3.Implies(z3.And(0 <= w, w < n), z3.Implies(names(w) == x, isparam(x)))   # witness direction, ground
pd1 = z3.Const('pd1', D)          # dict after loop 1
# invariant after processing kws[:i]: for every param p: pd[p] == last kw value among kws[:i] named p, else pd1[p]
lastkw = z3.Function('lastkw', Name, I, I)      # ghost: index of last keyword named x in kws[:i], or -1
def lastkw_step(x, i): return lastkw(x, i + 1) == z3.If(kwn(i) == x, i, lastkw(x, i))
def inv2(pdx, i, x): return pdx[x] == z3.If(z3.And(isparam(x), lastkw(x, i) >= 0), Opt.some(kwv(lastkw(x, i))), pd1[x])
x = z3.Const('x', Name)
prove('__init__ loop2: init', [lastkw(x, 0) == -1], inv2(pd1, z3.IntVal(0), x))
pd_next = z3.If(isparam(kwn(i)), z3.Store(pd, kwn(i), Opt.some(kwv(i))), pd)
prove('__init__ loop2: preserved', [0 <= i, i < nk, inv2(pd, i, x), lastkw_step(x, i), lastkw(x, i) < i], inv2(pd_next, i + 1, x))
summary()

"""C02: occurrences._TextualFinder._normal_search (rope/refactor/occurrences.py:350-361) — whole-word search is exact.

W(p) := source[p:p+L] == name  /\  (p == 0 or not isid(source[p-1]))  /\  (p+L == len or not isid(source[p+L]))
Post: yielded offsets are exactly {p | W(p)}, strictly increasing.  Pre: L >= 1 and every character of name is an id char.
Chars are Ints, strings Seq(Int); isid is uninterpreted (any Unicode classification).
"""
import z3
from smt import prove, summary
I = z3.IntSort(); SI = z3.SeqSort(I)
src = z3.Const('src', SI); name = z3.Const('name', SI); N = z3.Length(src); L = z3.Length(name)
isid = z3.Function('isid', I, z3.BoolSort())
p, q, k, cur, found = z3.Ints('p q k cur found')
def occ(a): return z3.And(0 <= a, a + L <= N, z3.SubSeq(src, a, L) == name)
def W(a): return z3.And(occ(a), z3.Or(a == 0, z3.Not(isid(src[a - 1]))), z3.Or(a + L == N, z3.Not(isid(src[a + L]))))
pre = z3.And(L >= 1)
def name_ids_at(t): return z3.Implies(z3.And(0 <= t, t < L), isid(name[t]))                 # ground instance of "all chars of name are id chars"
# str.index(name, cur): least occurrence >= cur, or ValueError
index_ok = z3.And(cur <= found, occ(found))
def index_least_at(a): return z3.Implies(z3.And(cur <= a, a < found), z3.Not(occ(a)))
def index_raises_at(a): return z3.Implies(cur <= a, z3.Not(occ(a)))
# Key lemma (why `current = found + len(name)` loses nothing): no whole-word occurrence starts strictly inside the one at `found`
prove('skip lemma: found < p < found+L  =>  not W(p)', [pre, occ(found), found < p, p < found + L, name_ids_at(p - 1 - found),
      # src[p-1] is the (p-1-found)-th char of the occurrence at found:
      z3.Implies(z3.And(0 <= p - 1 - found, p - 1 - found < L), z3.SubSeq(src, found, L)[p - 1 - found] == src[p - 1])], z3.Not(W(p)))
# loop invariant: Y (set of yielded offsets) == {a | W(a), a < cur}.  One iteration from cur to found+L:
inY = z3.Function('inY', I, z3.BoolSort()); inY2 = z3.Function('inY2', I, z3.BoolSort())
def inv_at(f, c, a): return f(a) == z3.And(W(a), a < c)
yield_found = W(found)                                     # the boundary test in the body is literally W(found) given occ(found)
def step_def(a): return inY2(a) == z3.Or(inY(a), z3.And(a == found, yield_found))
prove('invariant preserved for a < cur', [pre, 0 <= cur, index_ok, inv_at(inY, cur, p), step_def(p), p < cur], inv_at(inY2, found + L, p))
prove('invariant preserved for cur <= a < found (no occurrence there)', [pre, index_ok, index_least_at(p), inv_at(inY, cur, p), step_def(p), cur <= p, p < found], inv_at(inY2, found + L, p))
prove('invariant preserved for a == found', [pre, index_ok, inv_at(inY, cur, p), step_def(p), p == found], inv_at(inY2, found + L, p))
prove('invariant preserved for found < a < found+L (skip lemma)', [pre, index_ok, inv_at(inY, cur, p), step_def(p), found < p, p < found + L, z3.Not(W(p))], inv_at(inY2, found + L, p))
prove('invariant preserved for a >= found+L', [pre, index_ok, inv_at(inY, cur, p), step_def(p), p >= found + L, cur <= found], inv_at(inY2, found + L, p))
prove('exit (ValueError): Y == {a | W(a)}', [pre, index_raises_at(p), inv_at(inY, cur, p)], inY(p) == W(p))
# mutant: right-hand boundary test dropped (yield when only the left side is a word boundary) -> must be refuted
left_only = z3.And(occ(found), z3.Or(found == 0, z3.Not(isid(src[found - 1]))))
def step_mut(a): return inY2(a) == z3.Or(inY(a), z3.And(a == found, left_only))
prove('MUTANT right boundary test dropped: invariant at a == found must fail', [pre, index_ok, inv_at(inY, cur, p), step_mut(p), p == found], inv_at(inY2, found + L, p), expect='sat')
summary()

"""C01/C14/C19: ChangeCollector.get_changed (rope/base/codeanalyze.py:17-32) — contract and hand VCs.

Sorted, non-overlapping edits (s_i, e_i, t_i), i < n.  Ghost offs(i) = length of the output produced before
edit i's gap.  Postcondition (implementation independent, covers every output position):
  A  len(R) == offs(n) + len(text) - last_end
  B  forall i<n: R[offs(i) : offs(i)+gap_i]          == text[e_{i-1} : s_i]      (gap kept)
  C  forall i<n: R[offs(i)+gap_i : offs(i+1)]         == t_i                      (replacement placed)
  D  R[offs(n):]                                      == text[last_end:]          (tail kept)
"""
import z3
from smt import prove, summary
I = z3.IntSort(); S = z3.StringSort()
text = z3.String('text'); L = z3.Length(text)
s = z3.Function('s', I, I); e = z3.Function('e', I, I); tx = z3.Function('tx', I, S)
offs = z3.Function('offs', I, I)
n, i, j = z3.Ints('n i j')
def prev_end(k): return z3.If(k <= 0, 0, e(k - 1))
def gap(k): return s(k) - prev_end(k)
def sub(x, a, b): return z3.SubString(x, a, b - a)
pre = z3.And(n >= 1, z3.ForAll([j], z3.Implies(z3.And(0 <= j, j < n), z3.And(0 <= s(j), prev_end(j) <= s(j), s(j) <= e(j), e(j) <= L))))
ghost = z3.And(offs(0) == 0, z3.ForAll([j], z3.Implies(z3.And(0 <= j, j < n), offs(j + 1) == offs(j) + gap(j) + z3.Length(tx(j)))))
R = z3.String('R')          # "".join(pieces) at loop head
def B(Rx, k): return sub(Rx, offs(k), offs(k) + gap(k)) == sub(text, prev_end(k), s(k))
def C(Rx, k): return sub(Rx, offs(k) + gap(k), offs(k + 1)) == tx(k)
def inv(Rx, k):
    return z3.And(0 <= k, k <= n, z3.Length(Rx) == offs(k),
                  z3.ForAll([j], z3.Implies(z3.And(0 <= j, j < k), z3.And(B(Rx, j), C(Rx, j)))))
# loop body: pieces.append(text[last:start] + t); last = end      with last == prev_end(i)
R2 = z3.Concat(R, sub(text, prev_end(i), s(i)), tx(i))
jj = z3.Int('jj')
# ground facts the generator instantiates (R1): pre and ghost at i and jj; offs monotone needs induction -> ghost lemma below
def pre_at(k): return z3.Implies(z3.And(0 <= k, k < n), z3.And(0 <= s(k), prev_end(k) <= s(k), s(k) <= e(k), e(k) <= L))
def ghost_at(k): return z3.Implies(z3.And(0 <= k, k < n), offs(k + 1) == offs(k) + gap(k) + z3.Length(tx(k)))
mono = z3.ForAll([j], z3.Implies(z3.And(0 <= j, j < n), z3.And(0 <= offs(j), offs(j) <= offs(j + 1))))   # lemma/offs_mono
def mono_at(k): return z3.Implies(z3.And(0 <= k, k < n), z3.And(0 <= offs(k), offs(k) <= offs(k + 1)))
monole = z3.ForAll([j], z3.Implies(z3.And(0 <= j, j < i), offs(j + 1) <= offs(i)))                         # lemma/offs_le
prove('lemma offs_mono step (induction on j)', [pre_at(jj), ghost_at(jj), 0 <= jj, jj < n, 0 <= offs(jj)],
      z3.And(offs(jj) <= offs(jj + 1), 0 <= offs(jj + 1)))
prove('init', [pre, ghost], inv(z3.StringVal(""), z3.IntVal(0)))
G = [0 <= i, i < n, z3.Length(R) == offs(i), offs(0) == 0, pre_at(i), pre_at(i - 1), ghost_at(i), pre_at(jj), ghost_at(jj), mono_at(i), mono_at(jj)]
prove('pres: length', G, z3.Length(R2) == offs(i + 1))
prove('pres: B,C for old j<i (prefix kept)', G + [0 <= jj, jj < i, offs(jj + 1) <= offs(i), B(R, jj), C(R, jj)], z3.And(B(R2, jj), C(R2, jj)))
prove('pres: B for j==i', G, B(R2, i))
prove('pres: C for j==i', G, C(R2, i))
# after the loop: if last < len(text): pieces.append(text[last:])  -> Rf ; postconditions A, D and B,C kept
Rf = z3.If(e(n - 1) < L, z3.Concat(R, sub(text, e(n - 1), L)), R)
GF = [n >= 1, z3.Length(R) == offs(n), pre_at(n - 1), pre_at(n - 2), mono_at(n - 1), offs(0) == 0]
prove('post A: length', GF, z3.Length(Rf) == offs(n) + L - e(n - 1))
prove('post D: tail kept', GF, sub(Rf, offs(n), z3.Length(Rf)) == sub(text, e(n - 1), L))
prove('post B,C kept', GF + [0 <= jj, jj < n, offs(jj + 1) <= offs(n), pre_at(jj), ghost_at(jj), mono_at(jj), B(R, jj), C(R, jj)], z3.And(B(Rf, jj), C(Rf, jj)))
# mutants that must be refuted
R2m = z3.Concat(R, sub(text, prev_end(i), e(i)), tx(i))          # slices up to `end` instead of `start`
prove('MUTANT text[last:end]: length must fail', G, z3.Length(R2m) == offs(i + 1), expect='sat')
summary()

import tempfile, os, shutil
from rope.base.project import Project
from rope.refactor.extract import ExtractMethod
d = tempfile.mkdtemp()
p = Project(d, ropefolder=None)
src = '''def f(c, d):
    x = 0
    if c:
        if d:
            pass
        x = 1
    print(x)

f(False, False)
'''
f = p.root.create_file("m.py"); f.write(src)
start = src.index("    if c:")
end = src.index("    print(x)")
ch = ExtractMethod(p, f, start, end).get_changes("g")
p.do(ch)
print(f.read())
import subprocess
print(subprocess.run(["/venv/bin/python", os.path.join(d, "m.py")], capture_output=True, text=True))
shutil.rmtree(d)

import itertools, tempfile, shutil, warnings, time
warnings.simplefilter("ignore")
from rope.base.project import Project
from rope.base import exceptions
from rope.refactor import change_signature as cs
d_ = tempfile.mkdtemp(); p = Project(d_, ropefolder=None); f = p.root.create_file("m.py")
sigs = ["a", "a, b", "a, b=20", "a=10, b=20", "a, b, c=30", "a, *args", "a, b=20, *args", "a, **kw", "a, b=20, **kw", "a, *args, **kw",
        "a, *, k", "a, *, k=40", "a, /, b", "a, b=20, *, k=40", "self_like, a"]
calls = ["1", "1, 2", "1, 2, 3", "a=1", "1, b=2", "b=2, a=1", "a=1, b=2, c=3", "1, 2, 3, 4", "1, k=4", "1, 2, k=4", "1, x=9", "1, b=2, x=9", "*[1, 2]", "1, *[2]", "1, **{'b': 2}", "a=1, k=4"]
def bind(sig, call):
    ns = {}
    try:
        exec("def f(%s):\n    return dict(locals())\nr = f(%s)\n" % (sig, call), ns)
        return ns["r"]
    except Exception as e:
        return "ERR:" + type(e).__name__
def changers_for(n):
    out = [("normalize", lambda: [cs.ArgumentNormalizer()], None)]
    if n >= 2: out.append(("swap01", lambda: [cs.ArgumentReorderer([1, 0] + list(range(2, n)))], None))
    if n >= 1: out.append(("remove_last", lambda: [cs.ArgumentRemover(n - 1)], ("removed", n - 1)))
    out.append(("add0_default", lambda: [cs.ArgumentAdder(0, "zz", "99")], ("added", "zz", 99)))
    out.append(("add_end_value", lambda: [cs.ArgumentAdder(n, "zz", None, "77")], ("added", "zz", 77)))
    if n >= 2: out.append(("inline_default1", lambda: [cs.ArgumentDefaultInliner(1)], None))
    return out
bad = {}; n_ok = 0; refused = 0; t0 = time.time()
for sig in sigs:
    for call in calls:
        before = bind(sig, call)
        if isinstance(before, str): continue            # the original call is itself invalid
        src = "def f(%s):\n    return dict(locals())\nr = f(%s)\n" % (sig, call)
        f.write(src)
        try:
            chg = cs.ChangeSignature(p, f, src.index("f("))
            nparams = len(chg.get_args())
        except exceptions.RopeError: continue
        except Exception as e: bad.setdefault("INTERNAL(init) " + type(e).__name__, []).append((sig, call)); continue
        for cname, mk, info in changers_for(nparams):
            f.write(src)
            try:
                ch = cs.ChangeSignature(p, f, src.index("f(")).get_changes(mk())
            except exceptions.RopeError: refused += 1; continue
            except Exception as e:
                bad.setdefault("INTERNAL " + type(e).__name__, []).append((cname, sig, call)); continue
            new = ch.changes[0].new_contents if ch.changes else src
            ns = {}
            try: exec(new, ns); after = ns["r"]
            except SyntaxError: bad.setdefault("SYNTAX", []).append((cname, sig, call, new)); continue
            except Exception as e: bad.setdefault("RUNTIME " + type(e).__name__, []).append((cname, sig, call, new)); continue
            n_ok += 1
            surv = {k: v for k, v in before.items() if k in after}
            if info and info[0] == "added": after = {k: v for k, v in after.items() if k != info[1]}
            removed_ok = True
            # every surviving parameter keeps its value
            if any(after.get(k) != v for k, v in surv.items()):
                bad.setdefault("BINDING", []).append((cname, sig, call, before, ns["r"], new.split("\n")[0] + " | " + new.strip().split("\n")[-1]))
print(n_ok, refused, {k: len(v) for k, v in bad.items()}, round(time.time() - t0, 1))
for k, v in bad.items():
    seen = set()
    for item in v:
        key = (item[0], item[1]) if k != "BINDING" else (item[0], item[1])
        if key in seen: continue
        seen.add(key)
        if len(seen) > 8: break
        print("==", k, item[:3], item[-1] if len(item) > 3 else "")
shutil.rmtree(d_)

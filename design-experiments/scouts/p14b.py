import itertools, tokenize, io, time, warnings, token
warnings.simplefilter("ignore")
from rope.base import codeanalyze, worder
alpha = ["a", "b1", ".", "(", ")", "[", "]", "'", '"', "#", "\\\n", "\n", " ", ";", "=", ",", ":"]
def stmt_regions(src):
    """tokenizer statement boundaries: a logical line runs from the line after the previous NEWLINE/NL to its NEWLINE"""
    out = []; prev_end = 0; has_code = False
    for t in tokenize.generate_tokens(io.StringIO(src).readline):
        if t.type in (tokenize.INDENT, tokenize.DEDENT, tokenize.ENDMARKER, tokenize.COMMENT): continue
        if t.type == tokenize.NL:
            if not has_code: prev_end = t.start[0]
            continue
        if t.type == tokenize.NEWLINE:
            out.append((prev_end + 1, t.start[0])); prev_end = t.start[0]; has_code = False
            continue
        has_code = True
    return out
def name_tokens(src):
    lines = src.splitlines(True); starts = [0]
    for l in lines: starts.append(starts[-1] + len(l))
    return [(starts[t.start[0] - 1] + t.start[1], starts[t.end[0] - 1] + t.end[1], t.string) for t in tokenize.generate_tokens(io.StringIO(src).readline) if t.type == tokenize.NAME]
bad = {}; n = 0; t0 = time.time()
for L in range(1, 6):
    for tup in itertools.product(alpha, repeat=L):
        s = "".join(tup) + "\n"
        try: compile(s, "x", "exec"); regs = stmt_regions(s); names = name_tokens(s)
        except (SyntaxError, tokenize.TokenError, ValueError, IndentationError): continue
        if ";" in s: regs_ok = False
        n += 1
        lines = codeanalyze.SourceLinesAdapter(s)
        for gen_name, gen in (("custom", codeanalyze.custom_generator), ("tokenizer", lambda l: list(codeanalyze.tokenizer_generator(l)))):
            try:
                got = [tuple(r) for r in gen(lines)]
            except Exception as e:
                bad.setdefault("EXC %s %s" % (gen_name, type(e).__name__), []).append(s); continue
            src_lines = s.split("\n")
            got = [r for r in got if src_lines[r[0] - 1].strip() and not src_lines[r[0] - 1].lstrip().startswith("#")]
            if ";" not in s and got != regs:
                bad.setdefault("LOGICAL LINES " + gen_name, []).append((s, regs, got))
        w = worder.Worder(s)
        for (a, b, text) in names:
            for off in range(a, b):
                try:
                    if w.get_word_at(off) != text or w.get_word_range(off) != (a, b):
                        bad.setdefault("WORD", []).append((s, off, text, w.get_word_at(off), w.get_word_range(off))); break
                except Exception as e:
                    bad.setdefault("EXC word " + type(e).__name__, []).append((s, off)); break
print(n, {k: len(v) for k, v in bad.items()}, round(time.time() - t0, 1))
for k, v in bad.items():
    vv = [i for i in v if not (i[0] if isinstance(i, tuple) else i).lstrip().startswith("\\")]
    print(k, "non-backslash-leading:", len(vv))
    for item in vv[:12]: print("==", k, repr(item))

import tempfile, os, shutil
from rope.base.project import Project
from rope.refactor.rename import Rename
d = tempfile.mkdtemp()
p = Project(d, ropefolder=None)
def ren(src, at, new, occ=0):
    f = p.get_file("m.py")
    if not f.exists(): f.create()
    f.write(src)
    off = -1
    for _ in range(occ+1): off = src.index(at, off+1)
    try:
        ch = Rename(p, f, off).get_changes(new)
        p.do(ch)
        return f.read()
    except Exception as e:
        return "EXC %s %s" % (type(e).__name__, e)
print(ren('''def outer():
    x = 0
    def inner():
        nonlocal x
        x = 1
    inner()
    return x
print(outer())
''', "x", "y"))
print(ren('''def f(a, /, b, *, c):
    return a + b + c
print(f(1, b=2, c=3))
''', "c", "k"))
print(ren('''def f(a, /, b, *, c):
    return a + b + c
print(f(1, b=2, c=3))
''', "a", "k"))
print(ren('''x = 1
class A:
    x = 2
    y = [x for _ in range(2)]
print(A.y)
''', "x", "z", occ=1))
print(ren('''def f():
    if (n := 10) > 5:
        return n
print(f())
''', "n", "m"))
print(ren('''def f(v):
    match v:
        case [a, b]:
            return a + b
        case {"k": kk}:
            return kk
print(f([1,2]))
''', "a", "m"))
shutil.rmtree(d)

import itertools, tokenize, io, sys
from rope.base import simplify
alpha = ["a", "'", "\"", "f", "{", "}", "#", "\n", "\\"]
def tok_regions(src):
    out = []
    lines = src.splitlines(True)
    starts = [0]
    for l in lines: starts.append(starts[-1] + len(l))
    def off(p): return starts[p[0]-1] + p[1]
    fstart = None
    for t in tokenize.generate_tokens(io.StringIO(src).readline):
        if t.type in (tokenize.STRING, tokenize.COMMENT):
            out.append((off(t.start), off(t.end)))
        elif t.type == tokenize.FSTRING_START:
            fstart = off(t.start)
        elif t.type == tokenize.FSTRING_END:
            out.append((fstart, off(t.end))); 
    return out
bad = 0; n = 0; samples = []
for L in range(1, 8):
    for tup in itertools.product(alpha, repeat=L):
        s = "".join(tup) + "\n"
        try:
            compile(s, "x", "exec")
            tr = tok_regions(s)
        except (SyntaxError, tokenize.TokenError, ValueError, IndentationError):
            continue
        n += 1
        rr = [(a, b) for a, b, _ in simplify.ignored_regions(s)]
        if rr != tr:
            bad += 1
            if len(samples) < 25: samples.append((s, tr, rr))
print(n, bad)
for s in samples: print(repr(s[0]), s[1], s[2])

import glob, ast, warnings, sys
warnings.simplefilter("ignore")
from rope.refactor import patchedast
files = sorted(glob.glob("/repo/rope/**/*.py", recursive=True) + glob.glob("/repo/ropetest/**/*.py", recursive=True))
import sysconfig, os
std = sorted(glob.glob(os.path.join(sysconfig.get_paths()["stdlib"], "*.py")))[:120]
bad = []; n = 0; nodes = 0; unp = {}
def check(src, name):
    global nodes
    try:
        node = patchedast.get_patched_ast(src, True)
    except Exception as e:
        return "EXC %s %s" % (type(e).__name__, str(e)[:80])
    if patchedast.write_ast(node) != src: return "write_ast != source"
    # region nesting + text == write_ast(child)
    for parent in ast.walk(node):
        if not hasattr(parent, "region"):
            unp[type(parent).__name__] = unp.get(type(parent).__name__, 0) + 1
            continue
        nodes += 1
        ps, pe = parent.region
        if hasattr(parent, "sorted_children"):
            txt = patchedast.write_ast(parent)
            if txt != src[ps:pe]: return "region text mismatch %s at %s" % (type(parent).__name__, parent.region)
        for ch in ast.iter_child_nodes(parent):
            if hasattr(ch, "region"):
                cs, ce = ch.region
                if not (ps <= cs <= ce <= pe): return "child region outside parent: %s %s in %s %s" % (type(ch).__name__, ch.region, type(parent).__name__, parent.region)
    return None
for f in files + std:
    src = open(f, encoding="utf-8").read()
    try: ast.parse(src)
    except Exception: continue
    n += 1
    r = check(src, f)
    if r: bad.append((f, r))
print(n, nodes, len(bad), unp)
for b in bad[:30]: print(b)

import os, random, shutil, tempfile, warnings, itertools, time
warnings.simplefilter("ignore")
from rope.base.project import Project
from rope.base import exceptions, libutils
from rope.contrib import findit
def queries(p):
    out = {}
    out["files"] = sorted(f.path for f in p.get_files())
    out["pyfiles"] = sorted(f.path for f in p.get_python_files())
    for name in ("a", "b", "pkg", "pkg.m", "pkg.n", "pkg2", "pkg2.m", "c"):
        r = p.find_module(name)
        out["find:" + name] = r.path if r is not None else None
    for f in sorted(p.get_python_files(), key=lambda f: f.path):
        try:
            m = p.get_pymodule(f)
            out["src:" + f.path] = m.source_code
            attrs = {}
            for k, v in m.get_attributes().items():
                try:
                    loc = v.get_definition_location()
                    attrs[k] = (loc[0].get_resource().path if loc[0] is not None and loc[0].get_resource() is not None else None, loc[1])
                except Exception as e:
                    attrs[k] = "EXC " + type(e).__name__
            out["attrs:" + f.path] = attrs
        except exceptions.ModuleSyntaxError:
            out["src:" + f.path] = "SYNTAX"
    return out
contents = ["x = 1\n", "def f():\n    return 1\n", "from a import x\ny = x\n", "import pkg.m\nz = pkg.m\n", "from pkg import m\n", "class K:\n    attr = 2\n"]
paths = ["a.py", "b.py", "c.py", "pkg/__init__.py", "pkg/m.py", "pkg/n.py"]
def ops(rng, p, root):
    kind = rng.choice(["write", "write", "create", "remove", "move", "movepkg", "ext_write", "ext_remove", "ext_create", "undo", "redo", "query"])
    try:
        if kind == "write":
            f = rng.choice(sorted(p.get_files(), key=lambda r: r.path) or [None])
            if f: f.write(rng.choice(contents))
        elif kind == "create":
            path = rng.choice(paths)
            d = os.path.dirname(path)
            if d and not p.get_folder(d).exists(): p.root.create_folder(d)
            if not p.get_file(path).exists():
                parent = p.get_folder(d) if d else p.root
                parent.create_file(os.path.basename(path)).write(rng.choice(contents))
        elif kind == "remove":
            f = rng.choice(sorted(p.get_files(), key=lambda r: r.path) or [None])
            if f: f.remove()
        elif kind == "move":
            f = rng.choice(sorted(p.get_files(), key=lambda r: r.path) or [None])
            if f:
                dest = rng.choice(["a.py", "b.py", "c.py"])
                if not p.get_file(dest).exists(): f.move(dest)
        elif kind == "movepkg":
            if p.get_folder("pkg").exists() and not p.get_folder("pkg2").exists(): p.get_folder("pkg").move("pkg2")
            elif p.get_folder("pkg2").exists() and not p.get_folder("pkg").exists(): p.get_folder("pkg2").move("pkg")
        elif kind == "ext_write":
            fs = sorted(p.get_files(), key=lambda r: r.path)
            if fs:
                f = rng.choice(fs); time.sleep(0.01)
                open(f.real_path, "w").write(rng.choice(contents) + "# %d\n" % rng.randrange(10**6)); p.validate()
        elif kind == "ext_remove":
            fs = sorted(p.get_files(), key=lambda r: r.path)
            if fs: os.remove(rng.choice(fs).real_path); p.validate()
        elif kind == "ext_create":
            path = os.path.join(root, rng.choice(["a.py", "b.py", "c.py"]))
            if not os.path.exists(path): open(path, "w").write(rng.choice(contents)); p.validate()
        elif kind == "undo":
            if p.history.undo_list: p.history.undo()
        elif kind == "redo":
            if p.history.redo_list: p.history.redo()
        elif kind == "query":
            queries(p)
    except (exceptions.RopeError, NotImplementedError, OSError) as e:
        pass
    return kind
bad = []
t0 = time.time(); runs = 0
for seed in range(400):
    rng = random.Random(seed)
    root = tempfile.mkdtemp()
    p = Project(root, ropefolder=None)
    trace = []
    for step in range(14):
        trace.append(ops(rng, p, root))
        if rng.random() < 0.5: queries(p)   # warm caches
        warm = queries(p)
        q = Project(root, ropefolder=None)
        fresh = queries(q); q.close()
        runs += 1
        if warm != fresh:
            diff = [k for k in set(warm) | set(fresh) if warm.get(k) != fresh.get(k)]
            bad.append((seed, step, trace[:], diff[:3], {k: (warm.get(k), fresh.get(k)) for k in diff[:1]}))
            break
    p.close(); shutil.rmtree(root)
print(runs, len(bad), round(time.time() - t0, 1))
seen = set()
for b in bad:
    key = (b[2][-1], tuple(sorted(x.split(":")[0] for x in b[3])))
    if key in seen: continue
    seen.add(key); print(b)

import tempfile, shutil, warnings, itertools, os
warnings.simplefilter("ignore")
from rope.base.project import Project
from rope.base import libutils
from rope.refactor.importutils import ImportOrganizer
d = tempfile.mkdtemp()
stmts = ["import pkg", "import pkg.mod", "import pkg.mod as pm", "from pkg import mod", "from pkg import mod as m2", "from pkg.mod import a", "from pkg.mod import a as aa, b",
         "from pkg.mod import *", "import os", "import os, sys", "from __future__ import annotations", "from . import sib", "from .sib import s", "import pkg.other"]
uses = ["pkg", "pkg.mod.a", "pm.a", "mod.a", "m2", "a", "aa", "b", "os.sep", "sys", "sib", "s", "pkg.other.o", "pkg.mod.b", "__all__ = ['a']", "__all__ = ['mod']"]
def mk():
    if os.path.exists(d): shutil.rmtree(d)
    os.mkdir(d)
    p = Project(d, ropefolder=None)
    pk = p.root.create_folder("pkg"); pk.create_file("__init__.py")
    pk.create_file("mod.py").write("a = 1\nb = 2\n"); pk.create_file("other.py").write("o = 1\n")
    top = p.root.create_folder("top"); top.create_file("__init__.py"); top.create_file("sib.py").write("s = 1\n")
    return p, top
p, top = mk()
f = top.create_file("m.py")
acts = ["organize_imports", "expand_star_imports", "froms_to_imports", "relatives_to_absolutes", "handle_long_imports"]
bad = []; n = 0
def resolvable(src):
    m = libutils.get_string_module(p, src, f)
    return m
for k in (1, 2):
    for imps in itertools.permutations(stmts, k):
        if "from __future__ import annotations" in imps and imps[0] != "from __future__ import annotations": continue
        for us in itertools.combinations(uses, 2):
            body = "\n".join(u if u.startswith("__all__") else "print(%s)" % u for u in us)
            src = "\n".join(imps) + "\n\n" + body + "\n"
            for act in acts:
                f.write(src)
                org = ImportOrganizer(p)
                try:
                    ch = getattr(org, act)(f)
                    if ch is None: continue
                    p.do(ch); once = f.read()
                    ch2 = getattr(ImportOrganizer(p), act)(f)
                    n += 1
                    if ch2 is not None:
                        p.do(ch2); twice = f.read()
                        if twice != once:
                            bad.append(("NOT IDEMPOTENT", act, src, once, twice))
                    try: compile(once, "m", "exec")
                    except SyntaxError as e: bad.append(("SYNTAX", act, src, once))
                except Exception as e:
                    bad.append(("EXC " + type(e).__name__ + " " + str(e)[:60], act, src))
print(n, len(bad))
seen = set()
for b in bad:
    key = (b[0][:20], b[1])
    if key in seen: continue
    seen.add(key); print("-----", b[0], b[1]); [print(repr(x)) for x in b[2:]]
shutil.rmtree(d)

import symtable, tempfile, shutil, warnings
warnings.simplefilter("ignore")
from rope.base.project import Project
from rope.base import libutils
d = tempfile.mkdtemp(); p = Project(d, ropefolder=None)
body_constructs = {
 "assign": "x = 1",
 "tuple_assign": "x, (y, z) = 1, (2, 3)",
 "list_assign": "[x, y] = 1, 2",
 "star_assign": "x, *y = 1, 2, 3",
 "annassign": "x: int = 1",
 "annassign_novalue": "x: int",
 "augassign": "x = 0\nx += 1",
 "walrus": "if (x := 1): pass",
 "walrus_in_comp": "y = [x for a in range(3) if (x := a)]",
 "for": "for x in range(3): pass",
 "for_tuple": "for x, y in []: pass",
 "for_else": "for x in []: pass\nelse: z = 1",
 "while_body": "while False: x = 1",
 "with": "with open('f') as x: pass",
 "with_tuple": "with open('f') as (x, y): pass",
 "with_multi": "with open('f') as x, open('g') as y: pass",
 "except": "try: pass\nexcept Exception as x: pass",
 "try_body": "try: x = 1\nfinally: y = 2",
 "except_star": "try: pass\nexcept* Exception as x: pass",
 "import": "import os",
 "import_dotted": "import os.path",
 "import_as": "import os.path as x",
 "from_import": "from os import path",
 "from_import_as": "from os import path as x",
 "def": "def x(): pass",
 "async_def": "async def x(): pass",
 "class": "class x: pass",
 "decorated": "@staticmethod\ndef x(): pass",
 "global_decl": "global x\nx = 1",
 "match_capture": "match 1:\n    case x: pass",
 "match_seq": "match [1,2]:\n    case [x, *y]: pass",
 "match_map": "match {}:\n    case {'k': x, **y}: pass",
 "match_as": "match 1:\n    case int() as x: pass",
 "match_class": "match 1:\n    case int(real=x): pass",
 "del": "x = 1\ndel x",
 "type_alias": "type x = int",
 "lambda_param": "y = lambda x: x",
 "comp_target": "y = [x for x in range(3)]",
 "nested_def_param": "def g(x, /, y, *a, z, w=1, **k): pass",
 "if_body": "if 1: x = 1\nelse: y = 2",
 "async_for": "async def g():\n    async for x in y: pass",
 "async_with": "async def g():\n    async with a as x: pass",
}
contexts = {
 "module": "{body}\n",
 "function": "def outer():\n{ibody}\n",
 "class": "class C:\n{ibody}\n",
 "method": "class C:\n    def m(self):\n{iibody}\n",
 "nested_nonlocal": "def outer():\n    x = 0\n    def inner():\n        nonlocal x\n{iibody}\n",
}
def indent(s, n): return "\n".join(" " * n + l for l in s.split("\n"))
def sym_scopes(st, path=()):
    out = {}
    def bound(t):
        r = set()
        for s in t.get_symbols():
            if s.is_parameter() or s.is_imported() or (s.is_assigned() and not s.is_global() and not s.is_nonlocal()) or (t.get_type()=="module" and s.is_assigned()):
                r.add(s.get_name())
            elif s.is_namespace() and not s.is_global() and not s.is_nonlocal(): r.add(s.get_name())
        return r
    key = path + ((st.get_type(), st.get_name(), st.get_lineno()),)
    if st.get_type() in ("module", "function", "class"):
        out[(st.get_type(), st.get_name(), st.get_lineno())] = bound(st)
    for c in st.get_children():
        out.update(sym_scopes(c, key))
    return out
def rope_scopes(sc):
    out = {}
    kind = {"Module": "module", "Function": "function", "Class": "class"}.get(sc.get_kind())
    if kind:
        name = "top" if kind == "module" else sc.pyobject.get_name()
        names = set(sc.get_defined_names().keys()) if kind != "function" else set(sc.get_names().keys())
        out[(kind, name, 0 if kind == "module" else sc.get_start())] = names
    for c in sc.get_scopes(): out.update(rope_scopes(c))
    return out
bad = []
for cn, ctx in contexts.items():
    for bn, body in body_constructs.items():
        if cn in ("class",) and bn in ("global_decl",): pass
        src = ctx.format(body=body, ibody=indent(body, 4), iibody=indent(body, 12 if cn=="nested_nonlocal" else 8))
        try: st = symtable.symtable(src, "m", "exec")
        except SyntaxError as e: continue
        try:
            m = libutils.get_string_module(p, src)
            rs = rope_scopes(m.get_scope())
        except Exception as e:
            bad.append((cn, bn, "EXC " + type(e).__name__ + str(e)[:60])); continue
        ss = sym_scopes(st)
        for (k, nm, ln), names in ss.items():
            rk = (k, "top" if k == "module" else nm, 0 if k == "module" else ln)
            rn = rs.get(rk)
            if nm in ("lambda", "listcomp", "genexpr") : continue
            if rn is None:
                # decorated defs: rope start line vs symtable
                cand = [v for kk, v in rs.items() if kk[0]==k and kk[1]==rk[1]]
                rn = cand[0] if cand else None
            if rn is None: bad.append((cn, bn, "scope missing", k, nm, ln)); continue
            if rn != names:
                bad.append((cn, bn, k, nm, "missing=%s extra=%s" % (sorted(names - rn), sorted(rn - names))))
for b in bad: print(b)
print(len(bad))
shutil.rmtree(d)

import itertools, re, tokenize, io, time
from rope.base import fscommands
PEP = re.compile(r"^[ \t\f]*#.*?coding[:=][ \t]*([-_.a-zA-Z0-9]+)")
alpha = ["#", " ", "coding", ":", "=", "x", "-", ".", "1", "\n", "en"]
bad = []; n = 0; t0 = time.time()
for L in range(1, 7):
    for tup in itertools.product(alpha, repeat=L):
        if tup[0] not in ("#", " "): continue
        s = "".join(tup)
        n += 1
        exp = None
        for line in s.split("\n", 2)[:2]:
            m = PEP.match(line)
            if m: exp = m.group(1); break
        # the interpreter's own detection
        try: enc_py = tokenize.detect_encoding(io.BytesIO(s.encode("ascii")).readline)[0]
        except SyntaxError: enc_py = "SYNTAXERR"
        got_s = fscommands.read_str_coding(s); got_b = fscommands.read_str_coding(s.encode("ascii"))
        if got_s != exp or got_b != exp:
            bad.append((s, exp, got_s, got_b, enc_py))
print(n, len(bad), round(time.time() - t0, 1))
seen = set()
for b in bad:
    key = (b[1] is None, b[2] is None, b[2] == b[3])
    if key in seen and len(seen) > 3: continue
    seen.add(key); print(b)
    if len(seen) > 10: break
print([b for b in bad if b[2] != b[3]][:5])

import itertools, json
from rope.base.serializer import python_to_json, json_to_python
atoms = [None, 0, 1, -1, True, False, "", "a", "1", "01", "$", "items", "t", "l", "v", "references", "data", "١", "²", "1a", " 1"]
def gen(depth):
    if depth == 0:
        yield from atoms; return
    sub = list(gen(depth-1)) if depth <= 1 else atoms + [(), [], {}, (1,), [1], {"a": 1}, {1: 2}, {"1": 2}, {(1, "a"): [1]}, {None: None}]
    yield from atoms
    for n in range(0, 3):
        for combo in itertools.product(sub, repeat=n):
            yield tuple(combo); yield list(combo)
    def hashable(x):
        try: hash(x); return True
        except TypeError: return False
    keys = [k for k in sub if hashable(k)]
    for n in range(0, 3):
        for ks in itertools.combinations(keys, n):
            for vs in itertools.product(sub[:12] + [(), [], {}], repeat=n):
                try: yield dict(zip(ks, vs))
                except TypeError: pass
def typed_eq(a, b):
    if type(a) is not type(b): return False
    if isinstance(a, (list, tuple)): return len(a) == len(b) and all(typed_eq(x, y) for x, y in zip(a, b))
    if isinstance(a, dict):
        if len(a) != len(b): return False
        for k in a:
            kk = [k2 for k2 in b if typed_eq(k, k2)]
            if len(kk) != 1 or not typed_eq(a[k], b[kk[0]]): return False
        return True
    return a == b
n = bad = rej = 0; samples = []
for depth in (1, 2):
    for o in gen(depth):
        for v in (1, 2):
            try: enc = python_to_json(o, v)
            except (ValueError, TypeError, AssertionError): rej += 1; continue
            n += 1
            try:
                dec = json_to_python(json.loads(json.dumps(enc)))
                ok = typed_eq(dec, o) and json.loads(json.dumps(enc)) == enc
            except Exception as e:
                ok = False; dec = "EXC %r" % e
            if not ok:
                bad += 1
                if len(samples) < 15: samples.append((o, v, enc, dec))
print(n, rej, bad)
for s in samples: print(s)

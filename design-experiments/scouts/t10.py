import tempfile, shutil, warnings
warnings.simplefilter("ignore")
from rope.base.project import Project
from rope.base import exceptions
from rope.refactor import change_signature as cs, inline
d = tempfile.mkdtemp(); p = Project(d, ropefolder=None)
def run(src, fn):
    f = p.get_file("m.py")
    if not f.exists(): f.create()
    f.write(src)
    try:
        ch = fn(f); p.do(ch); return f.read()
    except exceptions.RopeError as e: return "refused %s %s" % (type(e).__name__, e)
    except Exception as e: return "INTERNAL %s %s" % (type(e).__name__, str(e)[:60])
src = "def f(a, b=1, **kw):\n    return a, b, kw\nd = {'x': 1}\nprint(f(1, **d))\nprint(f(1, b=2, **d))\n"
print(run(src, lambda f: cs.ChangeSignature(p, f, src.index("f(")).get_changes([cs.ArgumentNormalizer()])))
src2 = "def f(a, b=1):\n    return a + b\nd = {'b': 1}\nprint(f(1, **d))\n"
print(run(src2, lambda f: inline.create_inline(p, f, src2.index("f(")).get_changes()))
src3 = "def f(a, b):\n    return a, b\nprint(f(2, 3))\n"
print(run(src3, lambda f: cs.ChangeSignature(p, f, src3.index("f(")).get_changes([cs.ArgumentAdder(0, 'c')])))
src4 = "def f(a, *args):\n    return a, args\nprint(f(1, 2, 3))\n"
print(run(src4, lambda f: cs.ChangeSignature(p, f, src4.index("f(")).get_changes([cs.ArgumentAdder(0, 'c', '0')])))
shutil.rmtree(d)

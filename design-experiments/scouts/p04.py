import itertools, tempfile, shutil, warnings, time, ast
warnings.simplefilter("ignore")
from rope.base.project import Project
from rope.base import exceptions
from rope.refactor import inline
d_ = tempfile.mkdtemp(); p = Project(d_, ropefolder=None); f = p.root.create_file("m.py")
sigs = {"a": "(a,)", "a, b": "(a, b)", "a, b=20": "(a, b)", "a=10, b=20": "(a, b)", "a, b=20, c=30": "(a, b, c)", "a, *, k=40": "(a, k)", "a, /, b=20": "(a, b)"}
calls = ["1", "1, 2", "a=1", "1, b=2", "b=2, a=1", "1, 2, 3", "1, c=3", "1, k=4", "b=2", "", "1, b=2, c=3"]
def expected(sig, body, call):
    ns = {}
    try: exec("def f(%s):\n    return %s\nr = f(%s)\n" % (sig, body, call), ns); return ns["r"]
    except Exception as e: return "ERR"
bad = {}; n = 0; t0 = time.time()
for sig, body in sigs.items():
    valid = [c for c in calls if expected(sig, body, c) != "ERR"]
    for c1, c2 in itertools.product(valid, repeat=2):
        src = "def f(%s):\n    return %s\n\nr1 = f(%s)\nr2 = f(%s)\n" % (sig, body, c1, c2)
        f.write(src)
        try:
            ch = inline.create_inline(p, f, src.index("f(")).get_changes()
        except exceptions.RopeError as e: bad.setdefault("refused " + str(e)[:40], []).append((sig, c1, c2)); continue
        except Exception as e: bad.setdefault("INTERNAL " + type(e).__name__, []).append((sig, c1, c2)); continue
        new = ch.changes[0].new_contents; n += 1
        ns = {}
        try: exec(new, ns)
        except Exception as e: bad.setdefault("RESULT " + type(e).__name__, []).append((sig, c1, c2, new)); continue
        e1, e2 = expected(sig, body, c1), expected(sig, body, c2)
        if (ns.get("r1"), ns.get("r2")) != (e1, e2):
            kind = "WRONG 2nd site only (state leak)" if ns.get("r1") == e1 else "WRONG"
            bad.setdefault(kind, []).append((sig, c1, c2, (e1, e2), (ns.get("r1"), ns.get("r2")), new.strip().split("\n")[-2:]))
        if "def f" in new: bad.setdefault("DEFINITION LEFT", []).append((sig, c1, c2))
print(n, {k: len(v) for k, v in bad.items()}, round(time.time() - t0, 1))
for k, v in bad.items():
    for item in v[:4]: print("==", k, item)
shutil.rmtree(d_)

import os, tempfile, shutil, warnings, subprocess
warnings.simplefilter("ignore")
from rope.base.project import Project
from rope.base import exceptions
from rope.refactor.encapsulate_field import EncapsulateField
from rope.refactor.introduce_factory import IntroduceFactory
from rope.refactor.method_object import MethodObject
from rope.refactor.localtofield import LocalToField
def run(root):
    r = subprocess.run(["/venv/bin/python", "main.py"], cwd=root, capture_output=True, text=True)
    return (r.returncode, r.stdout, r.stderr.strip().splitlines()[-1] if r.stderr.strip() else "")
cls = "class A:\n    def __init__(self):\n        self.attr = 1\n        self.other = 2\n"
uses = {
 "read": "a = A()\nprint(a.attr)\n",
 "write": "a = A()\na.attr = 5\nprint(a.attr)\n",
 "aug+": "a = A()\na.attr += 5\nprint(a.attr)\n",
 "aug**": "a = A()\na.attr **= 3\nprint(a.attr)\n",
 "aug//": "a = A()\na.attr //= 2\nprint(a.attr)\n",
 "aug<<": "a = A()\na.attr <<= 2\nprint(a.attr)\n",
 "aug|": "a = A()\na.attr |= 6\nprint(a.attr)\n",
 "write_multiline": "a = A()\na.attr = (1 +\n    2)\nprint(a.attr)\n",
 "write_expr_reads": "a = A()\na.attr = a.attr * 2 + a.other\nprint(a.attr)\n",
 "chain": "class B:\n    def __init__(self):\n        self.a = A()\nb = B()\nb.a.attr = 7\nprint(b.a.attr)\n",
 "call_arg": "a = A()\nprint(max(a.attr, 3))\n",
 "compare": "a = A()\nprint(a.attr == 1, a.attr <= 2, a.attr != 0)\n",
 "walrus": "a = A()\nif (v := a.attr) > 0: print(v)\n",
 "semicolon": "a = A(); a.attr = 3; print(a.attr)\n",
 "write_then_comment": "a = A()\na.attr = 3  # set = it\nprint(a.attr)\n",
 "kwarg_same_name": "def f(attr=0): return attr\na = A()\nprint(f(attr=a.attr))\n",
 "del": "a = A()\ndel a.attr\nprint(hasattr(a, 'attr'))\n",
 "in_other_module": None,
}
bad = []; n = 0
for un, body in uses.items():
    root = tempfile.mkdtemp(); p = Project(root, ropefolder=None)
    if body is None:
        p.root.create_file("mod.py").write(cls)
        p.root.create_file("main.py").write("from mod import A\na = A()\na.attr += 2\nprint(a.attr)\n")
        res, off = p.get_file("mod.py"), cls.index("attr")
    else:
        src = cls + body
        p.root.create_file("main.py").write(src); res, off = p.get_file("main.py"), src.index("attr")
    before = run(root)
    try:
        ch = EncapsulateField(p, res, off).get_changes(); p.do(ch); n += 1
        after = run(root)
        if after != before: bad.append((un, before, after, p.get_file("main.py").read()))
    except exceptions.RopeError as e: print("refused", un, e)
    except Exception as e: bad.append((un, "INTERNAL", type(e).__name__, str(e)[:80]))
    p.close(); shutil.rmtree(root)
print(n, len(bad))
for b in bad: print(b)

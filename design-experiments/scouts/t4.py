import tempfile, os, shutil
from rope.base.project import Project
from rope.base import fscommands
d = tempfile.mkdtemp()
p = Project(d, ropefolder=None)
def rt(data, name="x.py"):
    path = os.path.join(d, name)
    open(path, "wb").write(data)
    f = p.get_file(name)
    txt = f.read()
    # write same text via change
    from rope.base import change
    cs = change.ChangeSet("w"); cs.add_change(change.ChangeContents(f, txt)); p.do(cs)
    after = open(path, "rb").read()
    return after == data, after
cases = {
 "latin1 cookie": "# -*- coding: latin-1 -*-\nx = 'é'\n".encode("latin-1"),
 "encoding-coding": "# encoding coding: latin-1\nx = 'é'\n".encode("latin-1"),
 "cookie dots": "# coding: iso-8859-1\nx = 'é'\n".encode("latin-1"),
 "cookie 2nd line": "#!/usr/bin/python\n# vim: set fileencoding=latin-1 :\nx = 'é'\n".encode("latin-1"),
 "crlf": b"a = 1\r\nb = 2\r\n",
 "cr": b"a = 1\rb = 2\r",
 "mixed": b"a = 1\r\nb = 2\n",
 "no trailing nl": b"a = 1\nb = 2",
 "utf8 bom": b"\xef\xbb\xbfa = 1\n",
 "utf16 cookie?": "# coding: utf-16\nx=1\n".encode("utf-16"),
 "cookie w/ crlf": "# coding: latin-1\r\nx = 'é'\r\n".encode("latin-1"),
 "cookie cr only": "# coding: latin-1\rx = 'é'\r".encode("latin-1"),
 "formfeed": b"a = 1\x0c\nb = 2\n",
 "vt/other linebreaks": "a = '\x0b \x1c \x85  '\n".encode("utf-8"),
}
for k, v in cases.items():
    try:
        ok, after = rt(v)
        print(k, ok, None if ok else (v, after))
    except Exception as e:
        print(k, "EXC", type(e).__name__, e)
shutil.rmtree(d)

import ast, itertools, tempfile, shutil, warnings, re, time
warnings.simplefilter("ignore")
from rope.base.project import Project
from rope.base import exceptions
from rope.refactor.extract import ExtractMethod
stmts = [
 "x = 1", "y = x", "x += 1", "x = x + y",
 "if c:\n    x = 2", "if c:\n    x = 2\nelse:\n    x = 3", "if c:\n    if d:\n        pass\n    x = 1",
 "if c:\n    y = 1\nelif d:\n    x = y",
 "for i in range(c):\n    x = x + i", "for i in range(c):\n    y = i", "while d:\n    d -= 1\n    y = x",
 "print(x, y)", "try:\n    x = int(c)\nexcept ValueError:\n    y = 0", "x, y = y, x",
]
LOCALS = {"x", "y", "c", "d", "i"}
# ---- reference analysis on structured code: UE (upward exposed uses), MUST (definitely assigned), MAY (possibly assigned)
def names(node, ctx):
    return {n.id for n in ast.walk(node) if isinstance(n, ast.Name) and isinstance(n.ctx, ctx)} & LOCALS
def ana_block(body):
    ue, must, may = set(), set(), set()
    for s in body:
        u, mu, ma = ana(s)
        ue |= (u - must); must |= mu; may |= ma
    return ue, must, may
def ana(s):
    if isinstance(s, ast.Assign):
        return names(s.value, ast.Load), names(ast.Module(body=[ast.Expr(t) for t in s.targets], type_ignores=[]), ast.Store), names(ast.Module(body=[ast.Expr(t) for t in s.targets], type_ignores=[]), ast.Store)
    if isinstance(s, ast.AugAssign):
        t = {s.target.id}
        return names(s.value, ast.Load) | t, t, t
    if isinstance(s, ast.Expr): return names(s, ast.Load), set(), set()
    if isinstance(s, ast.Pass): return set(), set(), set()
    if isinstance(s, ast.If):
        u1, m1, a1 = ana_block(s.body); u2, m2, a2 = ana_block(s.orelse)
        return names(s.test, ast.Load) | u1 | u2, m1 & m2, a1 | a2
    if isinstance(s, ast.For):
        t = names(s.target, ast.Store); u, m, a = ana_block(s.body)
        return names(s.iter, ast.Load) | (u - t), set(), a | t
    if isinstance(s, ast.While):
        u, m, a = ana_block(s.body)
        return names(s.test, ast.Load) | u, set(), a
    if isinstance(s, ast.Try):
        u, m, a = ana_block(s.body); ue, may = set(u), set(a); must = None
        for h in s.handlers:
            uh, mh, ah = ana_block(h.body); ue |= uh; may |= ah
        return ue, set(), may          # conservative: nothing definitely assigned across try/except
    raise NotImplementedError(type(s))
d_ = tempfile.mkdtemp(); p = Project(d_, ropefolder=None); f = p.root.create_file("m.py")
bad = {}; n = 0; refused = 0; t0 = time.time()
def indent(s): return "\n".join("    " + l for l in s.split("\n"))
for combo in itertools.product(range(len(stmts)), repeat=3):
    body = [stmts[k] for k in combo]
    for a in range(3):
        for b in range(a + 1, 4):
            pre, reg, post = body[:a], body[a:b], body[b:]
            src = "def f(c, d):\n    x = 0\n    y = 0\n" + "".join(indent(s) + "\n" for s in pre)
            start = len(src)
            src += "".join(indent(s) + "\n" for s in reg)
            end = len(src)
            src += "".join(indent(s) + "\n" for s in post) + "    return x, y\n"
            f.write(src)
            try:
                ch = ExtractMethod(p, f, start, end).get_changes("g")
            except exceptions.RopeError: refused += 1; continue
            except Exception as e:
                bad.setdefault("INTERNAL " + type(e).__name__, []).append(src); continue
            n += 1
            new = ch.changes[0].new_contents
            try: tree = ast.parse(new)
            except SyntaxError: bad.setdefault("SYNTAX", []).append((src, new)); continue
            g = [x for x in tree.body if isinstance(x, ast.FunctionDef) and x.name == "g"][0]
            params = {a_.arg for a_ in g.args.args}
            ret = set()
            if isinstance(g.body[-1], ast.Return) and g.body[-1].value is not None: ret = names(g.body[-1].value, ast.Load)
            R = ast.parse("\n".join(reg)).body; AFTER = ast.parse("\n".join(post) + "\nprint(x, y)").body
            ue, must, may = ana_block(R); ue_after, _, _ = ana_block(AFTER)
            need_params = set(ue) | ((may - must) & ue_after)
            need_ret = may & ue_after
            if not need_params <= params: bad.setdefault("MISSING PARAM", []).append((sorted(need_params - params), "\n".join(reg), "AFTER: " + " ; ".join(post)))
            if not need_ret <= ret: bad.setdefault("MISSING RETURN", []).append((sorted(need_ret - ret), "\n".join(reg), "AFTER: " + " ; ".join(post)))
print(n, refused, {k: len(v) for k, v in bad.items()}, round(time.time() - t0, 1))
for k, v in bad.items():
    seen = set()
    for item in v:
        key = item[1] if isinstance(item, tuple) else item
        if key in seen: continue
        seen.add(key)
        if len(seen) > 6: break
        print("==", k, item)
shutil.rmtree(d_)

import tempfile, os, shutil
from rope.base.project import Project
from rope.base import change, fscommands, taskhandle, exceptions

def snap(d):
    out = {}
    for root, dirs, files in os.walk(d):
        for x in dirs: out[os.path.relpath(os.path.join(root,x), d)] = 'DIR'
        for x in files: out[os.path.relpath(os.path.join(root,x), d)] = open(os.path.join(root,x),'rb').read()
    return out

class Failing(fscommands.FileSystemCommands):
    def __init__(self): self.n = 0; self.fail_at=None
    def _tick(self):
        self.n += 1
        if self.fail_at is not None and self.n == self.fail_at:
            raise OSError("injected")
    def create_file(self, p): self._tick(); super().create_file(p)
    def create_folder(self, p): self._tick(); super().create_folder(p)
    def move(self, p, q): self._tick(); super().move(p, q)
    def remove(self, p): self._tick(); super().remove(p)
    def write(self, p, d): self._tick(); super().write(p, d)

# scenario 1: change contents of f, then move f->g, then failing op
d = tempfile.mkdtemp()
fs = Failing()
p = Project(d, fscommands=fs, ropefolder=None)
f = p.root.create_file("f.py"); f.write("a\n")
before = snap(d)
cs = change.ChangeSet("x")
cs.add_change(change.ChangeContents(f, "b\n"))
cs.add_change(change.MoveResource(f, "g.py"))
cs.add_change(change.CreateFile(p.root, "h.py"))
fs.n = 0; fs.fail_at = 3
try:
    p.do(cs)
except Exception as e:
    print("raised", type(e).__name__, e)
fs.fail_at=None
after = snap(d)
print("before", before); print("after ", after); print("restored:", before == after, "undo_list", len(p.history.undo_list))
shutil.rmtree(d)

# scenario 2: interruption at finished_job
d = tempfile.mkdtemp()
p = Project(d, ropefolder=None)
f = p.root.create_file("f.py"); f.write("a\n")
g = p.root.create_file("g.py"); g.write("a\n")
before = snap(d)
cs = change.ChangeSet("x")
cs.add_change(change.ChangeContents(f, "b\n"))
cs.add_change(change.ChangeContents(g, "b\n"))
h = taskhandle.TaskHandle()
cnt = [0]
def obs():
    cnt[0] += 1
    if cnt[0] == 2:   # jobset created =1, started_job inform =2
        h.stop()
h.add_observer(obs)
try:
    p.do(cs, task_handle=h)
except Exception as e:
    print("raised", type(e).__name__, e)
after = snap(d)
print("before", before); print("after ", after); print("restored:", before == after)
shutil.rmtree(d)

import tempfile, shutil, warnings, subprocess, os
warnings.simplefilter("ignore")
from rope.base.project import Project
from rope.refactor.extract import ExtractMethod
def go(src, region_text, call):
    d = tempfile.mkdtemp(); p = Project(d, ropefolder=None); f = p.root.create_file("m.py"); f.write(src + "\n" + call + "\n")
    def run(): 
        r = subprocess.run(["/venv/bin/python", os.path.join(d, "m.py")], capture_output=True, text=True); return r.stdout.strip() or r.stderr.strip().splitlines()[-1]
    before = run()
    s = src.index(region_text); e = s + len(region_text)
    p.do(ExtractMethod(p, f, s, e).get_changes("g"))
    after = run(); print(f.read()); print("before:", before, "| after:", after); shutil.rmtree(d)
go("def f(c, d):\n    x = 0\n    y = 0\n    x = 1\n    if c:\n        x = 2\n    return x, y\n", "    x = 1\n", "print(f(False, 0))")
go("def f(c, d):\n    x = 0\n    y = 0\n    try:\n        x = int(c)\n    except ValueError:\n        y = 5\n    return x, y\n", "    try:\n        x = int(c)\n    except ValueError:\n        y = 5\n", "print(f('zz', 0))")

import os, tempfile, shutil, warnings, subprocess, itertools
warnings.simplefilter("ignore")
from rope.base.project import Project
from rope.base import exceptions
from rope.refactor import move, rename
from rope.refactor.topackage import ModuleToPackage
def run(root, entry="main.py"):
    r = subprocess.run(["/venv/bin/python", entry], cwd=root, capture_output=True, text=True)
    return (r.returncode, r.stdout, r.stderr.strip().splitlines()[-1] if r.stderr.strip() else "")
clients = {
 "plain": "import src\nprint(src.helper(1), src.CONST)\n",
 "from": "from src import helper, CONST\nprint(helper(1), CONST)\n",
 "from_as": "from src import helper as h, CONST\nprint(h(1), CONST)\n",
 "import_as": "import src as s\nprint(s.helper(1), s.CONST)\n",
 "pkg_plain": "import pkg.mod\nprint(pkg.mod.inner(2))\n",
 "pkg_from": "from pkg import mod\nprint(mod.inner(2))\n",
 "pkg_from_name": "from pkg.mod import inner\nprint(inner(2))\n",
 "pkg_as": "import pkg.mod as pm\nprint(pm.inner(2))\n",
}
def setup(client):
    root = tempfile.mkdtemp(); p = Project(root, ropefolder=None)
    p.root.create_file("src.py").write("import os\nCONST = 5\ndef helper(a):\n    return a + CONST + len(os.sep)\n\ndef other():\n    return helper(2)\n")
    p.root.create_file("dest.py").write("X = 1\n")
    pk = p.root.create_folder("pkg"); pk.create_file("__init__.py")
    pk.create_file("mod.py").write("from . import sib\nfrom .sib import S\ndef inner(a):\n    return a + sib.S + S\n")
    pk.create_file("sib.py").write("S = 10\n")
    sub = p.root.create_folder("sub"); sub.create_file("__init__.py")
    p.root.create_file("main.py").write(clients[client] + "import src\nprint(src.other())\n")
    return root, p
scen = {
 "move helper->dest": lambda p: move.create_move(p, p.get_file("src.py"), p.get_file("src.py").read().index("helper")).get_changes(p.get_file("dest.py")),
 "move CONST->dest": lambda p: move.create_move(p, p.get_file("src.py"), p.get_file("src.py").read().index("CONST")).get_changes(p.get_file("dest.py")),
 "move module src->sub": lambda p: move.create_move(p, p.get_file("src.py")).get_changes(p.get_folder("sub")),
 "move module pkg.mod->sub": lambda p: move.create_move(p, p.get_file("pkg/mod.py")).get_changes(p.get_folder("sub")),
 "move package pkg->sub": lambda p: move.create_move(p, p.get_folder("pkg")).get_changes(p.get_folder("sub")),
 "rename module src->src2": lambda p: rename.Rename(p, p.get_file("src.py")).get_changes("src2"),
 "rename package pkg->pkgx": lambda p: rename.Rename(p, p.get_folder("pkg")).get_changes("pkgx"),
 "rename module pkg.mod->mod2": lambda p: rename.Rename(p, p.get_file("pkg/mod.py")).get_changes("mod2"),
 "to package src": lambda p: ModuleToPackage(p, p.get_file("src.py")).get_changes(),
 "to package pkg.mod": lambda p: ModuleToPackage(p, p.get_file("pkg/mod.py")).get_changes(),
}
bad = []; n = 0
for cn in clients:
    for sn, fn in scen.items():
        root, p = setup(cn)
        before = run(root)
        try:
            ch = fn(p); p.do(ch)
            after = run(root); n += 1
            if after != before: bad.append((cn, sn, before, after))
        except exceptions.RopeError as e:
            pass
        except Exception as e:
            bad.append((cn, sn, "INTERNAL", type(e).__name__, str(e)[:80]))
        p.close(); shutil.rmtree(root)
print(n, len(bad))
for b in bad: print(b)

import tempfile, shutil, warnings, keyword, builtins
warnings.simplefilter("ignore")
from rope.base.project import Project
from rope.base import exceptions
from rope.contrib import codeassist
d = tempfile.mkdtemp(); p = Project(d, ropefolder=None)
mods = ['''import os
from os import path as pth
GLOBAL = 1
class Base:
    attr = 1
    def meth(self, arg, *rest, kw=2, **kws):
        local = arg + self.attr
        for i in range(local):
            if (w := i) > 2:
                print(w, pth, os.sep)
        return [c for c in rest if c]
def func(a, b=GLOBAL):
    with open(a) as fh:
        try:
            data = fh.read()
        except OSError as err:
            data = str(err)
    return Base().meth(data, kw=b)
''']
errs = {}; n = 0; unsound = []
for src in mods:
    for off in range(len(src) + 1):
        n += 1
        try:
            props = codeassist.code_assist(p, src, off)
            start = codeassist.starting_offset(src, off)
            prefix = src[start:off]
            for pr in props:
                if not pr.name.startswith(prefix):
                    unsound.append((off, prefix, pr.name))
        except exceptions.RopeError as e:
            errs.setdefault("Rope:" + type(e).__name__, []).append(off)
        except Exception as e:
            errs.setdefault(type(e).__name__ + ":" + str(e)[:50], []).append(off)
    # truncations of current line at cursor
    for off in range(len(src) + 1):
        line_end = src.find("\n", off)
        if line_end < 0: line_end = len(src)
        cut = src[:off] + src[line_end:]
        n += 1
        try: codeassist.code_assist(p, cut, off)
        except exceptions.RopeError as e: errs.setdefault("T-Rope:" + type(e).__name__, []).append(off)
        except Exception as e: errs.setdefault("T-" + type(e).__name__ + ":" + str(e)[:50], []).append(off)
print(n, {k: (len(v), v[:5]) for k, v in errs.items()}, unsound[:10])
shutil.rmtree(d)

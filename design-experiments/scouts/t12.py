import tempfile, shutil, warnings
warnings.simplefilter("ignore")
from rope.base.project import Project
from rope.refactor.rename import Rename
d = tempfile.mkdtemp(); p = Project(d, ropefolder=None); f = p.root.create_file("m.py")
for src, at, occ in [("d = 5\ndef f(d=d):\n    return d\nprint(f(), d)\n", "d", 1), ("z = 1\nf = lambda z: z + 1\nprint(f(2), z)\n", "z", 0), ("def f(m):\n    return [[c for c in r if c] for r in m]\nprint(f([[1]]))\n", "r", 2)]:
    f.write(src); off = -1
    for _ in range(occ + 1): off = src.index(at, off + 1)
    try:
        p.do(Rename(p, f, off).get_changes("NEW")); print(f.read())
    except Exception as e: print("EXC", type(e).__name__, e)
shutil.rmtree(d)

import ast, warnings, itertools
warnings.simplefilter("ignore")
from rope.refactor import restructure, similarfinder
codes = [
 "x = a + b\ny = a + b * c\nz = (a + b) * c\n",
 "if a:\n    f(a)\nelif b:\n    f(b)\nelse:\n    f(c)\n",
 "r = f(a, b)(c)[d].e\ns = f(a,\n      b)\n",
 "v = -a ** b\nw = (-a) ** b\nu = a if b else c\nt = (a if b else c) + 1\n",
 "for i in x:\n    y = i\n    z = y + i\n",
 "p = not a or b and c\nq = a < b < c\nl = lambda a: a + 1\n",
 "d = {a: b, **c}\ne = [*a, b]\ng = f(*a, **b)\nh = a[b:c, d]\n",
 "s = 'a' 'b'\nt = f'{a}{b!r:>{c}}'\n",
 "x = (yield)\n" if False else "def g():\n    x = yield a\n    return x\n",
 "a = b = c\nx, y = y, x\nx += a\n",
]
def dump(src): return ast.dump(ast.parse(src))
bad = []
n = 0
for code in codes:
    tree = ast.parse(code)
    # patterns: abstract each sub-expression of each statement into a wildcard
    for node in ast.walk(tree):
        if isinstance(node, ast.expr) and hasattr(node, "end_col_offset"):
            seg = ast.get_source_segment(code, node)
            if not seg or "\n" in seg: continue
            # pattern A: the whole segment as literal pattern; goal == pattern
            for pat, goal in ((seg, seg), ("${x}", "${x}"),):
                n += 1
                try:
                    out = restructure.replace(code, pat, goal)
                    if dump(out) != dump(code): bad.append(("IDENTITY", pat, code, out))
                except Exception as e:
                    bad.append(("EXC %s %s" % (type(e).__name__, str(e)[:50]), pat, code))
            # pattern B: replace node by wildcard inside its parent statement: goal wraps in identity
            # pattern C: goal = "(${x})" for pattern "${x}" must keep the AST of the expression contexts
    # parenthesising goal
    for pat, goal in (("${a} + ${b}", "${b} + ${a}"), ("${a} + ${b}", "${a} - -${b}"), ("${a} * ${b}", "${a} * ${b}"), ("f(${a})", "g(${a}, ${a})")):
        n += 1
        try:
            out = restructure.replace(code, pat, goal); ast.parse(out)
        except SyntaxError as e: bad.append(("SYNTAX", pat, goal, code, out))
        except Exception as e: bad.append(("EXC %s %s" % (type(e).__name__, str(e)[:50]), pat, code))
print(n, len(bad))
seen=set()
for b in bad:
    if (b[0], b[1]) in seen: continue
    seen.add((b[0], b[1])); print(b)

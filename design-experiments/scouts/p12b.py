import os, tempfile, shutil, warnings, json
warnings.simplefilter("ignore")
from rope.base.project import Project
from rope.base import change
def snap(d):
    out = {}
    for r, ds, fs in os.walk(d):
        if ".ropeproject" in r: continue
        for x in ds:
            if x != ".ropeproject": out[os.path.relpath(os.path.join(r, x), d)] = "DIR"
        for x in fs: out[os.path.relpath(os.path.join(r, x), d)] = open(os.path.join(r, x), "rb").read()
    return out
def desc(c):
    if isinstance(c, change.ChangeSet): return ("set", c.description, c.time, [desc(x) for x in c.changes])
    if isinstance(c, change.ChangeContents): return ("contents", c.resource.path, c.new_contents, c.old_contents, type(c.resource).__name__)
    if isinstance(c, change.MoveResource): return ("move", c.resource.path, c.new_resource.path, type(c.resource).__name__, type(c.new_resource).__name__)
    if isinstance(c, change.CreateResource): return ("create", c.resource.path, type(c.resource).__name__)
    if isinstance(c, change.RemoveResource): return ("remove", c.resource.path, type(c.resource).__name__)
root = tempfile.mkdtemp(); p = Project(root, save_history=True)
f = p.root.create_file("mö.py"); f.write("x = 'é'\r\ny = 1\r\n"); f.write("x = 'ü'\nline2\n")
pk = p.root.create_folder("pkg"); g = pk.create_file("m.py"); g.write("a = 1\n")
inner = change.ChangeSet("inner"); inner.add_change(change.ChangeContents(g, "a = 2\n"))
outer = change.ChangeSet("outer ünï"); outer.add_change(inner); outer.add_change(change.MoveResource(pk, "pkg2")); p.do(outer)
p.get_file("mö.py").move("n.py")
p.history.undo(); p.history.undo()
states = []
before = ([desc(c) for c in p.history.undo_list], [desc(c) for c in p.history.redo_list])
p.close()
q = Project(root, save_history=True)
after = ([desc(c) for c in q.history.undo_list], [desc(c) for c in q.history.redo_list])
print("lists equal:", before == after)
if before != after:
    for a, b in zip(before[0] + before[1], after[0] + after[1]):
        if a != b: print("  ", a, "\n   !=", b)
# undo/redo after reopen restore same trees as original project would
s = snap(root)
q.history.redo(); s1 = snap(root); q.history.redo(); s2 = snap(root); q.history.undo(); print("redo/undo consistent:", snap(root) == s1)
while q.history.undo_list:
    try: q.history.undo()
    except Exception as e: print("undo exc", type(e).__name__, e); break
print("all undone ->", snap(root))
print(open(os.path.join(root, ".ropeproject", "history.json")).read()[:200])
shutil.rmtree(root)

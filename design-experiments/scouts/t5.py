import tempfile, os, shutil
from rope.base.project import Project
from rope.base import change
def snap(d):
    out = {}
    for root, dirs, files in os.walk(d):
        if '.ropeproject' in root: continue
        for x in dirs:
            if x != '.ropeproject': out[os.path.relpath(os.path.join(root,x), d)] = 'DIR'
        for x in files: out[os.path.relpath(os.path.join(root,x), d)] = open(os.path.join(root,x),'rb').read()
    return out
d = tempfile.mkdtemp()
p = Project(d, save_history=True)
f = p.root.create_file("f.py"); f.write("a\n")
s0 = snap(d)
f.remove()
try:
    p.history.undo()
    print("undo remove ok", snap(d) == s0)
except BaseException as e:
    print("undo remove:", type(e).__name__, e, "undo_list", len(p.history.undo_list), "tree", snap(d))
# folder move + reopen + undo
pk = p.root.create_folder("pkg"); pk.create_file("__init__.py")
s1 = snap(d)
pk.move("pkg2")
s2 = snap(d)
print([str(c) for c in p.history.undo_list], [c.get_description()[:40] for c in p.history.undo_list][-1])
p.close()
q = Project(d, save_history=True)
print([str(c) for c in q.history.undo_list])
q.history.undo()
print("undo after reopen restores:", snap(d) == s1)
q.history.redo()
print("redo after reopen restores:", snap(d) == s2)
# max history
q.close()
r = Project(d, save_history=True, max_history_items=2)
g = r.root.create_file("g.py")
for i in range(5): g.write(str(i))
print("undo len", len(r.history.undo_list))
shutil.rmtree(d)

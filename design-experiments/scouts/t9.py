import tempfile, os, shutil
from rope.base.project import Project
from rope.refactor import change_signature as cs
d = tempfile.mkdtemp()
p = Project(d, ropefolder=None)
def run(src, changers, at="f("):
    f = p.get_file("m.py")
    if not f.exists(): f.create()
    f.write(src)
    try:
        ch = cs.ChangeSignature(p, f, src.index(at)).get_changes(changers)
        p.do(ch); out = f.read()
        try: compile(out, "m", "exec"); ok = "parses"
        except SyntaxError as e: ok = "SYNTAXERROR %s" % e
        return out + "  --> " + ok
    except Exception as e:
        return "EXC %s %s" % (type(e).__name__, e)
print(run("def f(a, *args, b):\n    return a, args, b\nprint(f(1, 2, b=3))\n", [cs.ArgumentNormalizer()]))
print(run("def f(a, *, b=2):\n    return a, b\nprint(f(1, b=3))\n", [cs.ArgumentNormalizer()]))
print(run("def f(a, b=1, *args):\n    return a, b, args\nprint(f(1, 2, 3))\n", [cs.ArgumentAdder(1, 'c', '0')]))
print(run("def f(a, b):\n    return a, b\nprint(f(*[1, 2]))\nprint(f(1, *[2]))\n", [cs.ArgumentReorderer([1, 0])]))
print(run("def f(a, b=1):\n    return a, b\nprint(f(1))\nprint(f(b=3, a=2))\n", [cs.ArgumentDefaultInliner(1)]))
print(run("def f(a, /, b):\n    return a, b\nprint(f(1, b=2))\n", [cs.ArgumentReorderer([1, 0])]))
shutil.rmtree(d)

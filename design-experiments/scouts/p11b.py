import os, tempfile, shutil, warnings
warnings.simplefilter("ignore")
from rope.base.project import Project
from rope.refactor.rename import Rename
def snap(d): return {x: open(os.path.join(d, x)).read() for x in sorted(os.listdir(d)) if x.endswith(".py")}
root = tempfile.mkdtemp(); p = Project(root, ropefolder=None)
a = p.root.create_file("a.py"); a.write("A = 1\n"); b = p.root.create_file("b.py"); b.write("B = 2\n")
s0 = snap(root)
try:
    a.move("b.py"); print("moved onto existing:", snap(root))
    p.history.undo(); print("after undo:", snap(root), "restored:", snap(root) == s0)
except Exception as e: print("EXC", type(e).__name__, e)
shutil.rmtree(root)
root = tempfile.mkdtemp(); p = Project(root, ropefolder=None)
a = p.root.create_file("a.py"); a.write("A = 1\n"); b = p.root.create_file("b.py"); b.write("B = 2\n")
s0 = snap(root)
try:
    ch = Rename(p, a).get_changes("b"); p.do(ch); print("rename module a->b with existing b:", snap(root))
    p.history.undo(); print("after undo:", snap(root), "restored:", snap(root) == s0)
except Exception as e: print("EXC", type(e).__name__, e)
shutil.rmtree(root)

import os, tempfile, shutil, warnings
warnings.simplefilter("ignore")
from rope.base.project import Project
root = tempfile.mkdtemp(); p = Project(root, ropefolder=None)
f = p.root.create_file("b.py"); f.write("x = 1\n"); f.write("x = 2\n")
print("files", sorted(r.path for r in p.get_files()))
os.remove(f.real_path); p.validate()
print("after ext remove", sorted(r.path for r in p.get_files()), os.listdir(root))
p.history.undo()      # undo 'x = 2' write -> writes 'x = 1' into a file that no longer exists
print("after undo: warm", sorted(r.path for r in p.get_files()), "disk", os.listdir(root))
q = Project(root, ropefolder=None); print("fresh", sorted(r.path for r in q.get_files()))
shutil.rmtree(root)

import tempfile, os, shutil
from rope.base.project import Project
from rope.base import libutils
d = tempfile.mkdtemp()
p = Project(d, ropefolder=None)
src = "def f(a, /, b, *args, c, d=1, **kw):\n    x = 1\n    return a + b + c\n"
m = libutils.get_string_module(p, src)
s = m.get_scope().get_scopes()[0]
print(sorted(s.get_names().keys()))
import symtable
st = symtable.symtable(src, "m", "exec").get_children()[0]
print(sorted(st.get_identifiers()))
p.close(); shutil.rmtree(d)

import tempfile, os, shutil, warnings
warnings.simplefilter("ignore")
from rope.base.project import Project
from rope.base import exceptions
from rope.refactor import inline, rename, change_signature, move, encapsulate_field, introduce_factory
def snap(d):
    out = {}
    for root, dirs, files in os.walk(d):
        for x in files:
            pth = os.path.join(root, x); out[os.path.relpath(pth, d)] = open(pth,'rb').read()
    return out
base = tempfile.mkdtemp()
proj = os.path.join(base, "proj"); lib = os.path.join(base, "lib"); os.mkdir(proj); os.mkdir(lib)
open(os.path.join(lib, "extlib.py"), "w").write("def helper(a, b=1):\n    return a + b\n\nclass K:\n    field = 1\n")
src = "import extlib\nx = extlib.helper(1, 2)\nk = extlib.K()\nprint(k.field)\n"
def fresh():
    p = Project(proj, ropefolder=None, python_path=[lib])
    f = p.get_file("m.py")
    if not f.exists(): f.create()
    f.write(src)
    return p, f
def run(name, fn):
    p, f = fresh()
    before = snap(base)
    try:
        ch = fn(p, f)
        mid = snap(base)
        res = [r.path + ("" if r.project is p else " [OUT]") for r in ch.get_changed_resources()]
        p.do(ch)
        after = snap(base)
        changed = sorted(k for k in set(before)|set(after) if before.get(k) != after.get(k))
        print(name, "pure=%s" % (before == mid), "announced", res, "changed on disk", changed)
    except exceptions.RopeError as e:
        print(name, "refused:", type(e).__name__, str(e)[:70], "disk untouched:", snap(base) == before)
    except Exception as e:
        print(name, "INTERNAL", type(e).__name__, str(e)[:80], "disk untouched:", snap(base) == before)
    # restore lib
    open(os.path.join(lib, "extlib.py"), "w").write("def helper(a, b=1):\n    return a + b\n\nclass K:\n    field = 1\n")
    p.close()
run("rename func at use", lambda p, f: rename.Rename(p, f, src.index("helper")).get_changes("aid"))
run("inline func at use", lambda p, f: inline.create_inline(p, f, src.index("helper")).get_changes())
run("chsig at use", lambda p, f: change_signature.ChangeSignature(p, f, src.index("helper")).get_changes([change_signature.ArgumentReorderer([1, 0])]))
run("rename module at use", lambda p, f: rename.Rename(p, f, src.index("extlib")).get_changes("newlib"))
run("encapsulate field at use", lambda p, f: encapsulate_field.EncapsulateField(p, f, src.index("field")).get_changes())
run("factory at use", lambda p, f: introduce_factory.IntroduceFactory(p, f, src.index("K()")).get_changes("create"))
run("move global at use", lambda p, f: move.create_move(p, f, src.index("helper")).get_changes(p.get_file("m.py")))
shutil.rmtree(base)

import os, tempfile, shutil, warnings, time
warnings.simplefilter("ignore")
from rope.base.project import Project
from rope.base import exceptions
from rope.refactor import rename, inline, change_signature as cs, move, encapsulate_field, introduce_factory, method_object, localtofield, usefunction, introduce_parameter, extract
src = '''import os
from os import path as pth
GLOBAL = 1
class Base:
    attr = 1
    def meth(self, arg, *rest, kw=2, **kws):
        local = arg + self.attr
        for i in range(local):
            if (w := i) > 2:
                print(w, pth, os.sep)
        return [c for c in rest if c]
def func(a, b=GLOBAL):
    with open(a) as fh:
        data = fh.read()
    return Base().meth(data, kw=b)
x = func("f", 2)
'''
def snap(d):
    out = {}
    for r, ds, fs in os.walk(d):
        for x in fs: out[os.path.join(r, x)] = open(os.path.join(r, x), "rb").read()
    return out
root = tempfile.mkdtemp(); p = Project(root, ropefolder=None)
f = p.root.create_file("m.py"); f.write(src); p.root.create_file("dest.py").write("")
base = snap(root)
kinds = {
 "Rename": lambda o: rename.Rename(p, f, o).get_changes("zzz"),
 "Inline": lambda o: inline.create_inline(p, f, o).get_changes(),
 "ChangeSignature": lambda o: cs.ChangeSignature(p, f, o).get_changes([cs.ArgumentNormalizer()]),
 "Move": lambda o: move.create_move(p, f, o).get_changes(p.get_file("dest.py")),
 "EncapsulateField": lambda o: encapsulate_field.EncapsulateField(p, f, o).get_changes(),
 "IntroduceFactory": lambda o: introduce_factory.IntroduceFactory(p, f, o).get_changes("create"),
 "MethodObject": lambda o: method_object.MethodObject(p, f, o).get_changes("NewClass"),
 "LocalToField": lambda o: localtofield.LocalToField(p, f, o).get_changes(),
 "UseFunction": lambda o: usefunction.UseFunction(p, f, o).get_changes(),
 "IntroduceParameter": lambda o: introduce_parameter.IntroduceParameter(p, f, o).get_changes("newp"),
 "ExtractVariable(o,o+3)": lambda o: extract.ExtractVariable(p, f, o, min(o + 3, len(src))).get_changes("ev"),
 "ExtractMethod(o,o+9)": lambda o: extract.ExtractMethod(p, f, o, min(o + 9, len(src))).get_changes("em"),
}
res = {}; impure = []; t0 = time.time()
for k, fn in kinds.items():
    for o in range(len(src)):
        try:
            fn(o); key = "ok"
        except exceptions.RopeError as e: key = "Rope:" + type(e).__name__
        except Exception as e: key = "INTERNAL " + type(e).__name__ + ": " + str(e)[:50]
        res.setdefault(k, {}).setdefault(key, []).append(o)
        if snap(root) != base: impure.append((k, o)); 
print(round(time.time() - t0, 1), "impure:", impure[:5])
for k, v in res.items():
    print(k, {kk: (len(vv), vv[:4]) for kk, vv in v.items()})
shutil.rmtree(root)

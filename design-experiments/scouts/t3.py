import tempfile, os, shutil, pickle
from rope.base.project import Project
from rope.base import change
d = tempfile.mkdtemp()
p = Project(d, save_history=True, save_objectdb=True)
f = p.root.create_file("m.py"); f.write("def f(a):\n    return a\nf(1)\n")
p.pycore.analyze_module(f)
p.close()
print(os.listdir(os.path.join(d, ".ropeproject")))
for name in ("history", "objectdb"):
    path = os.path.join(d, ".ropeproject", name)
    data = open(path, "rb").read()
    bad = {}
    for k in range(len(data)+1):
        open(path, "wb").write(data[:k])
        try:
            q = Project(d, save_history=True, save_objectdb=True)
            q.history
            q.get_pymodule(q.get_resource("m.py"))
            q.pycore.object_info  # objectdb
        except BaseException as e:
            bad.setdefault(type(e).__name__, []).append(k)
    open(path, "wb").write(data)
    print(name, len(data), {k:(len(v), v[:3]) for k,v in bad.items()})
shutil.rmtree(d)

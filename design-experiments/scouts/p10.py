import os, itertools, tempfile, shutil, warnings, time
warnings.simplefilter("ignore")
from rope.base.project import Project
from rope.base import change, fscommands, exceptions, taskhandle
def snap(d):
    out = {}
    for r, ds, fs in os.walk(d):
        for x in ds: out[os.path.relpath(os.path.join(r, x), d)] = "DIR"
        for x in fs: out[os.path.relpath(os.path.join(r, x), d)] = open(os.path.join(r, x), "rb").read()
    return out
class Faulty(fscommands.FileSystemCommands):
    def __init__(self): self.n = 0; self.fail_at = None
    def _t(self):
        self.n += 1
        if self.fail_at is not None and self.n == self.fail_at: raise OSError("injected")
    def create_file(self, p): self._t(); super().create_file(p)
    def create_folder(self, p): self._t(); super().create_folder(p)
    def move(self, p, q): self._t(); super().move(p, q)
    def remove(self, p): self._t(); super().remove(p)
    def write(self, p, d): self._t(); super().write(p, d)
def leafs(p):
    f = p.get_file("f.py"); g = p.get_file("g.py"); pk = p.get_folder("pk")
    return {
     "edit_f": lambda: change.ChangeContents(f, "F2\n"),
     "edit_g": lambda: change.ChangeContents(g, "G2\n"),
     "move_f_h": lambda: change.MoveResource(f, "h.py"),
     "move_f_pk": lambda: change.MoveResource(f, "pk/f.py", exact=True),
     "create_n": lambda: change.CreateFile(p.root, "n.py"),
     "create_dir": lambda: change.CreateFolder(p.root, "nd"),
     "create_in_dir": lambda: change.CreateFile(p.get_folder("nd"), "x.py"),
     "remove_g": lambda: change.RemoveResource(g),
     "move_pk": lambda: change.MoveResource(pk, "pk2"),
     "edit_h": lambda: change.ChangeContents(p.get_file("h.py"), "H2\n"),
    }
names = ["edit_f", "edit_g", "move_f_h", "move_f_pk", "create_n", "create_dir", "create_in_dir", "remove_g", "move_pk", "edit_h"]
res = {}; n = 0; t0 = time.time()
def setup():
    root = tempfile.mkdtemp(); fs = Faulty(); p = Project(root, fscommands=fs, ropefolder=None)
    p.root.create_file("f.py").write("F1\n"); p.root.create_file("g.py").write("G1\n"); p.root.create_folder("pk").create_file("__init__.py")
    return root, fs, p
def build(p, combo):
    L = leafs(p); cs = change.ChangeSet("c")
    for nm in combo: cs.add_change(L[nm]())
    return cs
def attempt(combo, fail_at):
    root, fs, p = setup()
    try: cs = build(p, combo)
    except Exception: shutil.rmtree(root); return None
    before = snap(root); hist = (list(p.history.undo_list), list(p.history.redo_list))
    fs.n = 0; fs.fail_at = fail_at
    try: p.do(cs); outcome = "ok"
    except Exception as e: outcome = type(e).__name__
    ops = fs.n; fs.fail_at = None
    r = (outcome, ops, snap(root) == before, (list(p.history.undo_list), list(p.history.redo_list)) == hist)
    shutil.rmtree(root); return r
for k in (2, 3):
    for combo in itertools.permutations(names, k):
        base = attempt(combo, None)
        if base is None: continue
        n += 1
        if base[0] != "ok":                      # natural failure part-way: must roll back
            if not (base[2] and base[3]): res.setdefault(("natural", base[0], "tree" if not base[2] else "hist"), []).append(combo)
            continue
        for fail_at in range(1, base[1] + 1):
            r = attempt(combo, fail_at); n += 1
            if r[0] == "ok": continue
            if not (r[2] and r[3]): res.setdefault(("injected", r[0], "tree" if not r[2] else "hist"), []).append((combo, fail_at))
print(n, {k: len(v) for k, v in res.items()}, round(time.time() - t0, 1))
for k, v in res.items():
    print(k, v[:6])

import tempfile, shutil, warnings, time
warnings.simplefilter("ignore")
from rope.base.project import Project
from rope.base import exceptions
from rope.contrib import findit
from refbinder import Binder
programs = {
 "shadow_param": "x = 1\ndef f(x):\n    return x + 1\nprint(f(x), x)\n",
 "global_decl": "g = 0\ndef f():\n    global g\n    g = g + 1\n    return g\nprint(f(), g)\n",
 "nonlocal": "def outer():\n    n = 0\n    def inner():\n        nonlocal n\n        n += 1\n        return n\n    return inner() + n\nprint(outer())\n",
 "class_attr_vs_global": "v = 1\nclass C:\n    v = 2\n    w = v\n    def m(self):\n        return v\nprint(C.w, C().m(), v)\n",
 "comp_shadow": "i = 10\nr = [i for i in range(3)]\nprint(i, r)\n",
 "comp_outer_ref": "k = 2\nr = [k * j for j in range(3)]\nprint(r, k)\n",
 "walrus_comp": "def f(xs):\n    r = [y for x in xs if (y := x * 2)]\n    return r, y\nprint(f([1, 2]))\n",
 "default_arg": "d = 5\ndef f(d=d):\n    return d\nprint(f(), d)\n",
 "lambda_param": "z = 1\nf = lambda z: z + 1\nprint(f(2), z)\n",
 "import_alias": "import os as o\nprint(o.sep)\ndef f():\n    o = 1\n    return o\n",
 "from_import_as": "from os import sep as s\nprint(s)\ndef f(s):\n    return s\n",
 "except_as": "e = 0\ntry:\n    pass\nexcept Exception as e:\n    print(e)\n",
 "for_target": "t = 0\nfor t in range(2):\n    pass\nprint(t)\ndef f():\n    for t in range(2):\n        pass\n    return t\n",
 "closure": "def mk(a):\n    def add(b):\n        return a + b\n    return add\nprint(mk(1)(2))\n",
 "class_in_func": "def f(p):\n    class K:\n        q = p\n        def m(self):\n            return p\n    return K\n",
 "match_capture": "def f(v):\n    match v:\n        case [a, b]:\n            return a + b\n        case {'k': a}:\n            return a\n    return 0\n",
 "kwonly_posonly": "def f(p, /, q, *, r):\n    return p + q + r\nprint(f(1, 2, r=3))\n",
 "decorator": "def deco(fn):\n    return fn\n@deco\ndef g():\n    return deco\n",
 "kwarg_same_name": "def f(x):\n    return x\nx = 3\nprint(f(x=x))\n",
 "augassign": "c = 0\ndef f():\n    c = 1\n    c += 1\n    return c\nc += 2\n",
 "with_tuple": "def f(cm):\n    with cm as (a, b):\n        return a + b\n",
 "star_assign": "def f(xs):\n    h, *t = xs\n    return h, t\n",
 "global_nested": "g = 0\ndef o():\n    def i():\n        global g\n        g = 1\n    g = 5\n    i()\n    return g\n",
 "class_comp": "x = 1\nclass A:\n    x = 2\n    y = [x for _ in range(2)]\nprint(A.y)\n",
 "two_funcs_same_local": "def f():\n    t = 1\n    return t\ndef g():\n    t = 2\n    return t\n",
 "method_vs_func": "def run():\n    return 1\nclass C:\n    def run(self):\n        return run()\nprint(C().run(), run())\n",
 "self_attr_vs_local": "class C:\n    def __init__(self, val):\n        self.val = val\n        val = val + 1\n    def get(self):\n        return self.val\n",
 "del_name": "def f():\n    u = 1\n    del u\n    u = 2\n    return u\n",
 "nested_comp": "def f(m):\n    return [[c for c in r if c] for r in m]\n",
 "try_else_finally": "def f():\n    try:\n        w = 1\n    except Exception:\n        w = 2\n    else:\n        w += 1\n    finally:\n        print('x')\n    return w\n",
}
d_ = tempfile.mkdtemp(); p = Project(d_, ropefolder=None); f = p.root.create_file("m.py")
bad = {}; n = 0; t0 = time.time()
for pname, src in programs.items():
    f.write(src)
    b = Binder(src); groups = b.bindings()
    tracked = {o for v in groups.values() for o in v}
    for key, offs in groups.items():
        if key[0] in ("builtin",): continue
        name = key[1]
        answers = {}
        for q in offs:
            n += 1
            try:
                locs = findit.find_occurrences(p, f, q)
                got = sorted({l.offset for l in locs if l.resource == f} & tracked)
            except exceptions.RopeError as e: got = "Rope:" + type(e).__name__
            except Exception as e: got = "INTERNAL:" + type(e).__name__
            answers[q] = got
        vals = {repr(v) for v in answers.values()}
        if any(v != offs for v in answers.values()):
            kind = "QUERY-DEPENDENT" if len(vals) > 1 else "WRONG-SET"
            bad.setdefault(kind, []).append((pname, name, offs, answers))
print(n, {k: len(v) for k, v in bad.items()}, round(time.time() - t0, 1))
for k, v in bad.items():
    for item in v: print(k, item[0], item[1], "expected", item[2], "got", item[3])
shutil.rmtree(d_)

import tempfile, os, shutil
from rope.base.project import Project
from rope.refactor import inline
d = tempfile.mkdtemp()
p = Project(d, ropefolder=None)
src = '''def f(a, b=1):
    return a + b

x = f(1, 5)
y = f(2)
print(x, y)
'''
f = p.root.create_file("m.py"); f.write(src)
ch = inline.create_inline(p, f, src.index("f(a")).get_changes()
p.do(ch)
print(f.read())
shutil.rmtree(d)

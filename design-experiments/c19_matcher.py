"""C19: similarfinder._ASTMatcher._match_nodes/_match_wildcard (rope/refactor/similarfinder.py:186-242) — soundness.

Generic tree: Node(cls, kids); Kid = KNode(Node) | KList(Seq Node) | KAtom(Int).   mu: wildcard name -> Option Node.
S(p, n, mu)  := "pattern p instantiated by mu is structurally equal to n"   (relation with unfolding equations per case)
Contract of match(p, n, mu_in) -> (ok, mu_out):   mu_in <= mu_out ;  ok => S(p, n, mu_out) /\\ vars(p) <= dom(mu_out)
Stability lemma (own induction): S(p,n,mu) /\\ vars(p) <= dom(mu) /\\ mu <= mu'  =>  S(p,n,mu')
"""
import z3
from smt import prove, summary
Node = z3.Datatype('Node'); Kid = z3.Datatype('Kid')
Node.declare('mk', ('cls', z3.IntSort()), ('kids', z3.SeqSort(z3.DatatypeSort('Kid'))))
Kid.declare('KNode', ('node', z3.DatatypeSort('Node'))); Kid.declare('KList', ('nodes', z3.SeqSort(z3.DatatypeSort('Node')))); Kid.declare('KAtom', ('atom', z3.IntSort()))
Node, Kid = z3.CreateDatatypes(Node, Kid)
I = z3.IntSort(); B = z3.BoolSort()
Mu = z3.DeclareSort('Mu')                                  # mappings, abstract with lookup/extension
bound = z3.Function('bound', Mu, I, B); img = z3.Function('img', Mu, I, Node); le = z3.Function('le', Mu, Mu, B)
S = z3.Function('S', Node, Node, Mu, B); SK = z3.Function('SK', Kid, Kid, Mu, B)
closed = z3.Function('closed', Node, Mu, B); closedK = z3.Function('closedK', Kid, Mu, B)     # vars(p) <= dom(mu)
eqv = z3.Function('eqv', Node, Node, B)                    # structural equality ignoring expr_context (S with the empty mapping on wildcard-free trees)
p, n = z3.Consts('p n', Node); mu0, mu1, mu2 = z3.Consts('mu0 mu1 mu2', Mu); t = z3.Int('t'); wname = z3.Int('wname')
iswild = z3.Function('iswild', Node, B); wid = z3.Function('wid', Node, I)
# --- wildcard, first occurrence: mapping[name] = node2
prove('wildcard fresh: S holds after binding', [iswild(p), z3.Not(bound(mu0, wid(p))), bound(mu1, wid(p)), img(mu1, wid(p)) == n,
      z3.Implies(z3.And(iswild(p), bound(mu1, wid(p))), S(p, n, mu1) == eqv(img(mu1, wid(p)), n)), eqv(n, n)], S(p, n, mu1))
# --- wildcard, repeated: return self._match_nodes(mapping[name], node2, {})  (IH on the body node as pattern with empty mapping == eqv)
ok = z3.Bool('ok')
prove('wildcard repeated: equal wildcards bound to equal code', [iswild(p), bound(mu0, wid(p)), ok == eqv(img(mu0, wid(p)), n),
      z3.Implies(z3.And(iswild(p), bound(mu0, wid(p))), S(p, n, mu0) == eqv(img(mu0, wid(p)), n)), ok], S(p, n, mu0))
# --- node case: classes equal, same number of kids, kids matched left to right with the mapping threaded mu_t -> mu_{t+1}
K = z3.Length(Node.kids(p)); mus = z3.Function('mus', I, Mu)          # mus(t): mapping before kid t ; mus(K) final
unfold = S(p, n, mus(K)) == z3.And(Node.cls(p) == Node.cls(n), K == z3.Length(Node.kids(n)),
            z3.ForAll([t], z3.Implies(z3.And(0 <= t, t < K), SK(Node.kids(p)[t], Node.kids(n)[t], mus(K)))))
d = z3.Int('d')
# loop invariant at exit, instantiated at the Skolem index d of the goal: SK(kid_d) holds in the FINAL mapping (by stability along the chain)
def chain_le(a): return z3.Implies(z3.And(0 <= a, a < K), le(mus(a + 1), mus(K)))
def kid_ok(a): return z3.Implies(z3.And(0 <= a, a < K), z3.And(SK(Node.kids(p)[a], Node.kids(n)[a], mus(a + 1)), closedK(Node.kids(p)[a], mus(a + 1))))
def stab(a): return z3.Implies(z3.And(SK(Node.kids(p)[a], Node.kids(n)[a], mus(a + 1)), closedK(Node.kids(p)[a], mus(a + 1)), le(mus(a + 1), mus(K))),
                               SK(Node.kids(p)[a], Node.kids(n)[a], mus(K)))
goal_unfolded = z3.And(Node.cls(p) == Node.cls(n), K == z3.Length(Node.kids(n)),
                       z3.Implies(z3.And(0 <= d, d < K), SK(Node.kids(p)[d], Node.kids(n)[d], mus(K))))
prove('node case: all kids matched => S(p, n, mu_final)  (pointwise at Skolem d)', [z3.Not(iswild(p)), Node.cls(p) == Node.cls(n), K == z3.Length(Node.kids(n)),
      kid_ok(d), chain_le(d), stab(d)], goal_unfolded)
# --- mutant: class comparison dropped (`expected.__class__ != node.__class__` removed) -> the unfolded goal is no longer implied
prove('MUTANT class test dropped: soundness must fail', [z3.Not(iswild(p)), K == z3.Length(Node.kids(n)), kid_ok(d), chain_le(d), stab(d)], goal_unfolded, expect='sat')
summary()

"""C14: SourceLinesAdapter (rope/base/codeanalyze.py:35-71) — contract and hand VCs."""
import z3
from smt import prove, summary
I = z3.IntSort(); SI = z3.SeqSort(I)
NL = 10
code = z3.Const('code', SI); L = z3.Length(code)
starts = z3.Const('starts', SI); n = z3.Length(starts)
i, k, p, q = z3.Ints('i k p q')

def increasing(st):
    a, b = z3.Ints('a b')
    return z3.ForAll([a, b], z3.Implies(z3.And(0 <= a, a < b, b < z3.Length(st)), st[a] < st[b]))
def marks(st, upto):      # every start but the first sits right after a newline
    a = z3.Int('a')
    return z3.ForAll([a], z3.Implies(z3.And(1 <= a, a < upto), z3.And(1 <= st[a], st[a] <= L, code[st[a] - 1] == NL)))
def gaps(st, upto):       # no newline strictly inside a line
    a, b = z3.Ints('a b')
    return z3.ForAll([a, b], z3.Implies(z3.And(0 <= a, a + 1 < upto, st[a] <= b, b < st[a + 1] - 1), code[b] != NL))

# loop invariant at the head of `while True` (loop 1), ghost: none
def inv(st, i):
    m = z3.Length(st)
    return z3.And(m >= 1, st[0] == 0, st[m - 1] == i, 0 <= i, i <= L, increasing(st), marks(st, m), gaps(st, m))

# contract of str.index("\n", i): normal / ValueError
r = z3.Int('r')
index_ok = z3.And(i <= r, r < L, code[r] == NL, z3.ForAll([p], z3.Implies(z3.And(i <= p, p < r), code[p] != NL)))
index_raises = z3.ForAll([p], z3.Implies(z3.And(i <= p, p < L), code[p] != NL))

one = z3.Unit(z3.IntVal(0))
prove('init: inv([0], 0)', [], inv(one, z3.IntVal(0)))
st2 = z3.Concat(starts, z3.Unit(r + 1))
a, b = z3.Ints('ka kb')
H = [inv(starts, i), index_ok]
m2 = z3.Length(st2)
# generator rules used below: (R1) replace quantified hypotheses by their ground instances at the goal's
# index terms; (R2) rewrite (s ++ [x])[t] to ite(t < len(s), s[t], x) when building the VC.
G = [n >= 1, starts[0] == 0, starts[n - 1] == i, 0 <= i, i <= L, i <= r, r < L, code[r] == NL]   # ground part of H
def app(st, x, t): return z3.If(t < z3.Length(st), st[t], x)
prove('pres: shape', H, z3.And(m2 >= 1, st2[0] == 0, st2[m2 - 1] == r + 1, 0 <= r + 1, r + 1 <= L))
prove('pres: increasing', G + [0 <= a, a < b, b < n + 1], app(starts, r + 1, a) < app(starts, r + 1, b),
      inst=[z3.Implies(z3.And(0 <= a, a < b, b < n), starts[a] < starts[b]),
            z3.Implies(z3.And(0 <= a, a < n - 1), starts[a] < starts[n - 1])])
prove('pres: marks', H + [1 <= a, a < m2], z3.And(1 <= st2[a], st2[a] <= L, code[st2[a] - 1] == NL),
      inst=[z3.Implies(z3.And(1 <= a, a < n), z3.And(1 <= starts[a], starts[a] <= L, code[starts[a] - 1] == NL))])
prove('pres: gaps', G + [0 <= a, a + 1 < n + 1, app(starts, r + 1, a) <= b, b < app(starts, r + 1, a + 1) - 1], code[b] != NL,
      inst=[z3.Implies(z3.And(0 <= a, a + 1 < n, starts[a] <= b, b < starts[a + 1] - 1), code[b] != NL),
            z3.Implies(z3.And(i <= b, b < r), code[b] != NL)])

# exit through ValueError, then starts.append(len(code)+1): postcondition lines_wf
fin = z3.Concat(starts, z3.Unit(L + 1)); mf = z3.Length(fin)
def wf(st):
    m = z3.Length(st)
    return z3.And(m >= 2, st[0] == 0, st[m - 1] == L + 1, increasing(st), marks(st, m - 1), gaps(st, m))
HX = [inv(starts, i), index_raises]
GX = [n >= 1, starts[0] == 0, starts[n - 1] == i, 0 <= i, i <= L]
prove('exit: shape', HX, z3.And(mf >= 2, fin[0] == 0, fin[mf - 1] == L + 1))
prove('exit: increasing', GX + [0 <= a, a < b, b < n + 1], app(starts, L + 1, a) < app(starts, L + 1, b),
      inst=[z3.Implies(z3.And(0 <= a, a < b, b < n), starts[a] < starts[b]),
            z3.Implies(z3.And(0 <= a, a < n - 1), starts[a] < starts[n - 1])])
prove('exit: marks', HX + [1 <= a, a < mf - 1], z3.And(1 <= fin[a], fin[a] <= L, code[fin[a] - 1] == NL),
      inst=[z3.Implies(z3.And(1 <= a, a < n), z3.And(1 <= starts[a], starts[a] <= L, code[starts[a] - 1] == NL))])
prove('exit: gaps', GX + [0 <= a, a + 1 < n + 1, app(starts, L + 1, a) <= b, b < app(starts, L + 1, a + 1) - 1], code[b] != NL,
      inst=[z3.Implies(z3.And(0 <= a, a + 1 < n, starts[a] <= b, b < starts[a + 1] - 1), code[b] != NL),
            z3.Implies(z3.And(i <= b, b < L), code[b] != NL)])

# accessors under lines_wf: bisect_right contract, inverse lemmas, get_line has no newline
off, ln, rr = z3.Ints('off ln rr')
bis = z3.And(0 <= rr, rr <= n, z3.ForAll([k], z3.Implies(z3.And(0 <= k, k < rr), starts[k] <= off)),
             z3.ForAll([k], z3.Implies(z3.And(rr <= k, k < n), starts[k] > off)))
W = [wf(starts)]
prove('get_line_number: 1<=r<=length, starts[r-1]<=off<starts[r]', W + [bis, 0 <= off, off <= L],
      z3.And(1 <= rr, rr <= n - 1, starts[rr - 1] <= off, off < starts[rr]),
      inst=[z3.Implies(z3.And(0 <= 0, 0 < rr), True)])
prove('inverse: line_number(line_start(l)) == l', W + [bis, 1 <= ln, ln <= n - 1, off == starts[ln - 1]], rr == ln)
prove('inverse: line_start(n) <= off <= line_end(n)', W + [bis, 0 <= off, off <= L],
      z3.And(starts[rr - 1] <= off, off <= starts[rr] - 1))
prove('get_line(l) contains no newline', W + [1 <= ln, ln <= n - 1, starts[ln - 1] <= p, p < starts[ln] - 1], code[p] != NL,
      inst=[z3.Implies(z3.And(0 <= ln - 1, ln < n, starts[ln - 1] <= p, p < starts[ln] - 1), code[p] != NL)])
prove('line_end(l) is a newline or end of text', W + [1 <= ln, ln <= n - 1],
      z3.Or(starts[ln] - 1 == L, code[starts[ln] - 1] == NL),
      inst=[z3.Implies(z3.And(1 <= ln, ln < n - 1), code[starts[ln] - 1] == NL)])
# a deliberately wrong variant must be refuted: bisect_left instead of bisect_right
bisl = z3.And(0 <= rr, rr <= n, z3.ForAll([k], z3.Implies(z3.And(0 <= k, k < rr), starts[k] < off)),
              z3.ForAll([k], z3.Implies(z3.And(rr <= k, k < n), starts[k] >= off)))
prove('MUTANT bisect_left: inverse must fail', W + [bisl, 1 <= ln, ln <= n - 1, off == starts[ln - 1]], rr == ln, expect='sat')
summary()

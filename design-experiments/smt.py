"""Helper for the hand-written VC experiments that back DESIGN.md.

These scripts are measurements made during the design round; they are NOT the
verification framework (no extraction from /repo happens here: the VCs are
written by hand from the source as read on 2026-09-25).  Run with python3-vt.
"""
import subprocess, tempfile, time, os
import z3

RESULTS = []


def prove(name, hyps, goal, inst=(), timeout_ms=10000, expect="unsat"):
    """Check hyps /\\ inst /\\ not goal with z3 5.1, then cvc5 and z3 4.8 on unknown."""
    s = z3.Solver()
    s.set("timeout", timeout_ms)
    s.add(*hyps)
    s.add(*inst)
    s.add(z3.Not(goal))
    t = time.time()
    r = str(s.check())
    used = "z3-5.1"
    dt = time.time() - t
    if r == "unknown":
        smt = "(set-logic ALL)\n" + s.to_smt2()
        with tempfile.NamedTemporaryFile("w", suffix=".smt2", delete=False) as f:
            f.write(smt)
            path = f.name
        for label, cmd in (
            ("cvc5-1.0.3", ["/usr/bin/cvc5", "--strings-exp", "--tlimit=%d" % timeout_ms]),
            ("z3-4.8.12", ["/usr/bin/z3", "-T:%d" % max(1, timeout_ms // 1000)]),
        ):
            t = time.time()
            try:
                out = subprocess.run(cmd + [path], capture_output=True, text=True,
                                     timeout=timeout_ms / 1000 + 5).stdout.strip().splitlines()
                ans = out[0] if out else "unknown"
            except subprocess.TimeoutExpired:
                ans = "timeout"
            if ans in ("unsat", "sat"):
                r, used, dt = ans, label, time.time() - t
                break
        os.unlink(path)
    flag = "" if r == expect else "   <-- expected %s" % expect
    print("%-58s %-8s %-10s %6.3fs%s" % (name, r, used, dt, flag))
    RESULTS.append((name, r, used, dt, expect))
    return r


def summary():
    bad = [x for x in RESULTS if x[1] != x[4]]
    print("-- %d obligations, %d as expected, %d not" % (len(RESULTS), len(RESULTS) - len(bad), len(bad)))
    return not bad

"""Witness predicates for known_findings.json ("pred": name).  Each takes the violation record (property, obligation, witness, clause, why, observed)."""


def continuation_only_line(v):
    """C14 #32: some physical line of the text holds only a continuation backslash."""
    w = v.get("witness")
    src = w[1] if isinstance(w, (list, tuple)) and len(w) == 2 else ""
    lines = src.split("\n")
    return "logical-line" in (v.get("clause") or "") and any(l.strip() == "\\" for l in lines)


def pep701_fstring(v):
    """C14 #13: an f-string whose replacement field contains a quote of the enclosing kind or a newline (PEP 701 syntax)."""
    w = v.get("witness")
    src = w[1] if isinstance(w, (list, tuple)) and len(w) == 2 else ""
    return ("f'{''}'" in src or "f'{a\n}'" in src or 'f"{""}"' in src) and "strings and comments" in (v.get("clause") or "")


def _c06(v):
    w = v.get("witness")
    return w if isinstance(w, (list, tuple)) and len(w) == 3 else None


def c06_invalid_target_signature(v):
    """C06 #26: the requested change itself yields an invalid parameter list (a default before a non-default) and is emitted instead of refused:
    adder/reorderer/default-inliner requests only -- never `normalize` or `remove`, which always describe a valid target."""
    w = _c06(v)
    if not w or w[2] not in ("add0_default", "add_end_value", "swap01", "inline_default1"):
        return False
    res = ((v.get("observed") or {}).get("result") or "")
    first = res.split("\n")[0]
    try:
        compile(first + "\n    pass\n", "d", "exec")
        return False
    except SyntaxError:
        return "does not parse" in (v.get("why") or "")


def c06_double_star_call(v):
    """C06 #22: a call with **mapping makes _FunctionCallParser.get_parameters fail a bare assert."""
    w = _c06(v)
    return bool(w) and "**{" in w[1] and (v.get("observed") or {}).get("exception") == "AssertionError"


def c06_starred_call(v):
    """C06 #10: starred positional call arguments (*[1, 2]) are treated as ordinary positionals."""
    w = _c06(v)
    return bool(w) and "*[" in w[1] and "**{" not in w[1]


def c06_markers_or_vararg_defaults(v):
    """C06 #10: the definition parser drops the keyword-only / positional-only markers and pairs defaults after appending *args."""
    w = _c06(v)
    return bool(w) and ("*, " in w[0] or "/" in w[0] or ("*args" in w[0] and "=" in w[0]))


def c07_all_exports(v):
    """C07 #17: froms_to_imports / expand_star_imports do not treat names listed in __all__ as used."""
    w = v.get("witness")
    if not (isinstance(w, (list, tuple)) and len(w) == 2 and isinstance(w[1], str)):
        return False
    return "__all__" in w[1] and w[0] in ("froms_to_imports", "expand_star_imports") and \
        ("__all__" in (v.get("clause") or "") or "second time" in (v.get("clause") or ""))


def c07_order_dependent_selection(v):
    """C07 #16: with `import pkg.X` and `import pkg.Y` where only `pkg` / `pkg.Y...` is used, which statement provides `pkg` depends on the order,
    and sorting changes the order: the second organize drops an import the first kept."""
    w = v.get("witness")
    if not (isinstance(w, (list, tuple)) and len(w) == 2 and isinstance(w[1], str)):
        return False
    src = w[1]
    header = src.split("\n\n")[0]
    n_pkg = sum(1 for l in header.split("\n") if l.startswith(("import pkg", "from pkg")))
    return w[0] in ("organize_imports", "froms_to_imports") and "second time" in (v.get("clause") or "") and n_pkg >= 2


def c07_star_plus_alias(v):
    """C07: a star import next to an aliased import of the same module: the aliased names are treated as provided by the star import
    (`from pkg.mod import a as aa, b` + `from pkg.mod import *`, using aa -> the aliased import is dropped: NameError), and froms_to_imports on
    `from pkg.mod import *` + `import pkg.mod as pm` is not idempotent."""
    w = v.get("witness")
    if not (isinstance(w, (list, tuple)) and len(w) == 2 and isinstance(w[1], str)):
        return False
    return "import *" in w[1] and " as " in w[1]


def c08_underscore_number(v):
    """C08: numeric literals with underscores (1_000, 0xFFFF_FFFF) are consumed only up to the underscore: the Constant's region is too short."""
    import re
    why = v.get("why") or ""
    return "does not cover the interpreter's span" in why and re.search(r"[0-9a-fA-F]_[0-9a-fA-F]", why.split("): ", 1)[-1]) is not None


def c08_kwonly_default_with_hash(v):
    """C08 #12: _arguments ignores keyword-only / positional-only parameters; their text is scanned as a gap, so a '#' inside a keyword-only default
    (stdlib configparser.py: `comment_prefixes=('#', ';')` after `*`) derails token matching."""
    w = v.get("witness") or []
    return "annotation raised" in (v.get("why") or "") and isinstance(w, list) and len(w) == 2 and str(w[1]).endswith("configparser.py")


def c19_parens_dropped(v):
    """C19: parentheses around code bound to a wildcard are not kept: `(a + b) * c` restructured with `${a} * ${b}` -> `${a} * ${b}` becomes `a + b * c`."""
    o = v.get("observed") or {}
    code, res = o.get("code"), o.get("result")
    if not (isinstance(code, str) and isinstance(res, str)) or o.get("goal") != o.get("pattern"):
        return False
    strip = lambda t: t.replace("(", "").replace(")", "").replace(" ", "")
    return code != res and strip(code) == strip(res)


def c03_sibling_branch_read(v):
    """C03 #31: a read in one branch is dropped when the name was conditionally written in a sibling branch
    (`if c: y = 1` / `elif d: x = y` inside the region: y is not passed in)."""
    o = v.get("observed") or {}
    reg = o.get("region") or []
    if any("elif d:\n    x = y" in s for s in reg):
        return True
    # same rule of _read_variable across sibling statements of the region: a conditional write (`if c: x = ...`) followed by a read of that name inside
    # another conditional construct of the region (`while d: ... y = x`); the extracted function then fails with UnboundLocalError when the first branch is skipped
    text = "\n".join(reg)
    return "UnboundLocalError" in (v.get("why") or "") and "if c:" in text and ("while d:" in text or "for i in" in text) and text.index("if c:") < max(text.find("while d:"), text.find("for i in"))

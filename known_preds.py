"""Witness predicates for known_findings.json ("pred": name).  Each takes the violation record (property, obligation, witness, clause, why, observed)."""


def continuation_only_line(v):
    """C14 #32: some physical line of the text holds only a continuation backslash."""
    w = v.get("witness")
    src = w[1] if isinstance(w, (list, tuple)) and len(w) == 2 else ""
    lines = src.split("\n")
    return "logical-line" in (v.get("clause") or "") and any(l.strip() == "\\" for l in lines)


def pep701_fstring(v):
    """C14 #13: an f-string whose replacement field contains a quote of the enclosing kind or a newline (PEP 701 syntax)."""
    w = v.get("witness")
    src = w[1] if isinstance(w, (list, tuple)) and len(w) == 2 else ""
    return ("f'{''}'" in src or "f'{a\n}'" in src or 'f"{""}"' in src) and "strings and comments" in (v.get("clause") or "")

"""Witness predicates for known_findings.json ("pred": name).  Each takes the violation record (property, obligation, witness, clause, why, observed)."""


def continuation_only_line(v):
    """C14 #32: some physical line of the text holds only a continuation backslash."""
    w = v.get("witness")
    src = w[1] if isinstance(w, (list, tuple)) and len(w) == 2 else ""
    lines = src.split("\n")
    return "logical-line" in (v.get("clause") or "") and any(l.strip() == "\\" for l in lines)


def pep701_fstring(v):
    """C14 #13: an f-string whose replacement field contains a quote of the enclosing kind or a newline (PEP 701 syntax)."""
    w = v.get("witness")
    src = w[1] if isinstance(w, (list, tuple)) and len(w) == 2 else ""
    return ("f'{''}'" in src or "f'{a\n}'" in src or 'f"{""}"' in src) and "strings and comments" in (v.get("clause") or "")


def _c06(v):
    w = v.get("witness")
    return w if isinstance(w, (list, tuple)) and len(w) == 3 else None


def c06_invalid_target_signature(v):
    """C06 #26: the requested change itself yields an invalid parameter list (a default before a non-default) and is emitted instead of refused:
    adder/reorderer/default-inliner requests only -- never `normalize` or `remove`, which always describe a valid target."""
    w = _c06(v)
    if not w or w[2] not in ("add0_default", "add_end_value", "swap01", "inline_default1"):
        return False
    res = ((v.get("observed") or {}).get("result") or "")
    first = res.split("\n")[0]
    try:
        compile(first + "\n    pass\n", "d", "exec")
        return False
    except SyntaxError:
        return "does not parse" in (v.get("why") or "")


def c06_double_star_call(v):
    """C06 #22: a call with **mapping makes _FunctionCallParser.get_parameters fail a bare assert."""
    w = _c06(v)
    return bool(w) and "**{" in w[1] and (v.get("observed") or {}).get("exception") == "AssertionError"


def c06_starred_call(v):
    """C06 #10: starred positional call arguments (*[1, 2]) are treated as ordinary positionals."""
    w = _c06(v)
    return bool(w) and "*[" in w[1] and "**{" not in w[1]


def c06_markers_or_vararg_defaults(v):
    """C06 #10: the definition parser drops the keyword-only / positional-only markers and pairs defaults after appending *args."""
    w = _c06(v)
    return bool(w) and ("*, " in w[0] or "/" in w[0] or ("*args" in w[0] and "=" in w[0]))

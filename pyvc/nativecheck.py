"""Run a real rope function on concrete inputs and evaluate its contract natively."""
import copy
import importlib
import traceback


def resolve(source):
    modname, path = source.split(":")
    obj = importlib.import_module(modname)
    for part in path.split("."):
        obj = getattr(obj, part)
    return obj


def run_contract(reg, c, nat, inputs, fn=None):
    """-> dict(status: 'ok'|'skip'|'fail', why, observed)"""
    fn = fn or resolve(c.source)
    env = dict(inputs)
    env["__param_result_or_result"] = inputs.get("result")
    try:
        pre = nat.prepare(c.requires)
        for text, ok in nat.check(pre, env):
            if ok is False:
                return {"status": "skip", "why": "requires not met: %s" % text}
    except Exception as e:
        return {"status": "skip", "why": "requires not evaluable on this input: %r" % e}
    ens = nat.prepare(c.ensures)
    exc_ens = {k: nat.prepare((v or {}).get("ensures", [])) for k, v in c.raises.items()}
    try:
        oldvals = nat.eval_pre(ens + [p for ps in exc_ens.values() for p in ps], env)
    except Exception as e:
        return {"status": "skip", "why": "old() not evaluable: %r" % e}
    args = [inputs[p] for p in c.params]
    try:
        result = fn(*args)
    except Exception as e:
        cls = type(e).__name__
        decl = next((k for k in c.raises if any(b.__name__ == k for b in type(e).__mro__)), None)
        if decl is None:
            return {"status": "fail", "why": "undeclared exception %s: %s" % (cls, e), "observed": {"exception": cls, "message": str(e)},
                    "clause": "raises_only(%s)" % ",".join(c.raises) }
        try:
            for text, ok in nat.check(exc_ens[decl], env, oldvals):
                if ok is False:
                    return {"status": "fail", "why": "exceptional postcondition false: %s" % text, "observed": {"exception": cls}, "clause": text}
        except Exception as e2:
            return {"status": "skip", "why": "exceptional postcondition not evaluable: %r" % e2}
        when = (c.raises[decl] or {}).get("when")
        return {"status": "ok", "observed": {"exception": cls}}
    env["result"] = result
    if "result" not in c.params:
        env["__param_result_or_result"] = result
    n_ne = 0
    try:
        for text, ok in nat.check(ens, env, oldvals):
            if ok is False:
                return {"status": "fail", "why": "postcondition false: %s" % text, "observed": {"result": _short(result)}, "clause": text}
            if ok is not True:
                n_ne += 1       # a clause that could not be evaluated natively says nothing: the case does not count as non-trivial
    except Exception as e:
        return {"status": "skip", "why": "postcondition not evaluable on this input: %r" % e}
    return {"status": "ok", "observed": {"result": _short(result)}, "nontrivial": n_ne == 0}


def _short(v):
    r = repr(v)
    return r if len(r) < 300 else r[:300] + "..."

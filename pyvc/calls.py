"""Call evaluation: builtins, builtin-type methods, contracted callees (modular), inlined callees."""
import ast
import z3
from . import vtypes as ty
from . import ops
from .vtypes import SV
from .ops import Unsupported
from .state import Outcome, Exc, FieldAlias, Box
from .spec import Env, _dotted


def eval_call(ex, node, st, sink):
    f = node.func
    kw = {k.arg: k.value for k in node.keywords}
    if any(k is None for k in kw):
        raise Unsupported("**kwargs call at line %d" % node.lineno)
    if any(isinstance(a, ast.Starred) for a in node.args):
        raise Unsupported("*args call at line %d" % node.lineno)
    dotted = _dotted(f)
    # externals / module-level functions registered by their dotted source text
    if dotted and dotted in ex.reg.contracts and not (isinstance(f, ast.Name) and f.id in st.vars):
        c = ex.reg.contracts[dotted]
        kw = {k: v for k, v in kw.items() if k not in c.ignored_keywords}   # declared as not modelled (listed with the contract)
        out = []
        for s, vals in ex.ev_list(list(node.args) + list(kw.values()), st, sink):
            pos = vals[:len(node.args)]
            kws = dict(zip(kw.keys(), vals[len(node.args):]))
            out += ex.call_contract(c, pos, kws, s, sink, node)
        return out
    cname = dotted.split(".")[-1] if dotted else None
    if cname and cname in ex.reg.records and not (isinstance(f, ast.Name) and f.id in st.vars) and ex.reg.find_method(cname, "__init__") is not None:
        # constructor: allocate a fresh object of that class, then run/assume __init__
        c = ex.reg.find_method(cname, "__init__")
        out = []
        for s, vals in ex.ev_list(list(node.args) + list(kw.values()), st, sink):
            ref = ty.fresh(ty.RefT(cname), "new_" + cname)
            s.assume(ty.typeof(ref.e) == ex.reg.records[cname].cid)
            # allocation: born(new object) is a fresh positive stamp; everything that existed at entry has born <= 0
            s.assume(ty.born(ref.e) == ex._fresh() + 1)
            pos = [ref] + vals[:len(node.args)]
            kws = dict(zip(kw.keys(), vals[len(node.args):]))
            for s2, _ in ex.call_contract(c, pos, kws, s, sink, node):
                out.append((s2, ref))
        return out
    if isinstance(f, ast.Name):
        name = f.id
        if name in st.vars and hasattr(st.vars[name], "node"):
            return call_closure(ex, st.vars[name], node, st, sink)
        b = BUILTINS.get(name)
        if b is not None and name not in st.vars:
            return b(ex, node, st, sink)
        if name in st.vars:
            v = ex.read_var(st, name)
            if isinstance(v.t, ty.RefT):
                c = ex.reg.find_method(v.t.cls, "__call__")
                if c is not None:
                    out = []
                    for s, vals in ex.ev_list(list(node.args), st, sink):
                        out += ex.call_contract(c, [v] + vals, {}, s, sink, node)
                    return out
        raise Unsupported("call of %s at line %d (no contract, not a modelled builtin)" % (name, node.lineno))
    if isinstance(f, ast.Attribute):
        out = []
        for s, recv in ex.ev(f.value, st, sink):
            out += method_call(ex, f, recv, node, kw, s, sink)
        return out
    if isinstance(f, ast.Call):
        # calling the result of a call: obj(...)  ->  type(obj).__call__(obj, ...)
        out = []
        for s, v in ex.ev(f, st, sink):
            c = ex.reg.find_method(v.t.cls, "__call__") if isinstance(v.t, ty.RefT) else None
            if c is None:
                raise Unsupported("call of a %s value at line %d" % (v.t, node.lineno))
            for s2, vals in ex.ev_list(list(node.args), s, sink):
                out += ex.call_contract(c, [v] + vals, {}, s2, sink, node)
        return out
    raise Unsupported("call form at line %d" % node.lineno)


def call_closure(ex, clo, node, st, sink):
    lam = clo.node
    out = []
    for s, vals in ex.ev_list(node.args, st, sink):
        saved = dict(s.vars)
        for a, v in zip(lam.args.args, vals):
            s.vars[a.arg] = v
        for s2, r in ex.ev(lam.body, s, sink):
            s2.vars = dict(saved)
            out.append((s2, r))
    return out


# ---------------------------------------------------------------------------------------------
# builtins
# ---------------------------------------------------------------------------------------------
def b_len(ex, node, st, sink):
    out = []
    for s, v in ex.ev(node.args[0], st, sink):
        if isinstance(v.t, ty.Opt):
            v = ty.opt_val(v)
        if isinstance(v.t, ty.Tuple):
            out.append((s, SV(ty.Int, z3.IntVal(len(v.t.elems)))))
        else:
            out.append((s, ops.length(v)))
    return out


def b_isinstance(ex, node, st, sink):
    c = node.args[1]
    if isinstance(c, ast.Attribute) and c.attr == "__class__":
        # isinstance(x, y.__class__): x's class is y's class (subclasses among the declared records are not distinguished here: recorded)
        ex.assumptions.add("isinstance(x, y.__class__) read as `same class` (the declared record classes involved have no subclasses)")
        out = []
        for s, (x, y) in ex.ev_list([node.args[0], c.value], st, sink):
            if isinstance(x.t, ty.Opt):
                x = ty.opt_val(x)
            if isinstance(y.t, ty.Opt):
                y = ty.opt_val(y)
            out.append((s, SV(ty.Bool, ty.typeof(x.e) == ty.typeof(y.e))))
        return out
    return [(s, SV(ty.Bool, ex.spec.isinstance_(v, node.args[1]))) for s, v in ex.ev(node.args[0], st, sink)]


def b_str(ex, node, st, sink):
    out = []
    for s, v in ex.ev(node.args[0], st, sink):
        if v.t == ty.Str:
            out.append((s, v))
        elif isinstance(v.t, ty.RefT):
            # str(obj) is only used for messages/job names: an uninterpreted function of the object
            f = z3.Function("str_of_obj", ty.Ref, ty.sort_of(ty.Str))
            out.append((s, SV(ty.Str, f(v.e))))
        elif v.t == ty.Int:
            f = z3.Function("str_of_int", z3.IntSort(), ty.sort_of(ty.Str))
            out.append((s, SV(ty.Str, f(v.e))))
        else:
            out.append((s, ty.fresh(ty.Str, "str")))
    return out


def b_bool(ex, node, st, sink):
    return [(s, SV(ty.Bool, ops.truthy(v))) for s, v in ex.ev(node.args[0], st, sink)]


def b_minmax(ex, node, st, sink):
    name = node.func.id
    out = []
    for s, vals in ex.ev_list(node.args, st, sink):
        if len(vals) != 2 or any(v.t != ty.Int for v in vals):
            raise Unsupported("%s with these arguments" % name)
        a, b = vals
        out.append((s, SV(ty.Int, z3.If(a.e <= b.e, a.e, b.e) if name == "min" else z3.If(a.e >= b.e, a.e, b.e))))
    return out


def b_list(ex, node, st, sink):
    if not node.args:
        return [(st, SV(ty.Seq(ty.Any), None))]
    out = []
    for s, v in ex.ev(node.args[0], st, sink):
        if isinstance(v.t, ty.Seq):
            out.append((s, SV(v.t, v.e)))  # a copy: values are immutable in the encoding
        elif isinstance(v.t, ty.Tuple):
            out.append((s, ops.coerce(v, ty.Seq(v.t.elems[0]))))
        elif isinstance(v.t, ty.Map) and v.e is not None:
            out.append((s, ex.map_keys(s, v)))      # list(d): a snapshot of the keys
        else:
            raise Unsupported("list(%s)" % v.t)
    return out


def _members_of_seq(ex, new, base, seq, x):
    """new == base U elements(seq), in skolemised form (no sequence `contains`, which neither solver links to positions):
    every position of seq is a member; every old member stays; every member is old or sits at the witness position w(x)."""
    n = ex._fresh()
    a = z3.Const("a!mem%d" % n, z3.IntSort())
    w = z3.Function("where_mem!%d" % n, x.sort(), z3.IntSort())
    out = [z3.ForAll([a], z3.Implies(z3.And(0 <= a, a < z3.Length(seq.e)), z3.Select(new, seq.e[a])))]
    at_w = z3.And(0 <= w(x), w(x) < z3.Length(seq.e), seq.e[w(x)] == x)
    if base is None:
        out.append(z3.ForAll([x], z3.Implies(z3.Select(new, x), at_w), patterns=[z3.Select(new, x)]))
    else:
        out.append(z3.ForAll([x], z3.Implies(z3.Select(base, x), z3.Select(new, x)), patterns=[z3.Select(base, x)]))
        out.append(z3.ForAll([x], z3.Implies(z3.Select(new, x), z3.Or(z3.Select(base, x), at_w)), patterns=[z3.Select(new, x)]))
    return out


def b_set(ex, node, st, sink):
    if not node.args:
        return [(st, SV(ty.Set(ty.Any), None))]
    out = []
    for s_, v in ex.ev(node.args[0], st, sink):
        if isinstance(v.t, ty.Set):
            out.append((s_, SV(v.t, v.e)))   # a copy: values are immutable in the encoding
        elif isinstance(v.t, ty.Seq):
            # set(seq): x in result <=> seq contains x
            new = ty.fresh(ty.Set(v.t.elem), "setof")
            x = z3.Const("x!set%d" % ex._fresh(), ty.sort_of(v.t.elem))
            for f in _members_of_seq(ex, new.e, None, v, x):
                s_.assume(f)
            out.append((s_, new))
        else:
            raise Unsupported("set(%s)" % v.t)
    return out


def b_dict(ex, node, st, sink):
    if not node.args and not node.keywords:
        return [(st, SV(ty.Map(ty.Any, ty.Any), None))]
    out = []
    for s, v in ex.ev(node.args[0], st, sink):
        if isinstance(v.t, ty.Map):
            out.append((s, SV(v.t, v.e)))
        else:
            raise Unsupported("dict(%s)" % v.t)
    return out


def b_int(ex, node, st, sink):
    out = []
    for s, v in ex.ev(node.args[0], st, sink):
        if v.t == ty.Int:
            out.append((s, v))
        elif v.t == ty.Bool:
            out.append((s, SV(ty.Int, z3.If(v.e, 1, 0))))
        elif v.t == ty.Str and ty.STR_MODE[0] == "string":
            # int(s): defined on non-empty all-digit strings (str.to_int >= 0); anything else raises ValueError
            # (signs/whitespace/underscores are treated as raising -> over-approximates the exception path only)
            n = z3.StrToInt(v.e)
            out += ex.cases(s, [(n >= 0, "val", SV(ty.Int, n)), (n < 0, "exc", "ValueError")], sink, "L%d" % node.lineno)
        else:
            raise Unsupported("int(%s)" % v.t)
    return out


BUILTINS = {"len": b_len, "isinstance": b_isinstance, "str": b_str, "bool": b_bool, "min": b_minmax, "max": b_minmax,
            "list": b_list, "set": b_set, "dict": b_dict, "int": b_int}


# ---------------------------------------------------------------------------------------------
# methods
# ---------------------------------------------------------------------------------------------
def method_call(ex, f, recv, node, kw, st, sink):
    name = f.attr
    t = recv.t
    if isinstance(t, ty.Opt):
        isn = ty.opt_is_none(recv)
        out = []
        for s2, v in ex.cases(st, [(z3.Not(isn), "val", ty.opt_val(recv)), (isn, "exc", "AttributeError")], sink, "L%d" % node.lineno):
            out += method_call(ex, f, v, node, kw, s2, sink)
        return out
    if isinstance(t, ty.RefT):
        # dynamic dispatch: group the concrete classes the receiver may have by the contract their MRO resolves to
        concrete = [sc for sc in ex.reg.subclasses(t.cls) if not ex.reg.records[sc].abstract]
        groups = {}
        base_c = ex.reg.find_method(t.cls, name)
        if base_c is not None and base_c.abstract:
            # an abstract method contract speaks for every implementation (behavioural subtyping:
            # the implementations under contract are verified separately)
            concrete = []
            groups = {base_c.name: (base_c, [])}
        for sc in concrete:
            cc = ex.reg.find_method(sc, name)
            if cc is None:
                raise Unsupported("no contract for %s.%s (needed for receiver class %s, line %d)" % (sc, name, sc, node.lineno))
            groups.setdefault(cc.name, (cc, []))[1].append(sc)
        if not groups:
            c = ex.reg.find_method(t.cls, name)
            if c is None:
                raise Unsupported("no contract for %s.%s (line %d)" % (t.cls, name, node.lineno))
            groups = {c.name: (c, [])}
        if len(groups) > 1:
            out = []
            for cname_, (cc, scs) in groups.items():
                cond = z3.Or(*[ty.typeof(recv.e) == ex.reg.records[sc].cid for sc in scs])
                if not ex.feasible(st, cond):
                    continue
                s2 = st.copy()
                s2.assume(cond)
                s2.trace.append("L%d:dispatch %s" % (node.lineno, "|".join(scs)))
                narrowed = SV(ty.RefT(scs[0]) if len(scs) == 1 else t, recv.e)
                for s3, vals in ex.ev_list(list(node.args) + list(kw.values()), s2, sink):
                    pos = [narrowed] + vals[:len(node.args)]
                    kws = dict(zip(kw.keys(), vals[len(node.args):]))
                    out += ex.call_contract(cc, pos, kws, s3, sink, node)
            return out
        c = list(groups.values())[0][0]
        out = []
        for s, vals in ex.ev_list(list(node.args) + list(kw.values()), st, sink):
            pos = [recv] + vals[:len(node.args)]
            kws = dict(zip(kw.keys(), vals[len(node.args):]))
            out += ex.call_contract(c, pos, kws, s, sink, node)
        return out
    override = ex.reg.contracts.get("%s.%s" % (t.sortname if isinstance(t, ty.Opaque) else t.name, name))
    if override is not None:
        out = []
        for s, vals in ex.ev_list(list(node.args) + list(kw.values()), st, sink):
            pos = [recv] + vals[:len(node.args)]
            kws = dict(zip(kw.keys(), vals[len(node.args):]))
            out += ex.call_contract(override, pos, kws, s, sink, node)
        return out
    out = []
    if kw and name != "sort":
        raise Unsupported("keyword arguments to %s.%s" % (t, name))
    for s, args in ex.ev_list(node.args, st, sink):
        h = None
        if t == ty.Str:
            h = STR_METHODS.get(name)
        elif isinstance(t, ty.Seq):
            h = SEQ_METHODS.get(name)
        elif isinstance(t, ty.Map):
            h = MAP_METHODS.get(name)
        elif isinstance(t, ty.Set):
            h = SET_METHODS.get(name)
        if h is None:
            raise Unsupported("method %s.%s at line %d" % (t, name, node.lineno))
        # an Optional argument to a builtin-type method is used as its value (passing None would be a TypeError: not modelled)
        args = [ty.opt_val(a) if isinstance(a.t, ty.Opt) else a for a in args]
        out += h(ex, f.value, recv, args, s, sink, node)
    return out


def _origin(node):
    return "L%d" % node.lineno


# ---- str ------------------------------------------------------------------------------------
def _start(ex, s, recv, args, k):
    if len(args) > k:
        return ops.clamp_lo(recv.e, args[k].e, ex.simp_for(s))
    return z3.IntVal(0)


def _single_char(e):
    """A literal one-character needle (intseq: Unit(c); string: "c")."""
    if z3.is_app(e) and e.decl().kind() == z3.Z3_OP_SEQ_UNIT:
        return True
    if z3.is_string_value(e) and len(e.as_string()) == 1:
        return True
    return False


def _char_search(ex, s, recv, needle, start, sink, node, raising):
    """first position >= start holding the one-character needle, as a fresh integer with its defining facts
    (least position; every earlier position from start differs).  Equivalent to str.find/str.index."""
    r = z3.Int("found!%d" % ex._fresh())
    p = z3.Int("p!find%d" % ex._fresh())
    n = z3.Length(recv.e)
    ch = lambda i: ops.char_at(recv, i).e
    found = z3.And(start <= r, r < n, ch(r) == needle.e,
                   z3.ForAll([p], z3.Implies(z3.And(start <= p, p < r), ch(p) != needle.e)))
    absent = z3.ForAll([p], z3.Implies(z3.And(start <= p, p < n), ch(p) != needle.e))
    out = []
    s1 = s.copy()
    s1.assume(found)
    if ex.feasible(s1):
        s1.trace.append("%s:found" % _origin(node))
        out.append((s1, SV(ty.Int, r)))
    s2 = s.copy()
    s2.assume(absent)
    if ex.feasible(s2):
        s2.trace.append("%s:absent" % _origin(node))
        if raising:
            ex.raise_(s2, "ValueError", sink, _origin(node))
        else:
            out.append((s2, SV(ty.Int, z3.IntVal(-1))))
    return out


def _needle_search(ex, s, recv, needle, start, sink, node, raising):
    """str.index/find for a non-empty needle: least position >= start where the needle occurs, as a fresh integer with its defining facts."""
    r = z3.Int("found!%d" % ex._fresh())
    p = z3.Int("p!find%d" % ex._fresh())
    n, L = z3.Length(recv.e), z3.Length(needle.e)
    occ = lambda i: z3.And(i + L <= n, z3.SubSeq(recv.e, i, (i + L) - i) == needle.e)   # same term shape as the contract slice s[i:i+len(needle)]
    found = z3.And(start <= r, occ(r), z3.ForAll([p], z3.Implies(z3.And(start <= p, p < r), z3.Not(occ(p)))))
    absent = z3.ForAll([p], z3.Implies(start <= p, z3.Not(occ(p))))
    out = []
    s1 = s.copy()
    s1.assume(found)
    if ex.feasible(s1):
        s1.trace.append("%s:found" % _origin(node))
        out.append((s1, SV(ty.Int, r)))
    s2 = s.copy()
    s2.assume(absent)
    if ex.feasible(s2):
        s2.trace.append("%s:absent" % _origin(node))
        if raising:
            ex.raise_(s2, "ValueError", sink, _origin(node))
        else:
            out.append((s2, SV(ty.Int, z3.IntVal(-1))))
    return out


def s_index(ex, rn, recv, args, s, sink, node):
    start = _start(ex, s, recv, args, 1)
    if len(args) > 2:
        raise Unsupported("str.index with end")
    if _single_char(args[0].e):
        return _char_search(ex, s, recv, args[0], start, sink, node, True)
    simp = ex.simp_for(s)
    if simp is not None and simp(z3.Length(args[0].e) >= 1):
        return _needle_search(ex, s, recv, args[0], start, sink, node, True)
    r = z3.IndexOf(recv.e, args[0].e, start)
    return ex.cases(s, [(r >= 0, "val", SV(ty.Int, r)), (r < 0, "exc", "ValueError")], sink, _origin(node))


def s_find(ex, rn, recv, args, s, sink, node):
    if len(args) > 2:
        raise Unsupported("str.find with end")
    start = _start(ex, s, recv, args, 1)
    if _single_char(args[0].e):
        return _char_search(ex, s, recv, args[0], start, sink, node, False)
    return [(s, SV(ty.Int, z3.IndexOf(recv.e, args[0].e, start)))]


def _char_rsearch(ex, s, recv, needle, lo, hi, sink, node, raising):
    """last position in [lo, hi) holding the one-character needle (str.rindex / str.rfind with a range), as a fresh integer with its defining facts"""
    r = z3.Int("rfound!%d" % ex._fresh())
    p = z3.Int("p!rfind%d" % ex._fresh())
    ch = lambda i: ops.char_at(recv, i).e
    found = z3.And(lo <= r, r < hi, ch(r) == needle.e, z3.ForAll([p], z3.Implies(z3.And(r < p, p < hi), ch(p) != needle.e)))
    absent = z3.ForAll([p], z3.Implies(z3.And(lo <= p, p < hi), ch(p) != needle.e))
    out = []
    s1 = s.copy()
    s1.assume(found)
    if ex.feasible(s1):
        s1.trace.append("%s:found" % _origin(node))
        out.append((s1, SV(ty.Int, r)))
    s2 = s.copy()
    s2.assume(absent)
    if ex.feasible(s2):
        s2.trace.append("%s:absent" % _origin(node))
        if raising:
            ex.raise_(s2, "ValueError", sink, _origin(node))
        else:
            out.append((s2, SV(ty.Int, z3.IntVal(-1))))
    return out


def s_rindex(ex, rn, recv, args, s, sink, node):
    simp = ex.simp_for(s)
    lo = ops.clamp_lo(recv.e, args[1].e, simp) if len(args) > 1 else z3.IntVal(0)
    hi = ops.clamp_lo(recv.e, args[2].e, simp) if len(args) > 2 else z3.Length(recv.e)
    if _single_char(args[0].e):
        return _char_rsearch(ex, s, recv, args[0], lo, hi, sink, node, True)
    raise Unsupported("str.rindex with a multi-character needle")


def s_rfind(ex, rn, recv, args, s, sink, node):
    if len(args) == 1:
        return [(s, SV(ty.Int, z3.LastIndexOf(recv.e, args[0].e)))]
    if len(args) == 3:
        lo = ops.clamp_lo(recv.e, args[1].e)
        hi = ops.clamp_lo(recv.e, args[2].e)
        sub = z3.SubSeq(recv.e, lo, z3.If(hi - lo < 0, 0, hi - lo))
        r = z3.LastIndexOf(sub, args[0].e)
        return [(s, SV(ty.Int, z3.If(z3.And(r >= 0, lo <= hi), r + lo, -1)))]
    raise Unsupported("str.rfind arity")


def s_startswith(ex, rn, recv, args, s, sink, node):
    if len(args) == 1:
        return [(s, SV(ty.Bool, z3.PrefixOf(args[0].e, recv.e)))]
    lo = ops.clamp_lo(recv.e, args[1].e)
    rest = z3.SubSeq(recv.e, lo, z3.Length(recv.e) - lo)
    return [(s, SV(ty.Bool, z3.PrefixOf(args[0].e, rest)))]


def s_endswith(ex, rn, recv, args, s, sink, node):
    return [(s, SV(ty.Bool, z3.SuffixOf(args[0].e, recv.e)))]


def s_pred(name):
    def h(ex, rn, recv, args, s, sink, node):
        return [(s, ops.str_pred(name, recv))]
    return h


def s_join(ex, rn, recv, args, s, sink, node):
    f = z3.Function("str_join", ty.sort_of(ty.Str), z3.SeqSort(ty.sort_of(ty.Str)), ty.sort_of(ty.Str))
    a = args[0]
    if a.e is None:
        return [(s, ty.str_const(""))]
    return [(s, SV(ty.Str, f(recv.e, a.e)))]


def s_opaque(fname, ret=ty.Str):
    def h(ex, rn, recv, args, s, sink, node):
        sorts = [ty.sort_of(ty.Str)] + [ty.sort_of(a.t) for a in args]
        f = z3.Function("str_%s_%d" % (fname, len(args)), *sorts, ty.sort_of(ret))
        return [(s, SV(ret, f(recv.e, *[a.e for a in args])))]
    return h


STR_METHODS = {"rindex": s_rindex, "index": s_index, "find": s_find, "rfind": s_rfind, "startswith": s_startswith, "endswith": s_endswith,
               "join": s_join, "strip": s_opaque("strip"), "lstrip": s_opaque("lstrip"), "rstrip": s_opaque("rstrip"),
               "lower": s_opaque("lower"), "upper": s_opaque("upper"), "replace": s_opaque("replace"),
               "splitlines": s_opaque("splitlines", ty.Seq(ty.Str)), "split": s_opaque("split", ty.Seq(ty.Str)),
               "count": s_opaque("count", ty.Int)}
for _p in ("isalnum", "isalpha", "isdigit", "isspace", "isidentifier", "isupper", "islower"):
    STR_METHODS[_p] = s_pred(_p)


# ---- list -----------------------------------------------------------------------------------
def l_append(ex, rn, recv, args, s, sink, node):
    item = args[0]
    if recv.e is None:
        new = ops.unit(item)
    else:
        new = SV(recv.t, z3.Concat(recv.e, z3.Unit(ops.coerce(item, recv.t.elem).e)))
    ex.store_loc(s, rn, new)
    return [(s, ty.none_val())]


def l_extend(ex, rn, recv, args, s, sink, node):
    other = args[0]
    if other.e is None:
        return [(s, ty.none_val())]
    if isinstance(other.t, ty.Tuple):
        other = ops.coerce(other, ty.Seq(other.t.elems[0]))
    new = other if recv.e is None else SV(recv.t, z3.Concat(recv.e, ops.coerce(other, recv.t).e))
    ex.store_loc(s, rn, new)
    return [(s, ty.none_val())]


def l_pop(ex, rn, recv, args, s, sink, node):
    n = z3.Length(recv.e)
    if not args:
        ok = n > 0
        val = SV(recv.t.elem, recv.e[n - 1])
        new = SV(recv.t, z3.SubSeq(recv.e, 0, n - 1))
    else:
        j = ops.norm_index(recv.e, args[0].e)
        ok = z3.And(0 <= j, j < n)
        val = SV(recv.t.elem, recv.e[j])
        new = SV(recv.t, z3.Concat(z3.SubSeq(recv.e, 0, j), z3.SubSeq(recv.e, j + 1, n - j - 1)))
    out = []
    for s2, v in ex.cases(s, [(ok, "val", val), (z3.Not(ok), "exc", "IndexError")], sink, _origin(node)):
        ex.store_loc(s2, rn, new)
        out.append((s2, v))
    return out


def l_insert(ex, rn, recv, args, s, sink, node):
    item = args[1]
    if recv.e is None:
        ex.store_loc(s, rn, ops.unit(item))
        return [(s, ty.none_val())]
    j = ops.clamp_lo(recv.e, args[0].e)
    n = z3.Length(recv.e)
    new = SV(recv.t, z3.Concat(z3.SubSeq(recv.e, 0, j), z3.Unit(ops.coerce(item, recv.t.elem).e), z3.SubSeq(recv.e, j, n - j)))
    ex.store_loc(s, rn, new)
    return [(s, ty.none_val())]


def _search_position(ex, seq, x):
    """The position list.index/list.remove find: the sequence theory's indexof, or (contract option list_search="positional") a plain
    integer >= -1 that the first-occurrence facts below determine uniquely -- no sequence-theory search term in the VC."""
    if getattr(ex.cur_contract, "list_search", "indexof") == "positional":
        return z3.Const("pos!%d" % ex._fresh(), z3.IntSort())
    return z3.IndexOf(seq, z3.Unit(x), 0)


def _first_occurrence_facts(ex, s, seq, x, r):
    """What indexof(seq, [x], 0) == r means position by position (the sequence solvers do not derive it):
    r >= 0: r is a position holding x and no earlier position does; r < 0: no position holds x."""
    k = z3.Const("k!fo%d" % ex._fresh(), z3.IntSort())
    s.assume(r >= -1)
    s.assume(z3.Implies(r >= 0, z3.And(r < z3.Length(seq), seq[r] == x)))
    s.assume(z3.ForAll([k], z3.Implies(z3.And(0 <= k, k < z3.Length(seq), z3.Or(r < 0, k < r)), seq[k] != x)))


def l_index(ex, rn, recv, args, s, sink, node):
    if recv.e is None:
        ex.raise_(s, "ValueError", sink, _origin(node))
        return []
    x = ops.coerce(args[0], recv.t.elem).e
    if len(args) > 2:
        raise Unsupported("list.index with a stop argument")
    if len(args) == 2:
        # list.index(x, start): the first position >= start (a negative start counts from the end, clamped at 0) holding x
        if args[1].t != ty.Int:
            raise Unsupported("list.index start of type %s" % args[1].t)
        n, st0 = z3.Length(recv.e), args[1].e
        eff = z3.If(st0 < 0, z3.If(n + st0 < 0, 0, n + st0), st0)
        r = z3.Const("pos!%d" % ex._fresh(), z3.IntSort())
        k = z3.Const("k!fo%d" % ex._fresh(), z3.IntSort())
        s.assume(r >= -1)
        s.assume(z3.Implies(r >= 0, z3.And(eff <= r, r < n, recv.e[r] == x)))
        s.assume(z3.ForAll([k], z3.Implies(z3.And(eff <= k, k < n, z3.Or(r < 0, k < r)), recv.e[k] != x)))
        return ex.cases(s, [(r >= 0, "val", SV(ty.Int, r)), (r < 0, "exc", "ValueError")], sink, _origin(node))
    r = _search_position(ex, recv.e, x)
    _first_occurrence_facts(ex, s, recv.e, x, r)
    return ex.cases(s, [(r >= 0, "val", SV(ty.Int, r)), (r < 0, "exc", "ValueError")], sink, _origin(node))


def l_remove(ex, rn, recv, args, s, sink, node):
    if recv.e is None:
        ex.raise_(s, "ValueError", sink, _origin(node))
        return []
    x = ops.coerce(args[0], recv.t.elem).e
    r = _search_position(ex, recv.e, x)
    n = z3.Length(recv.e)
    _first_occurrence_facts(ex, s, recv.e, x, r)
    if getattr(ex.cur_contract, "list_search", "indexof") == "positional":
        # the list after the removal as a sequence of its own, described position by position (no extract/concat arithmetic in the VC)
        new = ty.fresh(recv.t, "removed")
        k = z3.Const("k!rm%d" % ex._fresh(), z3.IntSort())
        s.assume(z3.Implies(r >= 0, z3.Length(new.e) == n - 1))
        s.assume(z3.ForAll([k], z3.Implies(z3.And(r >= 0, 0 <= k, k < r), new.e[k] == recv.e[k])))
        s.assume(z3.ForAll([k], z3.Implies(z3.And(r >= 0, r <= k, k < n - 1), new.e[k] == recv.e[k + 1])))
        s.assume(z3.ForAll([k], z3.Implies(z3.And(r >= 0, r < k, k < n), new.e[k - 1] == recv.e[k])))
    else:
        new = SV(recv.t, z3.Concat(z3.SubSeq(recv.e, 0, r), z3.SubSeq(recv.e, r + 1, n - r - 1)))
    out = []
    for s2, v in ex.cases(s, [(r >= 0, "val", ty.none_val()), (r < 0, "exc", "ValueError")], sink, _origin(node)):
        ex.store_loc(s2, rn, new)
        out.append((s2, v))
    return out


def l_sort(ex, rn, recv, args, s, sink, node):
    """list.sort(key=...): the new list is sorted_<key>(old) -- an uninterpreted function of the old list (so equal lists sort equally),
    of equal length, ascending in the key.  Supported keys: none (ints) and `lambda x: x[:2]` on tuples starting with two ints.
    Permutation of the old elements is NOT asserted (listed as a gap of the encoding)."""
    kws = {k.arg: k.value for k in node.keywords}
    if recv.e is None:
        return [(s, ty.none_val())]
    elem = recv.t.elem
    keytxt = ast.unparse(kws["key"]) if "key" in kws else ""
    if keytxt == "lambda x: x[:2]" and isinstance(elem, ty.Tuple) and elem.elems[:2] == [ty.Int, ty.Int]:
        fname = "sorted_key2"
    elif keytxt == "" and elem == ty.Int:
        fname = "sorted_int"
    else:
        raise Unsupported("list.sort with key %r on %s" % (keytxt, recv.t))
    so = ty.sort_of(recv.t)
    f = z3.Function(fname, so, so)
    new = SV(recv.t, f(recv.e))
    a, b = z3.Int("a!sort%d" % ex._fresh()), z3.Int("b!sort%d" % ex._fresh())
    if fname == "sorted_int":
        le = new.e[a] <= new.e[b]
    else:
        x, y = SV(elem, new.e[a]), SV(elem, new.e[b])
        px, py = ops.tuple_parts(x), ops.tuple_parts(y)
        le = z3.Or(px[0].e < py[0].e, z3.And(px[0].e == py[0].e, px[1].e <= py[1].e))
    s.assume(z3.Length(new.e) == z3.Length(recv.e))
    s.assume(z3.ForAll([a, b], z3.Implies(z3.And(0 <= a, a < b, b < z3.Length(new.e)), le)))
    ex.assumptions.add("list.sort: result = uninterpreted sorted_<key>(old list), same length, ascending in the key; 'is a permutation of the old list' is not encoded")
    ex.store_loc(s, rn, new)
    return [(s, ty.none_val())]


SEQ_METHODS = {"sort": l_sort, "append": l_append, "extend": l_extend, "pop": l_pop, "insert": l_insert, "index": l_index,
               "remove": l_remove}


# ---- dict -----------------------------------------------------------------------------------
def _map_typed(ex, rn, recv, key, val, s):
    """Give a polymorphic empty dict its type on first use."""
    if recv.e is None:
        t = ty.Map(key.t, val.t if val is not None else ty.Any)
        return ops.coerce(recv, t)
    return recv


def m_get(ex, rn, recv, args, s, sink, node):
    if recv.e is None:
        return [(s, args[1] if len(args) > 1 else ty.none_val())]
    k = ops.coerce(args[0], recv.t.key)
    o = SV(ty.Opt(recv.t.val), z3.Select(recv.e, k.e))
    if len(args) == 1:
        return [(s, o)]
    d = args[1]
    return [(s, ops.ite(ty.opt_is_none(o), d, ty.opt_val(o)))]


MAP_METHODS = {"get": m_get}


# ---- set ------------------------------------------------------------------------------------
def st_add(ex, rn, recv, args, s, sink, node):
    item = args[0]
    if recv.e is None:
        recv = ops.coerce(recv, ty.Set(item.t))
    new = SV(recv.t, z3.Store(recv.e, ops.coerce(item, recv.t.key).e, z3.BoolVal(True)))
    ex.store_loc(s, rn, new)
    return [(s, ty.none_val())]


def st_discard(ex, rn, recv, args, s, sink, node):
    if recv.e is None:
        return [(s, ty.none_val())]
    new = SV(recv.t, z3.Store(recv.e, ops.coerce(args[0], recv.t.key).e, z3.BoolVal(False)))
    ex.store_loc(s, rn, new)
    return [(s, ty.none_val())]


def st_update(ex, rn, recv, args, s, sink, node):
    other = args[0]
    if other.e is None:
        return [(s, ty.none_val())]
    kt = other.t.key if isinstance(other.t, ty.Set) else other.t.elem
    if recv.e is None:
        recv = ops.coerce(recv, ty.Set(kt))
    new = ty.fresh(recv.t, "union")
    x = z3.Const("x!upd%d" % ex._fresh(), ty.sort_of(recv.t.key))
    if isinstance(other.t, ty.Set):
        s.assume(z3.ForAll([x], z3.Select(new.e, x) == z3.Or(z3.Select(recv.e, x), z3.Select(other.e, x))))
    else:
        for f in _members_of_seq(ex, new.e, recv.e, other, x):
            s.assume(f)
    ex.store_loc(s, rn, new)
    return [(s, ty.none_val())]


SET_METHODS = {"add": st_add, "discard": st_discard, "update": st_update}

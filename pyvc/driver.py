"""Per-function verification: initial state from the contract, execution, obligations at the exits."""
import ast
import z3
from . import vtypes as ty
from . import ops
from .vtypes import SV
from .ops import Unsupported
from .state import State, Outcome, Exc, FieldAlias, Box
from .spec import Env, _dotted
from . import extract
from .loops import number_loops


class DriverMixin:
    def initial_state(self):
        c = self.c
        st = State()
        self.model_vars = {}
        self.var_types = {}
        params = {}
        for name, ttext in c.params.items():
            t = self.spec.T(ttext)
            v = SV(t, z3.Const(name, ty.sort_of(t)))
            params[name] = v
            self.model_vars[name] = v
        for name, ttext in c.ghost_in.items():
            t = self.spec.T(ttext)
            params[name] = SV(t, z3.Const(name, ty.sort_of(t)))
            self.model_vars[name] = params[name]
        for g, ttext in self.reg.ghosts.items():
            t = self.spec.T(ttext)
            st.ghost[g] = SV(t, z3.Const(g + "0", ty.sort_of(t)))
            self.model_vars["ghost:" + g] = st.ghost[g]
        # static class of reference parameters
        self._entry_phase = True
        for name, v in params.items():
            self.type_facts(st, v)
        self._entry_phase = False
        self.entry_locals = dict(params)
        for ax in self.reg.axioms:
            st.assume(self.axiom_formula(ax))
        env = Env(st, st, params)
        for r in c.requires:
            st.assume(self.spec.boolean(r, env))
        return st, params

    def type_facts(self, st, v):
        t = v.t
        if isinstance(t, ty.RefT) and getattr(self, "_entry_phase", False):
            st.assume(ty.born(v.e) <= 0)
        if isinstance(t, ty.RefT) and t.cls in self.reg.records:
            subs = [s for s in self.reg.subclasses(t.cls) if not self.reg.records[s].abstract] or self.reg.subclasses(t.cls)
            st.assume(z3.Or(*[ty.typeof(v.e) == self.reg.records[s].cid for s in subs]))

    def axiom_formula(self, ax):
        consts = {n: SV(self.spec.T(t), z3.Const("%s!ax_%s" % (n, ax["name"]), ty.sort_of(self.spec.T(t)))) for n, t in ax["vars"].items()}
        body = self.spec.boolean(ax["body"], Env(State(), None, consts))
        if not consts:
            return body
        pats = []
        if ax.get("patterns"):
            for p in ax["patterns"]:
                if isinstance(p, (list, tuple)):
                    pats.append(z3.MultiPattern(*[self.spec.eval(q, Env(State(), None, consts)).e for q in p]))
                else:
                    pats.append(self.spec.eval(p, Env(State(), None, consts)).e)
            return z3.ForAll([c.e for c in consts.values()], body, patterns=pats)
        return z3.ForAll([c.e for c in consts.values()], body)

    def run(self):
        c = self.c
        ty.STR_MODE[0] = c.strmode
        ext = extract.find(c.source)
        self.ext = ext
        self.base_line = ext.node.lineno
        self.cur_contract = c
        self.cur_loops = number_loops(ext.node)
        self.inlined = set()
        self.bounded_notes = set()
        st, params = self.initial_state()
        # parameters become local variables
        argnames = [a.arg for a in ext.node.args.posonlyargs + ext.node.args.args + ext.node.args.kwonlyargs]
        if ext.node.args.vararg or ext.node.args.kwarg:
            raise Unsupported("*args/**kwargs in the verified function")
        declared = [n for n in c.params]
        if declared != argnames:
            raise Unsupported("contract parameters %s do not match the function's %s" % (declared, argnames))
        for name in argnames:
            self.assign_var(st, name, params[name])
        self.entry = st.copy()      # snapshot for old(...): parameters hold their entry values here
        self.is_generator = any(isinstance(n, (ast.Yield, ast.YieldFrom)) for n in ast.walk(ext.node))
        if self.is_generator:
            self.assign_var(st, "_yielded", ty.empty_seq(rt0 := self.spec.T(c.returns)))
        self.oblige("pre-sat", st, z3.BoolVal(False), "vacuity", expect="sat")
        # default values: callers that omit an argument are verified against the contract's `defaults`, so these must be the code's
        a_ = ext.node.args
        pos = a_.posonlyargs + a_.args
        real_defaults = {p.arg: d for p, d in zip(pos[len(pos) - len(a_.defaults):], a_.defaults)}
        real_defaults.update({p.arg: d for p, d in zip(a_.kwonlyargs, a_.kw_defaults) if d is not None})
        for pname, dnode in real_defaults.items():
            want = c.defaults.get(pname)
            same = want is not None and ast.dump(ast.parse(want, mode="eval").body) == ast.dump(dnode)
            if want is None and isinstance(dnode, ast.Attribute):
                continue   # a module-level constant object (e.g. a default task handle): named in the contract's params only
            self.oblige("signature(default of %s is %s)" % (pname, ast.unparse(dnode)), st, z3.BoolVal(bool(same)), "post")
        body = extract.strip_docstring(ext.node.body)
        outs = self.exec_block(body, st)
        rt = self.spec.T(c.returns)
        n_exit = 0
        for o in outs:
            n_exit += 1
            if o.kind in ("break", "continue"):
                raise Unsupported("break/continue outside loop")
            if o.kind in ("normal", "return"):
                v = o.val if (o.kind == "return" and o.val is not None) else ty.none_val()
                if self.is_generator:
                    v = self.read_var(o.st, "_yielded")
                try:
                    res = ops.coerce(v, rt)
                except Unsupported:
                    # a value of a type the contract does not admit is returned on this path
                    self.oblige("exit-%d/return-type(%s)" % (n_exit, v.t), o.st, z3.BoolVal(False), "post")
                    continue
                env = Env(o.st, self.entry, dict(self.entry_locals, result=res))
                if "result" in self.entry_locals:
                    # a PARAMETER named `result`: plain `result` is the return value; old(result) / final(result) are the parameter
                    env.locals["__param_result"] = self.entry_locals["result"]
                for k, e in enumerate(c.ensures):
                    self.oblige("post-%d@exit-%d" % (k, n_exit), o.st, self.spec.boolean(e, env), "post")
                self.frame(o.st, "exit-%d" % n_exit)
            else:
                decl = None
                for ecls in c.raises:
                    if self.reg.exc_is_sub(o.exc.cls, ecls):
                        decl = ecls
                        break
                if decl is None:
                    self.oblige("raises-only@exit-%d(%s from %s)" % (n_exit, o.exc.cls, o.exc.origin), o.st, z3.BoolVal(False), "raises-only")
                    continue
                env = Env(o.st, self.entry, dict(self.entry_locals), ex=o.exc)
                for k, e in enumerate((c.raises[decl] or {}).get("ensures", [])):
                    self.oblige("exc-post-%s-%d@exit-%d" % (decl, k, n_exit), o.st, self.spec.boolean(e, env), "exc-post")
                if (c.raises[decl] or {}).get("when") is not None:
                    w = self.spec.boolean(c.raises[decl]["when"], Env(self.entry, self.entry, dict(self.entry_locals)))
                    self.oblige("exc-when-%s@exit-%d" % (decl, n_exit), o.st, w, "exc-post")
                self.frame(o.st, "exit-%d" % n_exit)
        # normal exits must not happen under a declared raising condition
        self.n_exits = n_exit
        return self.obligations

    def frame(self, st, tag):
        c = self.c
        allowed = {}
        whole = set()
        ghosts_ok = set()
        env_pre = Env(self.entry, self.entry, dict(self.entry_locals))
        for m in c.modifies:
            if m in self.reg.ghosts:
                ghosts_ok.add(m)
            elif m.endswith("[*]"):
                cls, f = m[:-3].split(".")
                whole.add(self.reg.field_key(cls, f)[0])
            else:
                node = ast.parse(m, mode="eval").body
                obj = self.spec.eval(node.value, env_pre)
                if isinstance(obj.t, ty.Opt):
                    obj = ty.opt_val(obj)
                key, _ = self.reg.field_key(obj.t.cls, node.attr)
                allowed.setdefault(key, []).append(obj.e)
        for key, arr in st.heap.items():
            h0 = self.entry.heap.get(key)
            if h0 is None:
                ft = st.heap_t.get(key) or self.spec.T(self.reg.records[key.split(".")[0]].fields[key.split(".")[1]])
                h0 = z3.Const("H0_" + key.replace(".", "_"), z3.ArraySort(ty.Ref, ty.sort_of(ft)))
            if arr.eq(h0) or key in whole:
                continue
            r = z3.Const("r!frame", ty.Ref)
            # the frame speaks about objects that existed at entry; objects allocated by this very call (born > 0) are its own
            excl = [ty.born(r) <= 0] + [r != o for o in allowed.get(key, [])]
            goal = z3.ForAll([r], z3.Implies(z3.And(*excl) if excl else z3.BoolVal(True), z3.Select(arr, r) == z3.Select(h0, r)))
            self.oblige("frame(%s)@%s" % (key, tag), st, goal, "frame")
        for g, v in st.ghost.items():
            if g in ghosts_ok:
                continue
            g0 = self.entry.ghost[g]
            if not v.e.eq(g0.e):
                self.oblige("frame(ghost %s)@%s" % (g, tag), st, v.e == g0.e, "frame")

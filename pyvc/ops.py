"""Semantics of Python's builtin operations on the encoded values.

Every helper returns a list of *cases* (cond, kind, payload): kind 'val' with an SV payload, or
kind 'exc' with an exception class name.  Spec mode uses only the 'val' case's payload.
The conditions of the cases of one operation are exhaustive and mutually exclusive.
"""
import z3
from . import vtypes as ty
from .vtypes import SV

TRUE = z3.BoolVal(True)


class Unsupported(Exception):
    pass


def is_seqlike(t):
    return t == ty.Str or isinstance(t, ty.Seq)


def length(v):
    if is_seqlike(v.t):
        if v.e is None:
            return SV(ty.Int, z3.IntVal(0))
        return SV(ty.Int, z3.Length(v.e))
    raise Unsupported("len of %s" % v.t)


def norm_index(seq_e, i_e):
    """Python index normalisation: negative counts from the end."""
    n = z3.Length(seq_e)
    if z3.is_int_value(i_e):
        k = i_e.as_long()
        return (i_e if k >= 0 else n + k)
    return z3.If(i_e < 0, i_e + n, i_e)


def char_at(v, j):
    """One-character string at (normalised) position j."""
    if ty.STR_MODE[0] == "intseq":
        return SV(ty.Str, z3.Unit(v.e[j]))
    return SV(ty.Str, z3.SubSeq(v.e, j, 1))


def index(v, i, pythonic=True, simp=None):
    """v[i] for str / seq / tuple.  pythonic=False: mathematical indexing (contracts)."""
    if isinstance(v.t, ty.Tuple):
        if not z3.is_int_value(i.e):
            raise Unsupported("tuple index must be a literal")
        k = i.e.as_long()
        if k < 0:
            k += len(v.t.elems)
        s = ty.sort_of(v.t)
        return [(TRUE, "val", SV(v.t.elems[k], s.accessor(0, k)(v.e)))]
    if not is_seqlike(v.t):
        raise Unsupported("index of %s" % v.t)
    n = z3.Length(v.e)
    if not pythonic:
        j = i.e
    elif simp is not None and not z3.is_int_value(i.e):
        if simp(i.e >= 0):
            j = i.e
        elif simp(i.e < 0):
            j = i.e + n
        else:
            j = norm_index(v.e, i.e)
    else:
        j = norm_index(v.e, i.e)
    ok = z3.And(0 <= j, j < n)
    if v.t == ty.Str:
        val = char_at(v, j)
    else:
        val = SV(v.t.elem, v.e[j])
    return [(ok, "val", val), (z3.Not(ok), "exc", "IndexError")]


def clamp_lo(seq_e, a_e, simp=None):
    n = z3.Length(seq_e)
    if a_e is None:
        return z3.IntVal(0)
    if simp is not None and not z3.is_int_value(a_e):
        if simp(z3.And(a_e >= 0, a_e <= n)):
            return a_e
        if simp(a_e >= 0):
            return z3.If(a_e > n, n, a_e)
    if z3.is_int_value(a_e) and a_e.as_long() >= 0:
        k = a_e
        return z3.If(k > n, n, k)
    return z3.If(a_e < 0, z3.If(a_e + n < 0, 0, a_e + n), z3.If(a_e > n, n, a_e))


def slice_(v, a, b, pythonic=True, simp=None):
    """v[a:b] with Python's clamping; a/b are SV or None.  pythonic=False: SubSeq(v, a, b-a) (contracts)."""
    if isinstance(v.t, ty.Tuple):
        lo = 0 if a is None else a.e.as_long()
        hi = len(v.t.elems) if b is None else b.e.as_long()
        elems = v.t.elems[lo:hi]
        s = ty.sort_of(v.t)
        parts = [SV(v.t.elems[k], s.accessor(0, k)(v.e)) for k in range(len(v.t.elems))][lo:hi]
        return make_tuple(parts)
    if not is_seqlike(v.t):
        raise Unsupported("slice of %s" % v.t)
    n = z3.Length(v.e)
    if not pythonic:
        lo = z3.IntVal(0) if a is None else a.e
        hi = n if b is None else b.e
        return SV(v.t, z3.SubSeq(v.e, lo, hi - lo))
    lo = clamp_lo(v.e, None if a is None else a.e, simp)
    hi = n if b is None else clamp_lo(v.e, b.e, simp)
    if simp is not None and simp(hi >= lo):
        ln = hi - lo
    else:
        ln = z3.If(hi - lo < 0, 0, hi - lo)
    return SV(v.t, z3.SubSeq(v.e, lo, ln))


def make_tuple(parts):
    t = ty.Tuple([p.t for p in parts])
    s = ty.sort_of(t)
    return SV(t, s.constructor(0)(*[p.e for p in parts]))


def tuple_parts(v):
    s = ty.sort_of(v.t)
    return [SV(v.t.elems[k], s.accessor(0, k)(v.e)) for k in range(len(v.t.elems))]


def concat(a, b):
    if a.e is None:
        return b
    if b.e is None:
        return a
    return SV(a.t, z3.Concat(a.e, b.e))


def unit(v):
    return SV(ty.Seq(v.t), z3.Unit(v.e))


def str_pred(name, v):
    f = z3.Function("str_" + name, ty.sort_of(ty.Str), z3.BoolSort())
    return SV(ty.Bool, f(v.e))


def truthy(v):
    """Python truth value as a z3 Bool."""
    t = v.t
    if t == ty.Bool:
        return v.e
    if t == ty.Int:
        return v.e != 0
    if t == ty.NoneT:
        return z3.BoolVal(False)
    if is_seqlike(t):
        if v.e is None:
            return z3.BoolVal(False)
        return z3.Length(v.e) > 0
    if isinstance(t, ty.Opt):
        inner = ty.opt_val(v)
        if isinstance(inner.t, (ty.RefT, ty.Opaque, ty.Tuple)):
            return z3.Not(ty.opt_is_none(v))
        return z3.And(z3.Not(ty.opt_is_none(v)), truthy(inner))
    if isinstance(t, ty.RefT):
        return z3.BoolVal(True)  # objects without __bool__/__len__ are true (assumption listed)
    raise Unsupported("truth value of %s" % t)


def coerce(v, t):
    """Implicit conversions between encodings of the same Python value."""
    if v.t == t:
        return v
    if v.e is None:  # polymorphic empty literal
        if isinstance(t, ty.Seq):
            return ty.empty_seq(t)
        if isinstance(t, ty.Map):
            return SV(t, z3.K(ty.sort_of(t.key), ty.opt_none(t.val).e))
        if isinstance(t, ty.Set):
            return SV(t, z3.K(ty.sort_of(t.key), z3.BoolVal(False)))
        if isinstance(t, ty.Opt):
            return ty.opt_some(coerce(v, t.elem))
    if isinstance(t, ty.Opt):
        if v.t == ty.NoneT:
            return ty.opt_none(t.elem)
        if isinstance(v.t, ty.Opt):
            if isinstance(v.t.elem, ty.RefT) and isinstance(t.elem, ty.RefT):
                return SV(t, v.e)
        else:
            return ty.opt_some(coerce(v, t.elem))
    if isinstance(v.t, ty.Opt) and not isinstance(t, ty.Opt):
        return coerce(ty.opt_val(v), t)  # caller is responsible for the not-None obligation
    if isinstance(v.t, ty.RefT) and isinstance(t, ty.RefT):
        return SV(t, v.e)
    if isinstance(v.t, ty.Seq) and isinstance(t, ty.Seq) and isinstance(v.t.elem, ty.RefT) and isinstance(t.elem, ty.RefT):
        return SV(t, v.e)
    if isinstance(v.t, ty.Tuple) and isinstance(t, ty.Tuple) and len(v.t.elems) == len(t.elems):
        return make_tuple([coerce(p, e) for p, e in zip(tuple_parts(v), t.elems)])
    if isinstance(v.t, ty.Tuple) and isinstance(t, ty.Seq):
        parts = [coerce(p, t.elem) for p in tuple_parts(v)]
        if not parts:
            return ty.empty_seq(t)
        us = [z3.Unit(p.e) for p in parts]
        return SV(t, us[0] if len(us) == 1 else z3.Concat(*us))
    if v.t == ty.Bool and t == ty.Int:
        return SV(ty.Int, z3.If(v.e, 1, 0))
    raise Unsupported("cannot coerce %s to %s" % (v.t, t))


def unify(a, b):
    """Bring two values to a common type for ==, ite, ..."""
    if a.t == b.t:
        return a, b
    for x, y, sw in ((a, b, False), (b, a, True)):
        try:
            c = coerce(x, y.t)
            return (y, c)[::-1] if not sw else (y, c)
        except Unsupported:
            pass
    # None vs T  -> Opt[T]
    if a.t == ty.NoneT and not isinstance(b.t, ty.Opt):
        return ty.opt_none(b.t), ty.opt_some(b)
    if b.t == ty.NoneT and not isinstance(a.t, ty.Opt):
        return ty.opt_some(a), ty.opt_none(a.t)
    raise Unsupported("cannot unify %s and %s" % (a.t, b.t))


def equals(a, b):
    if a.e is None and b.e is None:
        return z3.BoolVal(True)
    if a.e is None:
        return z3.Length(b.e) == 0
    if b.e is None:
        return z3.Length(a.e) == 0
    try:
        x, y = unify(a, b)
    except Unsupported:
        # values of unrelated types are never equal in Python
        return z3.BoolVal(False)
    return x.e == y.e


def contains(container, item):
    if isinstance(container.t, ty.Opt):
        container = ty.opt_val(container)      # `x in None` raises TypeError: not modelled (declared types respected)
    t = container.t
    if t == ty.Str:
        return z3.Contains(container.e, item.e)
    if isinstance(t, ty.Seq):
        if container.e is None:
            return z3.BoolVal(False)
        it = coerce(item, t.elem)
        return z3.Contains(container.e, z3.Unit(it.e))
    if isinstance(t, (ty.Set, ty.Map)) and container.e is None:
        return z3.BoolVal(False)
    if isinstance(t, ty.Set):
        return z3.Select(container.e, coerce(item, t.key).e)
    if isinstance(t, ty.Map):
        return z3.Not(ty.opt_is_none(SV(ty.Opt(t.val), z3.Select(container.e, coerce(item, t.key).e))))
    if isinstance(t, ty.Tuple):
        return z3.Or(*[equals(p, item) for p in tuple_parts(container)])
    raise Unsupported("in %s" % t)


def binop(op, a, b):
    """Arithmetic / concatenation.  Returns cases."""
    if op in ("Add", "Sub", "Mult") and a.t == ty.Int and b.t == ty.Int:
        e = {"Add": a.e + b.e, "Sub": a.e - b.e, "Mult": a.e * b.e}[op]
        return [(TRUE, "val", SV(ty.Int, e))]
    if op in ("FloorDiv", "Mod") and a.t == ty.Int and b.t == ty.Int:
        # Python floor semantics: q = floor(a/b); z3 div is Euclidean (rounds so that remainder >= 0)
        q = z3.If(b.e > 0, a.e / b.e, -((-a.e) / (-b.e)) - z3.If((-a.e) % (-b.e) != 0, 0, 0))
        # for b<0: floor(a/b) = floor((-a)/(-b)) ; (-a) div (-b) with positive divisor is floor -> reuse
        q = z3.If(b.e > 0, a.e / b.e, (-a.e) / (-b.e))
        r = a.e - q * b.e
        val = SV(ty.Int, q if op == "FloorDiv" else r)
        return [(b.e != 0, "val", val), (b.e == 0, "exc", "ZeroDivisionError")]
    if op == "Add" and is_seqlike(a.t) and is_seqlike(b.t):
        if a.e is None or b.e is None:
            return [(TRUE, "val", concat(a, b))]
        x, y = unify(a, b)
        return [(TRUE, "val", concat(x, y))]
    if op == "Add" and isinstance(a.t, ty.Tuple) and isinstance(b.t, ty.Tuple):
        return [(TRUE, "val", make_tuple(tuple_parts(a) + tuple_parts(b)))]
    raise Unsupported("binop %s on %s, %s" % (op, a.t, b.t))


def compare(op, a, b):
    if op in ("Eq", "NotEq"):
        e = equals(a, b)
        return e if op == "Eq" else z3.Not(e)
    if op in ("Is", "IsNot"):
        if b.t == ty.NoneT or a.t == ty.NoneT:
            x = a if b.t == ty.NoneT else b
            if isinstance(x.t, ty.Opt):
                e = ty.opt_is_none(x)
            elif x.t == ty.NoneT:
                e = z3.BoolVal(True)
            else:
                e = z3.BoolVal(False)
        elif isinstance(a.t, (ty.RefT, ty.Opt)) or a.t == ty.Bool:
            e = equals(a, b)
        else:
            raise Unsupported("'is' on %s" % a.t)
        return e if op == "Is" else z3.Not(e)
    if op in ("Lt", "LtE", "Gt", "GtE"):
        if isinstance(a.t, ty.Opt):
            a = ty.opt_val(a)
        if isinstance(b.t, ty.Opt):
            b = ty.opt_val(b)
        if a.t == ty.Int and b.t == ty.Int:
            return {"Lt": a.e < b.e, "LtE": a.e <= b.e, "Gt": a.e > b.e, "GtE": a.e >= b.e}[op]
        if isinstance(a.t, ty.Tuple) and isinstance(b.t, ty.Tuple) and all(e == ty.Int for e in a.t.elems + b.t.elems):
            pa, pb = tuple_parts(a), tuple_parts(b)
            # lexicographic
            def lex(i, strict_op):
                if i == len(pa) - 1:
                    return {"Lt": pa[i].e < pb[i].e, "LtE": pa[i].e <= pb[i].e, "Gt": pa[i].e > pb[i].e, "GtE": pa[i].e >= pb[i].e}[op]
                lt = pa[i].e < pb[i].e if op in ("Lt", "LtE") else pa[i].e > pb[i].e
                return z3.Or(lt, z3.And(pa[i].e == pb[i].e, lex(i + 1, strict_op)))
            return lex(0, op)
        raise Unsupported("ordering on %s,%s" % (a.t, b.t))
    if op in ("In", "NotIn"):
        e = contains(b, a)
        return e if op == "In" else z3.Not(e)
    raise Unsupported("compare %s" % op)


def ite(c, a, b):
    x, y = unify(a, b)
    return SV(x.t, z3.If(c, x.e, y.e))

"""Contract-strength measurement: mutate the real functions under contract and re-run the deductive obligations.

    python -m pyvc.mutate <property id> [--max N] [--jobs J] [--only substring]

For every source-backed contract of the property's sidecars the function is located in /repo's working tree, small
syntactic mutants of its body are generated from the AST (comparison and arithmetic operators, constants, boolean
connectives, negated conditions, dropped statements, changed return values), each mutant is written into a scratch copy
of the package (never into /repo) and the sidecar's obligations for that function are regenerated and discharged.

  killed    some obligation is refuted or left open (the check would exit 1 or 2)
  rejected  the mutant leaves the supported subset or does not parse (the check would exit 2/3, never 0)
  survived  every obligation is still discharged: the contract does not pin this behaviour down
            (either an equivalent mutant or a gap of the contract -- each survivor is listed for review)

This does not decide any property; it measures how much a pass of the deductive part means.  Results: mutation/<id>.json
"""
import argparse
import ast
import copy
import json
import os
import random
import shutil
import subprocess
import sys
import tempfile
import time
from concurrent.futures import ThreadPoolExecutor

ROOT = os.path.dirname(os.path.dirname(os.path.abspath(__file__)))
REPO = os.environ.get("VERIF_REPO", "/repo")

CMP = {ast.Lt: [ast.LtE, ast.GtE], ast.LtE: [ast.Lt, ast.Gt], ast.Gt: [ast.GtE, ast.LtE], ast.GtE: [ast.Gt, ast.Lt],
       ast.Eq: [ast.NotEq], ast.NotEq: [ast.Eq], ast.In: [ast.NotIn], ast.NotIn: [ast.In], ast.Is: [ast.IsNot], ast.IsNot: [ast.Is]}
BIN = {ast.Add: [ast.Sub], ast.Sub: [ast.Add], ast.Mult: [ast.Add], ast.FloorDiv: [ast.Mult]}


def sites(fn):
    """-> list of (description, mutator(copy_of_fn) -> None) ; nodes are addressed by their index in ast.walk order"""
    out = []
    nodes = list(ast.walk(fn))
    for idx, n in enumerate(nodes):
        ln = getattr(n, "lineno", 0) - fn.lineno
        if isinstance(n, ast.Compare) and len(n.ops) == 1:
            for new in CMP.get(type(n.ops[0]), []):
                out.append(("L%d: %s -> %s in `%s`" % (ln, type(n.ops[0]).__name__, new.__name__, ast.unparse(n)[:60]),
                            lambda m, idx=idx, new=new: setattr(m[idx], "ops", [new()])))
        elif isinstance(n, ast.BinOp):
            for new in BIN.get(type(n.op), []):
                out.append(("L%d: %s -> %s in `%s`" % (ln, type(n.op).__name__, new.__name__, ast.unparse(n)[:60]),
                            lambda m, idx=idx, new=new: setattr(m[idx], "op", new())))
        elif isinstance(n, ast.AugAssign) and type(n.op) in BIN:
            new = BIN[type(n.op)][0]
            out.append(("L%d: aug %s -> %s in `%s`" % (ln, type(n.op).__name__, new.__name__, ast.unparse(n)[:60]),
                        lambda m, idx=idx, new=new: setattr(m[idx], "op", new())))
        elif isinstance(n, ast.BoolOp):
            new = ast.Or if isinstance(n.op, ast.And) else ast.And
            out.append(("L%d: %s -> %s in `%s`" % (ln, type(n.op).__name__, new.__name__, ast.unparse(n)[:60]),
                        lambda m, idx=idx, new=new: setattr(m[idx], "op", new())))
        elif isinstance(n, ast.Constant) and isinstance(n.value, bool):
            out.append(("L%d: %r -> %r" % (ln, n.value, not n.value), lambda m, idx=idx, v=n.value: setattr(m[idx], "value", not v)))
        elif isinstance(n, ast.Constant) and isinstance(n.value, int):
            for v in ({n.value + 1, n.value - 1} if n.value != 0 else {1}):
                out.append(("L%d: const %r -> %r" % (ln, n.value, v), lambda m, idx=idx, v=v: setattr(m[idx], "value", v)))
        elif isinstance(n, ast.Constant) and isinstance(n.value, str) and n is not _doc(fn) and len(n.value) <= 3:
            out.append(("L%d: const %r -> %r" % (ln, n.value, n.value + "#"), lambda m, idx=idx, v=n.value: setattr(m[idx], "value", v + "#")))
        elif isinstance(n, (ast.If, ast.While)):
            out.append(("L%d: negate condition `%s`" % (ln, ast.unparse(n.test)[:60]),
                        lambda m, idx=idx: setattr(m[idx], "test", ast.UnaryOp(op=ast.Not(), operand=m[idx].test))))
        elif isinstance(n, ast.UnaryOp) and isinstance(n.op, ast.Not):
            out.append(("L%d: drop `not` in `%s`" % (ln, ast.unparse(n)[:60]), ("replace", idx, "operand")))
        elif isinstance(n, ast.Return) and n.value is not None and not (isinstance(n.value, ast.Constant) and n.value.value is None):
            out.append(("L%d: return None instead of `%s`" % (ln, ast.unparse(n.value)[:60]),
                        lambda m, idx=idx: setattr(m[idx], "value", ast.Constant(value=None))))
        elif isinstance(n, ast.Break):
            out.append(("L%d: break -> continue" % ln, ("swap", idx, ast.Continue)))
        elif isinstance(n, ast.Continue):
            out.append(("L%d: continue -> break" % ln, ("swap", idx, ast.Break)))
        # statement deletion
        for field in ("body", "orelse", "finalbody"):
            blk = getattr(n, field, None)
            if isinstance(blk, list) and blk and isinstance(blk[0], ast.stmt):
                for k, s in enumerate(blk):
                    if s is _docstmt(fn):
                        continue
                    if isinstance(s, (ast.Expr, ast.Assign, ast.AugAssign, ast.Raise, ast.Return, ast.Delete)) or \
                            (isinstance(s, ast.If) and not s.orelse):
                        out.append(("L%d: delete `%s`" % (s.lineno - fn.lineno, ast.unparse(s).split("\n")[0][:60]), ("delete", idx, field, k)))
    return out


def _docstmt(fn):
    b = fn.body[0]
    return b if isinstance(b, ast.Expr) and isinstance(b.value, ast.Constant) and isinstance(b.value.value, str) else None


def _doc(fn):
    d = _docstmt(fn)
    return d.value if d is not None else None


def apply(fn, mut):
    m = copy.deepcopy(fn)
    nodes = list(ast.walk(m))
    if callable(mut):
        mut(nodes)
    elif mut[0] == "delete":
        _, idx, field, k = mut
        blk = getattr(nodes[idx], field)
        blk[k] = ast.Pass()
    elif mut[0] in ("swap", "replace"):
        target = nodes[mut[1]]
        new = mut[2]() if mut[0] == "swap" else getattr(target, mut[2])

        class R(ast.NodeTransformer):
            def visit(self, node):
                if node is target:
                    return new
                return self.generic_visit(node)
        m = R().visit(m)
    ast.fix_missing_locations(m)
    return ast.unparse(m)


def locate(qual):
    sys.path.insert(0, ROOT)
    from pyvc import extract
    e = extract.find(qual)
    path = extract.module_path(e.modname)
    return e.node, path


def function_mutants(qual, maxn, rng):
    node, path = locate(qual)
    ss = sites(node)
    if maxn and len(ss) > maxn:
        ss = [ss[i] for i in sorted(rng.sample(range(len(ss)), maxn))]
    src_lines = open(path, encoding="utf-8").read().split("\n")
    start = min([node.lineno] + [d.lineno for d in node.decorator_list]) - 1
    indent = " " * node.col_offset
    out = []
    seen = {ast.unparse(node)}
    for desc, mut in ss:
        try:
            text = apply(node, mut)
        except Exception as ex:   # a mutation the AST does not allow
            continue
        if text in seen:
            continue
        seen.add(text)
        new_lines = src_lines[:start] + [indent + l if l else l for l in text.split("\n")] + src_lines[node.end_lineno:]
        out.append({"desc": desc, "path": os.path.relpath(path, REPO), "text": "\n".join(new_lines)})
    return out


def run_one(job, scratch, timeout):
    """-> (verdict, detail)"""
    target = os.path.join(scratch, job["path"])
    orig = open(target, encoding="utf-8").read()
    try:
        try:
            compile(job["text"], target, "exec")
        except SyntaxError as e:
            return "rejected", "does not compile: %s" % e
        open(target, "w", encoding="utf-8").write(job["text"])
        env = dict(os.environ, VERIF_REPO=scratch, PYTHONPATH="%s:%s" % (scratch, ROOT), PYVC_PROCS=str(job["procs"]))
        t = time.time()
        try:
            p = subprocess.run([sys.executable, "-m", "pyvc.run", os.path.join(ROOT, "contracts", job["sidecar"])] + ([job["filter"]] if job["filter"] else []),
                               cwd=ROOT, env=env, capture_output=True, text=True, timeout=timeout)
        except subprocess.TimeoutExpired:
            return "killed", "timeout after %ds (obligations left open)" % timeout
        lines = p.stdout.strip().split("\n")
        last = lines[-1] if lines else ""
        if not last.startswith("=="):
            tail = (p.stderr.strip().split("\n") or [""])[-1]
            return "rejected", "checker stopped: %s" % tail[:200]
        parts = last.split()
        nobl, bad, unsup = int(parts[1]), int(parts[3]), int(parts[6])
        failing = [l.split()[0] + ":" + l.split()[1] for l in lines if l.rstrip().endswith("<==========")]
        if unsup:
            return "rejected", "outside the supported subset: " + "; ".join(l for l in lines if l.startswith("UNSUPPORTED"))[:200]
        if bad:
            return "killed", "%d of %d obligations fail: %s (%.0fs)" % (bad, nobl, ", ".join(failing[:4]), time.time() - t)
        return "survived", "%d obligations discharged (%.0fs)" % (nobl, time.time() - t)
    finally:
        open(target, "w", encoding="utf-8").write(orig)


def main():
    ap = argparse.ArgumentParser()
    ap.add_argument("pid")
    ap.add_argument("--max", type=int, default=40, help="mutants per function (sampled deterministically)")
    ap.add_argument("--jobs", type=int, default=4)
    ap.add_argument("--procs", type=int, default=4, help="solver processes per mutant")
    ap.add_argument("--only", default=None)
    ap.add_argument("--timeout", type=int, default=900)
    a = ap.parse_args()
    sys.path.insert(0, ROOT)
    import importlib.util
    spec = importlib.util.spec_from_file_location("verif_index", os.path.join(ROOT, "contracts", "index.py"))
    index = importlib.util.module_from_spec(spec)
    spec.loader.exec_module(index)
    from pyvc import registry
    rng = random.Random(int(os.environ.get("VERIF_SEED", "0")))
    jobs = []
    seen_src = set()
    for sc in index.PROPS[a.pid]["sidecars"]:
        reg = registry.load_sidecar(os.path.join(ROOT, "contracts", sc))
        for name, c in reg.contracts.items():
            if c.source is None or c.external or (a.only and a.only not in name):
                continue
            if (sc, c.source, name) in seen_src:
                continue
            seen_src.add((sc, c.source, name))
            inline_only = c.inline and not c.ensures and not c.raises
            try:
                ms = function_mutants(c.source, a.max, rng)
            except LookupError as e:
                print("cannot locate %s: %s" % (c.source, e))
                continue
            for m in ms:
                # an inlined helper is judged through its callers: run the whole sidecar
                jobs.append(dict(m, sidecar=sc, function=name, source=c.source, filter=None if inline_only else name, procs=a.procs))
    print("%s: %d mutants over %d functions" % (a.pid, len(jobs), len({j["function"] for j in jobs})))
    base = tempfile.mkdtemp(prefix="pyvc-mut-")
    results = []
    try:
        scratches = []
        for w in range(a.jobs):
            d = os.path.join(base, "w%d" % w)
            os.makedirs(d)
            shutil.copytree(os.path.join(REPO, "rope"), os.path.join(d, "rope"))
            scratches.append(d)
        import queue
        free = queue.Queue()
        for d in scratches:
            free.put(d)

        def work(job):
            d = free.get()
            try:
                v, detail = run_one(job, d, a.timeout)
            finally:
                free.put(d)
            r = {"function": job["function"], "sidecar": job["sidecar"], "mutant": job["desc"], "verdict": v, "detail": detail}
            print("%-9s %-45s %-70s %s" % (v, job["function"][:45], job["desc"][:70], detail[:120]), flush=True)
            return r
        with ThreadPoolExecutor(a.jobs) as tp:
            results = list(tp.map(work, jobs))
    finally:
        shutil.rmtree(base, ignore_errors=True)
    summary = {}
    for r in results:
        s = summary.setdefault(r["function"], {"killed": 0, "survived": 0, "rejected": 0})
        s[r["verdict"]] += 1
    out = {"property": a.pid, "mutants": len(results), "killed": sum(r["verdict"] == "killed" for r in results),
           "rejected": sum(r["verdict"] == "rejected" for r in results), "survived": sum(r["verdict"] == "survived" for r in results),
           "per_function": summary, "survivors": [r for r in results if r["verdict"] == "survived"],
           "rejected_list": [r for r in results if r["verdict"] == "rejected"],
           "operators": "comparison/arith/bool operator swaps, constants +-1, negated conditions, dropped `not`, return None, break<->continue, statement deletion",
           "max_per_function": a.max}
    os.makedirs(os.path.join(ROOT, "mutation"), exist_ok=True)
    path = os.path.join(ROOT, "mutation", a.pid + ("-" + a.only.replace("/", "_") if a.only else "") + ".json")
    json.dump(out, open(path, "w"), indent=1)
    print("== %s: %d mutants, %d killed, %d rejected, %d survived -> %s" % (a.pid, out["mutants"], out["killed"], out["rejected"], out["survived"], path))


if __name__ == "__main__":
    main()

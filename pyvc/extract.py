"""Mechanical extraction of the function under contract from /repo's *current working tree*.

The verified text is the text that runs: every run re-reads the module file, finds the
FunctionDef by qualified name (module:Outer.inner...), and hashes its source segment.
What extraction drops: docstrings, annotations, decorators (reported; the contract says how a
decorator is treated).  Nothing else is removed or rewritten.
"""
import ast
import hashlib
import os

REPO = os.environ.get("VERIF_REPO", "/repo")

_parsed = {}


def module_path(modname):
    p = os.path.join(REPO, *modname.split("."))
    if os.path.isdir(p):
        return os.path.join(p, "__init__.py")
    return p + ".py"


def parse_module(modname):
    path = module_path(modname)
    key = (path, os.path.getmtime(path))
    if key not in _parsed:
        src = open(path, encoding="utf-8").read()
        _parsed[key] = (src, ast.parse(src))
    return _parsed[key]


class Extracted:
    def __init__(self, qual, node, src, sha, cls, modname, classnode):
        self.qual, self.node, self.src, self.sha = qual, node, src, sha
        self.cls, self.modname, self.classnode = cls, modname, classnode
        self.decorators = [ast.unparse(d) for d in node.decorator_list]

    @property
    def lineno(self):
        return self.node.lineno


def find(qual):
    """qual = 'rope.base.change:ChangeSet.do'."""
    modname, path = qual.split(":")
    src, tree = parse_module(modname)
    node = tree
    cls = None
    classnode = None
    for part in path.split("."):
        found = None
        for child in ast.walk(node) if False else _children(node):
            if isinstance(child, (ast.FunctionDef, ast.AsyncFunctionDef, ast.ClassDef)) and child.name == part:
                found = child  # the last definition wins, as at run time
        if found is None:
            raise LookupError("cannot find %s in %s" % (part, qual))
        if isinstance(found, ast.ClassDef):
            cls = found.name
            classnode = found
        node = found
    if not isinstance(node, (ast.FunctionDef, ast.AsyncFunctionDef)):
        raise LookupError("%s is not a function" % qual)
    seg = ast.get_source_segment(src, node)
    sha = hashlib.sha256(seg.encode()).hexdigest()
    return Extracted(qual, node, seg, sha, cls, modname, classnode)


def _children(node):
    body = getattr(node, "body", [])
    out = []
    for s in body:
        out.append(s)
        # definitions nested in if/try at module level
        if isinstance(s, (ast.If, ast.Try)):
            for sub in ast.walk(s):
                if isinstance(sub, (ast.FunctionDef, ast.ClassDef)) and sub is not s:
                    out.append(sub)
    return out


def class_methods(modname, clsname):
    """name -> FunctionDef for a class body (used for visitor handler tables)."""
    src, tree = parse_module(modname)
    for node in ast.walk(tree):
        if isinstance(node, ast.ClassDef) and node.name == clsname:
            return {s.name: s for s in node.body if isinstance(s, (ast.FunctionDef, ast.AsyncFunctionDef))}, node
    raise LookupError(clsname)


def strip_docstring(body):
    if body and isinstance(body[0], ast.Expr) and isinstance(body[0].value, ast.Constant) and isinstance(body[0].value.value, str):
        return body[1:]
    return body

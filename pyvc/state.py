"""Symbolic state of the executor."""
import z3
from . import vtypes as ty
from .vtypes import SV


class FieldAlias:
    """A local name bound to a mutable container that lives in an object field (x = self.f)."""
    __slots__ = ("obj", "key", "t")

    def __init__(self, obj, key, t):
        self.obj, self.key, self.t = obj, key, t


class Box:
    """A local mutable container; names assigned from one another share the box."""
    __slots__ = ("id",)
    _n = [0]

    def __init__(self):
        Box._n[0] += 1
        self.id = Box._n[0]


class Exc:
    """An exception in flight: static class bound; exact=False means 'some subclass of cls'."""
    __slots__ = ("cls", "exact", "origin")

    def __init__(self, cls, exact=True, origin=""):
        self.cls, self.exact, self.origin = cls, exact, origin

    def __repr__(self):
        return "%s%s@%s" % (self.cls, "" if self.exact else "+", self.origin)


class State:
    def __init__(self):
        self.vars = {}      # name -> SV | FieldAlias | Box | python object (static: lambdas, modules)
        self.boxes = {}     # box id -> SV
        self.heap = {}      # field key -> z3 Array(Ref -> sort)
        self.heap_t = {}    # field key -> type
        self.ghost = {}     # ghost global name -> SV
        self.facts = []     # path condition + assumptions
        self.exc_stack = []  # exceptions being handled (for bare raise)
        self.trace = []     # human-readable branch decisions (for replay files)
        self.bounded = False  # a loop was unrolled on this path
        self.writes = None  # discovery mode: set of written locations

    def copy(self):
        s = State()
        s.vars = dict(self.vars)
        s.boxes = dict(self.boxes)
        s.heap = dict(self.heap)
        s.heap_t = self.heap_t
        s.ghost = dict(self.ghost)
        s.facts = list(self.facts)
        s.exc_stack = list(self.exc_stack)
        s.trace = list(self.trace)
        s.bounded = self.bounded
        s.writes = set(self.writes) if self.writes is not None else None   # per path: only writes on paths that reach the loop head matter
        return s

    def assume(self, f):
        if z3.is_true(f):
            return
        if z3.is_and(f):
            for c in f.children():
                self.assume(c)
            return
        self.facts.append(f)

    def log_write(self, loc):
        if self.writes is not None:
            self.writes.add(loc)


class Outcome:
    __slots__ = ("kind", "st", "val", "exc")

    def __init__(self, kind, st, val=None, exc=None):
        self.kind, self.st, self.val, self.exc = kind, st, val, exc

"""Contract registry: what a sidecar file under /verif/contracts declares.

A sidecar is a Python file executed with the names below in scope.  Nothing in it is code of
the system under verification: it only declares record schemas (the fields of rope classes the
verified functions touch), ghost state, spec functions, axioms (each one is reported as an
assumption), contracts (pre/post/frame/exceptional post, loop invariants) keyed by the
qualified name of the *real* function in /repo, lemmas over contracts, and bounded stand-ins.
"""
import ast
import z3
from . import vtypes as ty


class Record:
    def __init__(self, name, fields, bases, cid, abstract=False, pyclass=None, aliases=None):
        self.name, self.fields, self.bases, self.cid = name, fields, bases, cid
        self.abstract = abstract
        self.pyclass = pyclass
        self.aliases = dict(aliases or {})   # property name -> field it returns (checked against the class source)


class Contract:
    def __init__(self, name, **kw):
        self.name = name
        self.source = kw.pop("source", None)       # "rope.base.x:Class.meth" -> verified against the body
        self.params = kw.pop("params", {})          # ordered: name -> type text
        self.returns = kw.pop("returns", "NoneT")
        self.requires = kw.pop("requires", [])
        self.ensures = kw.pop("ensures", [])
        self.raises = kw.pop("raises", {})          # Exc class -> {"when": expr|None, "ensures": [...]}
        self.modifies = kw.pop("modifies", [])
        self.loops = kw.pop("loops", {})            # ordinal -> {"inv": [...], "decreases": expr, "unroll": k}
        self.locals = kw.pop("locals", {})          # declared local types
        self.strmode = kw.pop("strmode", "string")
        self.inline = kw.pop("inline", False)       # callers execute the real body instead of the contract
        self.is_property = kw.pop("is_property", False)
        self.pure = kw.pop("pure", False)
        self.external = kw.pop("external", False)   # trusted (stdlib / OS) -> listed in the trusted base
        self.abstract = kw.pop("abstract", False)   # abstract method contract; implementations are checked against it
        self.defaults = kw.pop("defaults", {})      # param -> expr text (callee default values)
        self.note = kw.pop("note", "")
        self.replay = kw.pop("replay", None)        # python callable(model_dict) -> replay dict | None
        self.decorated_by = kw.pop("decorated_by", None)
        self.ghost_in = kw.pop("ghost_in", {})      # extra ghost parameters (name -> type)
        self.instantiate = kw.pop("instantiate", [])  # extra ground lemma instances: list of expr texts (valid formulas only: lemma names)
        self.max_paths = kw.pop("max_paths", 400)
        self.list_search = kw.pop("list_search", "indexof")   # "positional": list.index/remove positions are plain integers with first-occurrence facts
        self.at_yield = kw.pop("at_yield", [])       # generator functions: clauses that hold whenever the function is suspended at a yield
        self.mutates = kw.pop("mutates", [])         # list/set/dict parameters changed in place: final(p) in ensures is their content at exit
        self.ignored_keywords = kw.pop("ignored_keywords", [])   # keyword arguments of an external the contract does not model
        self.heap_independent = kw.pop("heap_independent", False)  # pure and reads no mutable state: a function of its arguments
        if kw:
            raise TypeError("unknown contract keys %s for %s" % (sorted(kw), name))


class Registry:
    def __init__(self):
        self.records = {}
        self.contracts = {}
        self.ghosts = {}        # name -> type text
        self.specfuns = {}      # name -> (argtypes, rettype, z3 func or None, definition)
        self.axioms = []        # (name, vars, body text, note)
        self.lemmas = []        # (name, vars, hyps, goal, note)
        self.inductions = []
        self.constants = {}     # dotted source text -> (type text)
        self.exc_parents = dict(BUILTIN_EXC)
        self.bounded = []       # bounded stand-ins: dicts
        self.assumptions = []   # free text, reported in evidence
        self.externals_used = set()
        self._cid = 0

    # ---- declaration API (names exported to sidecars) -------------------------------------
    def record(self, name, fields=None, bases=(), abstract=False, pyclass=None, aliases=None):
        self._cid += 1
        self.records[name] = Record(name, dict(fields or {}), list(bases), self._cid, abstract, pyclass, aliases)
        if aliases:
            self.check_aliases(self.records[name])

    def check_aliases(self, rec):
        """`x = property(lambda self: self._x)` must literally be in the class body of the working tree."""
        import ast as _ast
        from . import extract
        mod, cls = rec.pyclass.split(":")
        _, node = extract.class_methods(mod, cls)
        found = {}
        for s in node.body:
            if isinstance(s, _ast.Assign) and len(s.targets) == 1 and isinstance(s.targets[0], _ast.Name):
                found[s.targets[0].id] = _ast.unparse(s.value)
        for prop, field in rec.aliases.items():
            want = "property(lambda self: self.%s)" % field
            if found.get(prop) != want:
                raise LookupError("alias %s.%s: expected `%s = %s` in the class body, found %r" % (rec.name, prop, prop, want, found.get(prop)))

    def ghost(self, name, typ):
        self.ghosts[name] = typ

    def specfun(self, name, argtypes, rettype, note=""):
        self.specfuns[name] = {"args": list(argtypes), "ret": rettype, "def": None, "params": None, "note": note}

    def specdef(self, name, params, rettype, body, recursive=False):
        """Defined spec function (macro-expanded unless recursive)."""
        self.specfuns[name] = {"args": list(params.values()), "ret": rettype, "def": body,
                               "params": list(params.keys()), "recursive": recursive, "note": ""}

    def axiom(self, name, vars, body, note="", patterns=None, strmode=None):
        self.axioms.append({"name": name, "vars": dict(vars), "body": body, "note": note, "patterns": patterns})

    def lemma(self, name, vars, hyps, goal, note="", uses=(), strmode="string", export=False, hints=(), patterns=None):
        """hints: terms whose reflexivity instance (t == t) is added so that the instantiation heuristics see them.
        export: after its proof the lemma joins the axioms (forall vars: hyps -> goal) for contracts declared in the same sidecar."""
        self.lemmas.append({"name": name, "vars": dict(vars), "hyps": list(hyps), "goal": goal, "note": note,
                            "uses": list(uses), "strmode": strmode, "hints": list(hints)})
        if export:
            guard = " and ".join("(%s)" % h for h in hyps) or "True"
            self.axioms.append({"name": "lemma_" + name, "vars": dict(vars), "body": "implies(%s, %s)" % (guard, goal),
                                "note": "proved as lemma:%s" % name, "patterns": patterns, "from_induction": True})

    def induction(self, name, vars, on, body, note="", hyps=()):
        """A fact proved by induction on the Int variable `on` (base: on == 0, step: on -> on + 1), then available as an axiom
        forall vars, on >= 0: hyps -> body."""
        self.inductions.append({"name": name, "vars": dict(vars), "on": on, "body": body, "note": note, "hyps": list(hyps)})
        allvars = dict(vars)
        allvars[on] = "Int"
        guard = " and ".join(["%s >= 0" % on] + ["(%s)" % h for h in hyps])
        self.axioms.append({"name": "ind_" + name, "vars": allvars, "body": "implies(%s, %s)" % (guard, body), "note": "proved by induction (obligations induction:%s/base, /step)" % name,
                            "patterns": None, "from_induction": True})

    def constant(self, dotted, typ):
        self.constants[dotted] = typ

    def contract(self, name, **kw):
        c = Contract(name, **kw)
        self.contracts[name] = c
        return c

    def exception(self, name, parent):
        self.exc_parents[name] = parent

    def assume(self, text):
        self.assumptions.append(text)

    def bounded_check(self, **kw):
        self.bounded.append(kw)

    # ---- queries -----------------------------------------------------------------------------
    def mro(self, cls):
        out, todo = [], [cls]
        while todo:
            c = todo.pop(0)
            if c in out or c not in self.records:
                continue
            out.append(c)
            todo.extend(self.records[c].bases)
        return out

    def subclasses(self, cls):
        return [n for n in self.records if cls in self.mro(n)]

    def field_key(self, cls, field):
        for c in self.mro(cls):
            field2 = self.records[c].aliases.get(field, field)
            if field2 in self.records[c].fields:
                return "%s.%s" % (c, field2), self.records[c].fields[field2]
        return None, None

    def find_method(self, cls, meth):
        for c in self.mro(cls):
            k = "%s.%s" % (c, meth)
            if k in self.contracts:
                return self.contracts[k]
        return None

    def exc_is_sub(self, a, b):
        """is exception class a a subclass of b (by name)?"""
        seen = a
        while seen is not None:
            if seen == b:
                return True
            seen = self.exc_parents.get(seen)
        return False

    def load_exceptions_from_repo(self, path):
        """Read the class hierarchy of rope/base/exceptions.py mechanically."""
        tree = ast.parse(open(path).read())
        for node in tree.body:
            if isinstance(node, ast.ClassDef) and node.bases:
                b = node.bases[0]
                self.exc_parents[node.name] = b.id if isinstance(b, ast.Name) else b.attr


BUILTIN_EXC = {
    "BaseException": None, "Exception": "BaseException", "KeyboardInterrupt": "BaseException",
    "SystemExit": "BaseException", "GeneratorExit": "BaseException",
    "ArithmeticError": "Exception", "ZeroDivisionError": "ArithmeticError", "AssertionError": "Exception",
    "AttributeError": "Exception", "EOFError": "Exception", "ImportError": "Exception",
    "ModuleNotFoundError": "ImportError", "LookupError": "Exception", "IndexError": "LookupError",
    "KeyError": "LookupError", "NameError": "Exception", "UnboundLocalError": "NameError",
    "OSError": "Exception", "IOError": "Exception", "FileNotFoundError": "OSError", "FileExistsError": "OSError",
    "PermissionError": "OSError", "IsADirectoryError": "OSError", "NotADirectoryError": "OSError",
    "RuntimeError": "Exception", "NotImplementedError": "RuntimeError", "RecursionError": "RuntimeError",
    "StopIteration": "Exception", "SyntaxError": "Exception", "IndentationError": "SyntaxError",
    "TypeError": "Exception", "ValueError": "Exception", "UnicodeError": "ValueError",
    "UnicodeDecodeError": "UnicodeError", "UnicodeEncodeError": "UnicodeError",
    "UnpicklingError": "Exception", "PicklingError": "Exception", "MemoryError": "Exception",
}


def load_sidecar(path, registry=None):
    reg = registry or Registry()
    ns = {k: getattr(reg, k) for k in ("record", "ghost", "specfun", "specdef", "axiom", "lemma", "constant", "induction",
                                         "contract", "exception", "assume", "bounded_check")}
    ns["REG"] = reg
    ns["__file__"] = path
    src = open(path).read()
    exec(compile(src, path, "exec"), ns)
    reg.namespace = ns
    return reg

"""Pure (specification-mode) evaluation of Python expressions to z3 terms.

Used for: requires / ensures / invariants / axioms / lemmas (contract text), and by the
code-mode evaluator for sub-expressions that cannot raise.  No forking, no exceptions:
partial operations (s[i], d[k]) denote the solver's total functions, so contracts must guard them.
"""
import ast
import z3
from . import vtypes as ty
from . import ops
from .vtypes import SV
from .ops import Unsupported
from .state import FieldAlias, Box


class Env:
    def __init__(self, st, old=None, locals_=None, ex=None):
        self.st, self.old, self.locals, self.ex = st, old, dict(locals_ or {}), ex

    def with_state(self, st):
        return Env(st, self.old, self.locals, self.ex)

    def bind(self, name, sv):
        e = Env(self.st, self.old, self.locals, self.ex)
        e.locals[name] = sv
        return e


class SpecEval:
    def __init__(self, reg):
        self.reg = reg
        self._funs = {}
        self._recdefs = {}

    # ---- helpers ---------------------------------------------------------------------------
    def T(self, text):
        return ty.parse_type(text)

    def heap_array(self, st, key, ftype):
        if key not in st.heap:
            st.heap[key] = z3.Const("H0_" + key.replace(".", "_"), z3.ArraySort(ty.Ref, ty.sort_of(ftype)))
        return st.heap[key]

    def read_field(self, st, obj, field):
        """obj: SV of RefT (or Opt[RefT], unwrapped)."""
        if isinstance(obj.t, ty.Opt):
            obj = ty.opt_val(obj)
        if isinstance(obj.t, ty.Tuple) or not isinstance(obj.t, ty.RefT):
            raise Unsupported("attribute %s of %s" % (field, obj.t))
        key, ftext = self.reg.field_key(obj.t.cls, field)
        if key is None:
            raise Unsupported("no field %s.%s declared" % (obj.t.cls, field))
        ft = self.T(ftext)
        return SV(ft, smart_select(self.heap_array(st, key, ft), obj.e)), key, ft

    def specfun(self, name):
        if name in self._funs:
            return self._funs[name]
        d = self.reg.specfuns[name]
        args = [ty.sort_of(self.T(a)) for a in d["args"]]
        f = z3.Function(name, *args, ty.sort_of(self.T(d["ret"])))
        self._funs[name] = f
        return f

    def lookup_name(self, name, env):
        if name in env.locals:
            return env.locals[name]
        st = env.st
        if name in st.vars:
            v = st.vars[name]
            if isinstance(v, Box):
                return st.boxes[v.id]
            if isinstance(v, FieldAlias):
                return SV(v.t, smart_select(self.heap_array(st, v.key, v.t), v.obj))
            return v
        if name in st.ghost:
            return st.ghost[name]
        if name in ("True", "False"):
            return SV(ty.Bool, z3.BoolVal(name == "True"))
        raise Unsupported("unbound name %r in spec" % name)

    # ---- main ------------------------------------------------------------------------------
    def eval(self, node, env):
        if isinstance(node, str):
            node = ast.parse(node.strip(), mode="eval").body
        m = getattr(self, "e_" + type(node).__name__, None)
        if m is None:
            raise Unsupported("spec expression %s" % type(node).__name__)
        return m(node, env)

    def boolean(self, node, env):
        v = self.eval(node, env)
        return ops.truthy(v)

    def e_Constant(self, node, env):
        v = node.value
        if v is None:
            return ty.none_val()
        if isinstance(v, bool):
            return SV(ty.Bool, z3.BoolVal(v))
        if isinstance(v, int):
            return SV(ty.Int, z3.IntVal(v))
        if isinstance(v, str):
            return ty.str_const(v)
        raise Unsupported("constant %r" % (v,))

    def e_Name(self, node, env):
        return self.lookup_name(node.id, env)

    def e_Attribute(self, node, env):
        dotted = _dotted(node)
        if dotted and dotted in self.reg.constants:
            return self.const(dotted)
        obj = self.eval(node.value, env)
        o2 = ty.opt_val(obj) if isinstance(obj.t, ty.Opt) else obj
        if isinstance(o2.t, ty.RefT) and self.reg.field_key(o2.t.cls, node.attr)[0] is None:
            c = self.reg.find_method(o2.t.cls, node.attr)
            if c is not None and c.is_property and c.pure and c.heap_independent:
                return self.method(o2, node.attr, [], env)
        return self.read_field(env.st, obj, node.attr)[0]

    def const(self, dotted):
        t = self.T(self.reg.constants[dotted])
        return SV(t, z3.Const("const_" + dotted.replace(".", "_"), ty.sort_of(t)))

    def e_Subscript(self, node, env):
        v = self.eval(node.value, env)
        if isinstance(v.t, ty.Opt):
            v = ty.opt_val(v)
        if isinstance(node.slice, ast.Slice):
            if node.slice.step is not None:
                raise Unsupported("slice step")
            a = self.eval(node.slice.lower, env) if node.slice.lower else None
            b = self.eval(node.slice.upper, env) if node.slice.upper else None
            return ops.slice_(v, a, b, pythonic=False)
        if isinstance(v.t, ty.Map):
            k = ops.coerce(self.eval(node.slice, env), v.t.key)
            return ty.opt_val(SV(ty.Opt(v.t.val), z3.Select(v.e, k.e)))
        i = self.eval(node.slice, env)
        cases = ops.index(v, i, pythonic=False)
        return cases[0][2]

    def e_BinOp(self, node, env):
        a, b = self.eval(node.left, env), self.eval(node.right, env)
        return ops.binop(type(node.op).__name__, a, b)[0][2]

    def e_UnaryOp(self, node, env):
        v = self.eval(node.operand, env)
        if isinstance(node.op, ast.Not):
            return SV(ty.Bool, z3.Not(ops.truthy(v)))
        if isinstance(node.op, ast.USub):
            return SV(ty.Int, -v.e)
        raise Unsupported("unary op")

    def e_BoolOp(self, node, env):
        vals = [self.eval(v, env) for v in node.values]
        if all(v.t == ty.Bool for v in vals):
            es = [v.e for v in vals]
            return SV(ty.Bool, z3.And(*es) if isinstance(node.op, ast.And) else z3.Or(*es))
        # value-returning and/or
        res = vals[-1]
        for v in reversed(vals[:-1]):
            c = ops.truthy(v)
            res = ops.ite(c, res, v) if isinstance(node.op, ast.And) else ops.ite(c, v, res)
        return res

    def e_Compare(self, node, env):
        left = self.eval(node.left, env)
        out = []
        for op, rn in zip(node.ops, node.comparators):
            right = self.eval(rn, env)
            if isinstance(op, (ast.Eq, ast.NotEq)) and left.e is not None and right.e is not None:
                # in a SPECIFICATION an equality between values of unrelated types is a slip of the author (it would silently be False and,
                # as an invariant or a callee postcondition, make everything after it vacuously provable): refuse it
                try:
                    ops.unify(left, right)
                except Unsupported:
                    raise Unsupported("specification compares values of unrelated types %s and %s: `%s`" % (left.t, right.t, ast.unparse(node)[:120]))
            out.append(ops.compare(type(op).__name__, left, right))
            left = right
        return SV(ty.Bool, out[0] if len(out) == 1 else z3.And(*out))

    def e_IfExp(self, node, env):
        c = self.boolean(node.test, env)
        return ops.ite(c, self.eval(node.body, env), self.eval(node.orelse, env))

    def e_Tuple(self, node, env):
        return ops.make_tuple([self.eval(e, env) for e in node.elts])

    def e_List(self, node, env):
        if not node.elts:
            return SV(ty.Seq(ty.Any), None)
        parts = [self.eval(e, env) for e in node.elts]
        t = parts[0].t
        us = [z3.Unit(ops.coerce(p, t).e) for p in parts]
        return SV(ty.Seq(t), us[0] if len(us) == 1 else z3.Concat(*us))

    def e_Call(self, node, env):
        f = node.func
        if isinstance(f, ast.Name):
            name = f.id
            h = getattr(self, "f_" + name, None)
            if h is not None:
                return h(node, env)
            if name in self.reg.specfuns:
                return self.call_specfun(name, [self.eval(a, env) for a in node.args], env)
            if name in env.locals and callable(env.locals[name]):
                return env.locals[name](*[self.eval(a, env) for a in node.args])
            raise Unsupported("spec call %s" % name)
        if isinstance(f, ast.Attribute):
            recv = self.eval(f.value, env)
            return self.method(recv, f.attr, [self.eval(a, env) for a in node.args], env)
        raise Unsupported("spec call form")

    def call_specfun(self, name, args, env):
        d = self.reg.specfuns[name]
        ats = [self.T(a) for a in d["args"]]
        if len(ats) != len(args):
            raise Unsupported("arity of %s" % name)
        args = [ops.coerce(a, t) for a, t in zip(args, ats)]
        rt = self.T(d["ret"])
        if d["def"] is not None and not d.get("recursive"):
            sub = Env(env.st, env.old, dict(zip(d["params"], args)), env.ex)
            return ops.coerce(self.eval(d["def"], sub), rt)
        if d["def"] is not None and d.get("recursive"):
            return SV(rt, self.recfun(name)(*[a.e for a in args]))
        return SV(rt, self.specfun(name)(*[a.e for a in args]))

    def recfun(self, name):
        if name in self._recdefs:
            return self._recdefs[name]
        d = self.reg.specfuns[name]
        ats = [self.T(a) for a in d["args"]]
        rt = self.T(d["ret"])
        f = z3.RecFunction(name, *[ty.sort_of(a) for a in ats], ty.sort_of(rt))
        self._recdefs[name] = f
        ps = [z3.Const("%s_%s" % (name, p), ty.sort_of(a)) for p, a in zip(d["params"], ats)]
        from .state import State
        sub = Env(State(), None, {p: SV(a, c) for p, a, c in zip(d["params"], ats, ps)}, None)
        body = ops.coerce(self.eval(d["def"], sub), rt)
        z3.RecAddDefinition(f, ps, body.e)
        return f

    # ---- spec builtins ---------------------------------------------------------------------
    def f_len(self, node, env):
        v = self.eval(node.args[0], env)
        if isinstance(v.t, ty.Opt):
            v = ty.opt_val(v)
        if isinstance(v.t, ty.Tuple):
            return SV(ty.Int, z3.IntVal(len(v.t.elems)))
        return ops.length(v)

    def f_old(self, node, env):
        if env.old is None:
            raise Unsupported("old() outside a postcondition")
        if "__param_result" in env.locals:
            return self.eval(node.args[0], Env(env.old, env.old, dict(env.locals, result=env.locals["__param_result"]), env.ex))
        return self.eval(node.args[0], Env(env.old, env.old, env.locals, env.ex))

    def f_final(self, node, env):
        """final(p): the content, at exit, of a container parameter the function changes in place (declared in `mutates`).
        In a caller the value comes from the call site's write-back; in the function's own proof it is the variable's current value."""
        name = node.args[0].id
        fin = env.locals.get("__final__")
        if fin is not None and name in fin:
            return fin[name]
        if name not in env.st.vars:
            raise Unsupported("final(%s): not a variable of the function" % name)
        return self.lookup_name(name, Env(env.st, env.old, {k: v for k, v in env.locals.items() if k != name}, env.ex))

    def f_implies(self, node, env):
        a, b = self.boolean(node.args[0], env), self.boolean(node.args[1], env)
        return SV(ty.Bool, z3.Implies(a, b))

    def f_iff(self, node, env):
        a, b = self.boolean(node.args[0], env), self.boolean(node.args[1], env)
        return SV(ty.Bool, a == b)

    def _quant(self, node, env, q):
        lam = node.args[0]
        names = [a.arg for a in lam.args.args]
        types = [self.T(ast.literal_eval(a)) if isinstance(a, ast.Constant) else ty.Int for a in node.args[1:]]
        types += [ty.Int] * (len(names) - len(types))
        SpecEval._qn = getattr(SpecEval, "_qn", 0) + 1
        consts = [z3.Const("%s!q%d" % (n, SpecEval._qn), ty.sort_of(t)) for n, t in zip(names, types)]
        sub = env
        for n, t, c in zip(names, types, consts):
            sub = sub.bind(n, SV(t, c))
        body = self.boolean(lam.body, sub)
        return SV(ty.Bool, q(consts, body))

    def f_forall(self, node, env):
        return self._quant(node, env, z3.ForAll)

    def f_exists(self, node, env):
        return self._quant(node, env, z3.Exists)

    def f_class_of(self, node, env):
        """class_of(x): the class id of an object (compare with == only)"""
        v = self.eval(node.args[0], env)
        if isinstance(v.t, ty.Opt):
            v = ty.opt_val(v)
        return SV(ty.Int, ty.typeof(v.e))

    def f_cast(self, node, env):
        """cast(x, 'Class'): x seen as an object of that record class (to be used under an isinstance guard; no obligation of its own)"""
        v = self.eval(node.args[0], env)
        if isinstance(v.t, ty.Opt):
            v = ty.opt_val(v)
        return SV(ty.RefT(node.args[1].value), v.e)

    def f_isinstance(self, node, env):
        v = self.eval(node.args[0], env)
        return SV(ty.Bool, self.isinstance_(v, node.args[1]))

    def isinstance_(self, v, clsnode):
        names = [_dotted(e).split(".")[-1] for e in (clsnode.elts if isinstance(clsnode, ast.Tuple) else [clsnode])]
        if isinstance(v.t, ty.Opt):
            inner = self.isinstance_(ty.opt_val(v), clsnode)
            return z3.And(z3.Not(ty.opt_is_none(v)), inner)
        if isinstance(v.t, ty.RefT):
            ids = []
            for n in names:
                ids += [self.reg.records[s].cid for s in self.reg.subclasses(n)]
            return z3.Or(*[ty.typeof(v.e) == i for i in ids]) if ids else z3.BoolVal(False)
        prim = {"str": ty.Str, "int": ty.Int, "bool": ty.Bool}
        return z3.BoolVal(any(prim.get(n) == v.t or (n in ("list", "tuple") and isinstance(v.t, (ty.Seq, ty.Tuple))) for n in names))

    def f_Some(self, node, env):
        return ty.opt_some(self.eval(node.args[0], env))

    def f_is_none(self, node, env):
        v = self.eval(node.args[0], env)
        return SV(ty.Bool, ty.opt_is_none(v) if isinstance(v.t, ty.Opt) else z3.BoolVal(v.t == ty.NoneT))

    def f_val(self, node, env):
        return ty.opt_val(self.eval(node.args[0], env))

    def f_min(self, node, env):
        a, b = [self.eval(x, env) for x in node.args]
        return SV(ty.Int, z3.If(a.e <= b.e, a.e, b.e))

    def f_max(self, node, env):
        a, b = [self.eval(x, env) for x in node.args]
        return SV(ty.Int, z3.If(a.e >= b.e, a.e, b.e))

    def f_ite(self, node, env):
        return ops.ite(self.boolean(node.args[0], env), self.eval(node.args[1], env), self.eval(node.args[2], env))

    def f_typeof(self, node, env):
        return SV(ty.Int, ty.typeof(self.eval(node.args[0], env).e))

    def f_classid(self, node, env):
        return SV(ty.Int, z3.IntVal(self.reg.records[node.args[0].id].cid))

    def f_select(self, node, env):  # select(map_or_set, key)
        m = self.eval(node.args[0], env)
        k = self.eval(node.args[1], env)
        if isinstance(m.t, ty.Set):
            return SV(ty.Bool, z3.Select(m.e, ops.coerce(k, m.t.key).e))
        return SV(ty.Opt(m.t.val), z3.Select(m.e, ops.coerce(k, m.t.key).e))

    def f_store_opt(self, node, env):
        """store_opt(m, k, v): the map m with key k bound to the Optional v (None = key removed)"""
        m = self.eval(node.args[0], env)
        k = ops.coerce(self.eval(node.args[1], env), m.t.key)
        v = ops.coerce(self.eval(node.args[2], env), ty.Opt(m.t.val))
        return SV(m.t, z3.Store(m.e, k.e, v.e))

    def f_raised(self, node, env):
        """raised(E): in an exceptional postcondition, the class of the exception in flight."""
        return SV(ty.Bool, z3.BoolVal(env.ex is not None and self.reg.exc_is_sub(env.ex.cls, node.args[0].id)))

    # ---- methods in spec mode ---------------------------------------------------------------
    def method(self, recv, name, args, env):
        t = recv.t
        if isinstance(t, ty.Opt):
            recv = ty.opt_val(recv)
            t = recv.t
        if t == ty.Str:
            if name == "startswith":
                return SV(ty.Bool, z3.PrefixOf(args[0].e, recv.e))
            if name == "endswith":
                return SV(ty.Bool, z3.SuffixOf(args[0].e, recv.e))
            if name in ("isalnum", "isalpha", "isdigit", "isspace", "isidentifier", "isupper", "islower"):
                return ops.str_pred(name, recv)
            if name == "find":
                start = args[1].e if len(args) > 1 else z3.IntVal(0)
                return SV(ty.Int, z3.IndexOf(recv.e, args[0].e, start))
        if isinstance(t, ty.RefT):
            c = self.reg.find_method(t.cls, name)
            if c is not None and c.pure and c.heap_independent:
                ats = [self.T(a) for a in c.params.values()]
                vals = [ops.coerce(a, t_) for a, t_ in zip([recv] + args, ats)]
                f = z3.Function("pure_%s" % c.name.replace(".", "_").replace(":", "_"), *[ty.sort_of(a) for a in ats], ty.sort_of(self.T(c.returns)))
                return SV(self.T(c.returns), f(*[v.e for v in vals]))
        raise Unsupported("spec method %s.%s" % (t, name))


def smart_select(arr, idx):
    """Select through a Store chain when the index is syntactically the stored one."""
    a = arr
    while z3.is_app(a) and a.decl().kind() == z3.Z3_OP_STORE:
        base, i, v = a.children()
        if i.eq(idx):
            return v
        break
    return z3.Select(arr, idx)


def smart_store(arr, idx, val):
    if z3.is_app(arr) and arr.decl().kind() == z3.Z3_OP_STORE and arr.children()[1].eq(idx):
        return z3.Store(arr.children()[0], idx, val)
    return z3.Store(arr, idx, val)


def _dotted(node):
    parts = []
    while isinstance(node, ast.Attribute):
        parts.append(node.attr)
        node = node.value
    if isinstance(node, ast.Name):
        parts.append(node.id)
        return ".".join(reversed(parts))
    return None

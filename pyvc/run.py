"""Verify every source-backed contract of a sidecar; print a table.  (development driver)"""
import sys, time, traceback
from . import registry, solve
from .executor import Executor
from .ops import Unsupported


def verify_sidecar(path, only=None, verbose=True):
    reg = registry.load_sidecar(path)
    reg.load_exceptions_from_repo("/repo/rope/base/exceptions.py")
    allobs, errors, execs = [], [], []
    for name, c in reg.contracts.items():
        if c.source is None or c.inline and not c.ensures:
            continue
        if only and only not in name:
            continue
        ex = Executor(reg, c)
        t = time.time()
        try:
            obs = ex.run()
        except Unsupported as e:
            errors.append((name, "unsupported: %s" % e))
            if verbose:
                print("UNSUPPORTED %s: %s" % (name, e))
            continue
        execs.append(ex)
        if verbose:
            print("-- %s: %d obligations generated in %.2fs (%d exits)" % (name, len(obs), time.time() - t, ex.n_exits))
        allobs += obs
    from .check import lemma_obligations
    allobs += lemma_obligations(reg, path)
    solve.discharge(allobs)
    return reg, allobs, errors, execs


if __name__ == "__main__":
    only = sys.argv[2] if len(sys.argv) > 2 else None
    reg, obs, errors, execs = verify_sidecar(sys.argv[1], only)
    bad = 0
    for ob in obs:
        r = ob.result
        flag = "" if r["status"] in ("discharged", "ok") else "   <=========="
        bad += bool(flag)
        print("%-100s %-10s %-28s %6.3fs%s" % (ob.name, r["status"], ",".join(r["backends"]), r["time"], flag))
        if flag and r.get("model"):
            print("     model:", {k: v for k, v in list(r["model"].items())[:12]})
    print("== %d obligations, %d not discharged, %d unsupported functions" % (len(obs), bad, len(errors)))

"""Native evaluation of contract text on real Python values (replay and bounded stand-ins).

The same contract strings that are translated to SMT are compiled to Python here:
  implies(a, b) -> (not a) or b          (lazy)      forall(lambda i: P) -> all(P for i in DOM)
  old(e) -> value of e captured before the call       val(x) -> x, is_none(x) -> x is None
Spec functions with a definition (specdef) become Python functions; uninterpreted ones are not
evaluable natively (a clause using them is reported as 'not natively evaluable', never as failing).
"""
import ast
import copy
import importlib


class NotEvaluable(Exception):
    pass


class _Tx(ast.NodeTransformer):
    def __init__(self, olds):
        self.olds = olds

    def visit_Call(self, node):
        if isinstance(node.func, ast.Name):
            n = node.func.id
            if n == "old":
                key = "__old_%d" % len(self.olds)
                inner = self.generic_visit_expr(node.args[0])
                # a PARAMETER named `result`: inside old(...) and final(...) the name means the parameter, elsewhere the return value
                for sub in ast.walk(inner):
                    if isinstance(sub, ast.Name) and sub.id == "result":
                        sub.id = "__param_result_or_result"
                self.olds.append((key, ast.Expression(inner)))
                return ast.copy_location(ast.Name(id=key, ctx=ast.Load()), node)
            if n == "final" and isinstance(node.args[0], ast.Name) and node.args[0].id == "result":
                return ast.copy_location(ast.Name(id="__param_result_or_result", ctx=ast.Load()), node)
            node = self.generic_visit(node)
            if n == "implies":
                return ast.copy_location(ast.BoolOp(op=ast.Or(), values=[ast.UnaryOp(op=ast.Not(), operand=node.args[0]), node.args[1]]), node)
            if n in ("forall", "exists"):
                lam = node.args[0]
                names = [a.arg for a in lam.args.args]
                gens = []
                for i, nm in enumerate(names):
                    dom = "__dom__"
                    if len(node.args) > 1 + i and isinstance(node.args[1 + i], ast.Constant) and node.args[1 + i].value != "Int":
                        dom = "__dom_%s__" % "".join(c if c.isalnum() else "_" for c in node.args[1 + i].value)
                    gens.append(ast.comprehension(target=ast.Name(id=nm, ctx=ast.Store()), iter=ast.Name(id=dom, ctx=ast.Load()), ifs=[], is_async=0))
                ge = ast.GeneratorExp(elt=lam.body, generators=gens)
                return ast.copy_location(ast.Call(func=ast.Name(id="all" if n == "forall" else "any", ctx=ast.Load()), args=[ge], keywords=[]), node)
            return node
        return self.generic_visit(node)

    def generic_visit_expr(self, e):
        return _Tx(self.olds).visit(e)


def _compile(text, olds):
    tree = ast.parse(text.strip(), mode="eval")
    tree = _Tx(olds).visit(tree)
    ast.fix_missing_locations(tree)
    return compile(tree, "<contract>", "eval")


BASE_ENV = {
    "val": lambda x: x, "is_none": lambda x: x is None, "Some": lambda x: x, "final": lambda x: x, "class_of": lambda x: type(x), "cast": lambda x, c: x,
    "iff": lambda a, b: bool(a) == bool(b), "ite": lambda c, a, b: a if c else b,
    "select": lambda m, k: (k in m) if isinstance(m, (set, frozenset)) else m.get(k),
    "len": len, "min": min, "max": max, "isinstance": isinstance, "all": all, "any": any,
    "True": True, "False": False, "None": None,
}


def _snapshot(v):
    """The value of an old(...) expression: containers are copied (they may be changed in place by the call), the objects they hold are
    kept by reference (object identity is what the contracts' `==` on objects means)."""
    if isinstance(v, list):
        return [_snapshot(x) for x in v]
    if isinstance(v, tuple):
        return tuple(_snapshot(x) for x in v)
    if isinstance(v, dict):
        return {k: _snapshot(x) for k, x in v.items()}
    if isinstance(v, (set, frozenset)):
        return type(v)(v)
    return v


class NativeSpec:
    def __init__(self, reg, extra_env=None):
        self.reg = reg
        self.env = dict(BASE_ENV)
        self.env.update(extra_env or {})
        for name, d in reg.specfuns.items():
            if d["def"] is not None:
                self.env[name] = self._mk_specdef(name, d)
        for name, rec in reg.records.items():
            pc = getattr(rec, "pyclass", None)
            if pc:
                mod, cls = pc.split(":")
                self.env[name] = getattr(importlib.import_module(mod), cls)

    def _mk_specdef(self, name, d):
        olds = []
        code = _compile(d["def"], olds)
        params = d["params"]

        def f(*args):
            env = dict(self.cur_env)
            env.update(zip(params, args))
            return eval(code, env)
        return f

    def domain(self, values, cap=24):
        n = 0

        def walk(v, depth=0):
            nonlocal n
            if isinstance(v, (str, list, tuple, bytes)):
                n = max(n, len(v))
                if depth < 2 and not isinstance(v, (str, bytes)):
                    for x in v:
                        walk(x, depth + 1)
            elif isinstance(v, int) and not isinstance(v, bool):
                n = max(n, min(abs(v), cap))
            elif hasattr(v, "__dict__") and depth < 2:
                for x in vars(v).values():
                    walk(x, depth + 1)
        for v in values:
            walk(v)
        return range(-1, min(n, cap) + 2)

    def prepare(self, clauses):
        """-> list of (text, code, olds)"""
        out = []
        for text in clauses:
            olds = []
            out.append((text, _compile(text, olds), [(k, compile(ast.fix_missing_locations(e), "<old>", "eval")) for k, e in olds]))
        return out

    def eval_pre(self, prepared, env):
        """Evaluate old(...) sub-expressions in the pre-state -> dict"""
        self.cur_env = dict(self.env, **env)
        self.cur_env["__dom__"] = env.get("__dom__", self.domain(list(env.values())))
        oldvals = {}
        for text, code, olds in prepared:
            for k, oc in olds:
                oldvals[(text, k)] = _snapshot(eval(oc, self.cur_env))
        return oldvals

    def check(self, prepared, env, oldvals=None):
        """-> list of (text, True/False/'not-evaluable: why')"""
        self.cur_env = dict(self.env, **env)
        self.cur_env["__dom__"] = env.get("__dom__", self.domain(list(env.values())))
        res = []
        for text, code, olds in prepared:
            e = dict(self.cur_env)
            for k, _ in olds:
                e[k] = (oldvals or {}).get((text, k))
            self.cur_env = e
            try:
                res.append((text, bool(eval(code, e))))
            except Exception as ex:   # a partial operation outside its domain: the clause says nothing here
                res.append((text, "not-evaluable: %s: %s" % (type(ex).__name__, ex)))
        return res

"""Discharging obligations: preprocessing (skolemisation, ground instantiation) and the solver portfolio.

Portfolio per obligation: z3 5.1 (API, in a worker process) -> on unknown: the same problem with the
quantified hypotheses dropped (only their ground instances kept; sound: fewer hypotheses) ->
/usr/bin/cvc5 --strings-exp -> /usr/bin/z3 4.8.12.  `unsat` = discharged, `sat` = refuted (model kept),
anything else = unknown (never reported as a violation).
"""
import os
import subprocess
import tempfile
import time
import multiprocessing as mp
import z3

T_Z3 = int(os.environ.get("PYVC_T_Z3_MS", "8000"))
T_EXT = int(os.environ.get("PYVC_T_EXT_S", "20"))


def flatten_and(fs):
    out = []
    todo = list(fs)
    while todo:
        f = todo.pop(0)
        if z3.is_and(f):
            todo = list(f.children()) + todo
        else:
            out.append(f)
    return out


def skolemize_goal(goal, n=[0]):
    """goal -> list of (extra_hyps, goal') with top-level conjunctions split and foralls/implications opened."""
    res = []
    todo = [([], goal)]
    while todo:
        hyps, g = todo.pop(0)
        if z3.is_and(g):
            for c in g.children():
                todo.append((hyps, c))
        elif z3.is_quantifier(g) and g.is_forall():
            n[0] += 1
            consts = [z3.Const("%s!sk%d" % (g.var_name(i), n[0]), g.var_sort(i)) for i in range(g.num_vars())]
            body = z3.substitute_vars(g.body(), *reversed(consts))
            todo.append((hyps, body))
        elif z3.is_implies(g):
            a, b = g.children()
            todo.append((hyps + [a], b))
        else:
            res.append((hyps, g))
    return res


def index_terms(fs, limit=14):
    """Int-sorted terms used as sequence indices / array keys / function arguments in ground formulas."""
    seen = {}
    visited = set()

    def visit(e, bound):
        if z3.is_quantifier(e):
            return
        key = e.get_id()
        if key in visited:
            return
        visited.add(key)
        if z3.is_app(e):
            k = e.decl().kind()
            name = e.decl().name()
            if k in (z3.Z3_OP_SEQ_NTH, z3.Z3_OP_SEQ_AT, z3.Z3_OP_SELECT, z3.Z3_OP_SEQ_EXTRACT, z3.Z3_OP_UNINTERPRETED) or name in ("seq.nth_i", "seq.nth_u"):
                for ch in e.children()[(1 if k != z3.Z3_OP_UNINTERPRETED else 0):]:
                    if z3.is_int(ch) and not z3.is_int_value(ch):
                        seen.setdefault(ch.get_id(), ch)
                    elif z3.is_int_value(ch):
                        seen.setdefault(ch.get_id(), ch)
            if k == z3.Z3_OP_UNINTERPRETED and e.num_args() == 0 and z3.is_int(e):
                seen.setdefault(e.get_id(), e)
            for ch in e.children():
                visit(ch, bound)

    for f in fs:
        visit(f, ())
    terms = list(seen.values())
    terms.sort(key=lambda t: len(str(t)))
    return terms[:limit]


def sorted_terms(fs, limit=6):
    """Ground terms of the non-Int, non-Bool sorts (arguments of uninterpreted functions, constants), grouped by sort."""
    out = {}
    visited = set()

    def add(t):
        so = t.sort()
        if so.kind() in (z3.Z3_BOOL_SORT, z3.Z3_INT_SORT):
            return
        d = out.setdefault(so.name() + str(so), {})
        d.setdefault(t.get_id(), t)

    def visit(e):
        if z3.is_quantifier(e):
            return
        k = e.get_id()
        if k in visited:
            return
        visited.add(k)
        if z3.is_app(e):
            if e.decl().kind() == z3.Z3_OP_UNINTERPRETED:
                if e.num_args() == 0:
                    add(e)
                for ch in e.children():
                    add(ch)
            elif e.decl().kind() in (z3.Z3_OP_SELECT, z3.Z3_OP_SEQ_LENGTH, z3.Z3_OP_SEQ_NTH, z3.Z3_OP_EQ):
                for ch in e.children():
                    add(ch)
            for ch in e.children():
                visit(ch)
    for f in fs:
        visit(f)
    res = {}
    for key, d in out.items():
        ts = sorted(d.values(), key=lambda t: len(str(t)))
        res[key] = ts[:limit]
    return res


def _match(pat, term, b):
    """Syntactic matching of a pattern (bound variables = z3 Var) against a ground term."""
    if z3.is_var(pat):
        idx = z3.get_var_index(pat)
        if idx in b:
            return b[idx].eq(term)
        if pat.sort() != term.sort():
            return False
        b[idx] = term
        return True
    if not z3.is_app(pat) or not z3.is_app(term):
        return False
    if not pat.decl().eq(term.decl()) or pat.num_args() != term.num_args():
        return False
    for pc, tc in zip(pat.children(), term.children()):
        if not _match(pc, tc, b):
            return False
    return True


def ematch(hyps, ground, limit=200):
    """Instances of pattern-annotated quantified hypotheses obtained by matching a pattern against the ground subterms (E-matching without congruence)."""
    buckets = {}
    seen = set()

    def visit(e):
        if z3.is_quantifier(e) or e.get_id() in seen:
            return
        seen.add(e.get_id())
        if z3.is_app(e):
            if e.num_args() > 0:
                buckets.setdefault(e.decl().name(), []).append(e)
            for c in e.children():
                visit(c)
    for g in ground:
        visit(g)
    insts = []
    for h in hyps:
        if not (z3.is_quantifier(h) and h.is_forall()) or h.num_patterns() == 0:
            continue
        nv = h.num_vars()
        for pi in range(h.num_patterns()):
            pt = h.pattern(pi)
            pats = [pt.arg(k) for k in range(pt.num_args())]
            if not all(z3.is_app(p_) for p_ in pats):
                continue
            # (multi-)pattern: join the matches of each sub-pattern on shared variables
            partial = [{}]
            for p_ in pats:
                nxt = []
                for b in partial:
                    for t in buckets.get(p_.decl().name(), [])[:limit]:
                        b2 = dict(b)
                        if _match(p_, t, b2):
                            nxt.append(b2)
                            if len(nxt) > 3000:
                                break
                    if len(nxt) > 3000:
                        break
                partial = nxt
            done_keys = set()
            for b in partial:
                if len(b) != nv:
                    continue
                key = tuple(b[i].get_id() for i in range(nv))
                if key in done_keys:
                    continue
                done_keys.add(key)
                m = [b[i] for i in range(nv)]
                insts.append(norm(z3.substitute_vars(h.body(), *m)))
    return [i for i in insts if not z3.is_true(i)]


def instantiate(hyps, ground, max_inst=400):
    """Ground instances of quantified hypotheses: Int variables at the index terms of the ground part,
    variables of other sorts at the ground terms of that sort (all instances of valid hypotheses are valid)."""
    insts = []
    terms = index_terms(ground)
    extra = [z3.IntVal(0)]
    tl = terms + [t for t in extra if all(not t.eq(x) for x in terms)]
    others = None
    for h in hyps:
        if not (z3.is_quantifier(h) and h.is_forall()):
            continue
        nv = h.num_vars()
        sorts = [h.var_sort(i) for i in range(nv)]
        if all(so == z3.IntSort() for so in sorts):
            if nv == 1:
                combos = [(t,) for t in tl]
            elif nv == 2:
                sub = tl[:12]
                combos = [(a, b) for a in sub for b in sub]
            else:
                continue
        else:
            if nv > 4:
                continue
            if others is None:
                others = sorted_terms(ground)
            cands = []
            for so in sorts:
                if so == z3.IntSort():
                    cands.append(tl[:6])
                else:
                    cands.append(others.get(so.name() + str(so), []))
            if any(not c for c in cands):
                continue
            import itertools
            combos = list(itertools.islice(itertools.product(*cands), 300))
        for cmb in combos[:max_inst]:
            insts.append(norm(z3.substitute_vars(h.body(), *reversed(cmb))))
    return [i for i in insts if not z3.is_true(i)]


def rewrite(e, memo=None):
    """Equivalence-preserving rewriting (rule R2): nth over a concatenation is split by position.
    nth(a ++ b, t) == ite(0 <= t < len a, nth(a,t), ite(len a <= t < len a + len b, nth(b, t - len a), nth(a ++ b, t)))
    and nth(unit(x), 0) == x.  Out-of-range positions keep the original (unspecified) term."""
    if memo is None:
        memo = {}
    k = e.get_id()
    if k in memo:
        return memo[k][1]
    r = _rewrite(e, memo, k)
    memo[k] = (e, r)   # keep e alive: z3 reuses ids of freed terms
    return r


def _rewrite(e, memo, k):
    if z3.is_quantifier(e):
        body = rewrite(e.body(), memo)
        if body.eq(e.body()):
            r = e
        else:
            names = [e.var_name(i) for i in range(e.num_vars())]
            sorts = [e.var_sort(i) for i in range(e.num_vars())]
            consts = [z3.Const("%s!rw%d" % (n, k), so) for n, so in zip(names, sorts)]
            inst = z3.substitute_vars(body, *reversed(consts))
            pats = []
            for pi in range(e.num_patterns()):
                pt = e.pattern(pi)
                pats.append(z3.MultiPattern(*[z3.substitute_vars(c, *reversed(consts)) for c in pt.children()]) if pt.num_args() > 1
                            else z3.substitute_vars(pt.arg(0), *reversed(consts)))
            if e.is_forall():
                r = z3.ForAll(consts, inst, patterns=pats) if pats else z3.ForAll(consts, inst)
            else:
                r = z3.Exists(consts, inst)
        return r
    if not z3.is_app(e) or e.num_args() == 0:
        return e
    ch = [rewrite(c, memo) for c in e.children()]
    kind = e.decl().kind()
    r = None
    r = light(e, kind, ch, memo)
    if r is not None:
        return r
    if kind == z3.Z3_OP_SEQ_NTH or e.decl().name() in ("seq.nth_i",):
        s_, t = ch
        if z3.is_app(s_) and s_.decl().kind() == z3.Z3_OP_SEQ_CONCAT and not z3.is_string(s_):
            parts = s_.children()
            a = parts[0] if len(parts) == 2 else z3.Concat(*parts[:-1])
            b = parts[-1]
            la, lb = z3.Length(a), z3.Length(b)
            orig = e.decl()(s_, t)
            inner_a = rewrite(a[t], memo)
            inner_b = rewrite(b[t - la], memo)
            r = z3.If(z3.And(0 <= t, t < la), inner_a, z3.If(z3.And(la <= t, t < la + lb), inner_b, orig))
        elif z3.is_app(s_) and s_.decl().kind() == z3.Z3_OP_SEQ_UNIT:
            orig = e.decl()(s_, t)
            r = z3.If(t == 0, s_.children()[0], orig)
        elif z3.is_app(s_) and s_.decl().kind() == z3.Z3_OP_SEQ_EXTRACT and not z3.is_string(s_):
            # nth(extract(b, lo, ln), t) == nth(b, lo + t) for 0 <= lo, 0 <= t < ln, lo + t < len b   (R3)
            b, lo, ln = s_.children()
            orig = e.decl()(s_, t)
            r = z3.If(z3.And(0 <= lo, 0 <= t, t < ln, lo + t < z3.Length(b)), rewrite(b[lo + t], memo), orig)
    elif kind == z3.Z3_OP_SEQ_LENGTH:
        s_ = ch[0]
        if z3.is_app(s_) and s_.decl().kind() == z3.Z3_OP_SEQ_EXTRACT:
            b, lo, ln = s_.children()
            lb = rewrite(z3.Length(b), memo)
            r = z3.If(z3.Or(lo < 0, lo > lb, ln < 0), 0, z3.If(ln <= lb - lo, ln, lb - lo))
    if r is None:
        r = e.decl()(*ch) if any(not a.eq(b) for a, b in zip(ch, e.children())) else e
    return r


def _is(e, kind):
    return z3.is_app(e) and e.decl().kind() == kind


def light(e, kind, ch, memo):
    """Light local simplifications (all equivalences)."""
    name = e.decl().name()
    if kind == z3.Z3_OP_DT_ACCESSOR and _is(ch[0], z3.Z3_OP_DT_CONSTRUCTOR):
        con = ch[0].decl()
        dt = ch[0].sort()
        for ci in range(dt.num_constructors()):
            if dt.constructor(ci).eq(con):
                for ai in range(con.arity()):
                    if dt.accessor(ci, ai).eq(e.decl()):
                        return ch[0].children()[ai]
    if kind == z3.Z3_OP_DT_IS and _is(ch[0], z3.Z3_OP_DT_CONSTRUCTOR):
        dt = ch[0].sort()
        for ci in range(dt.num_constructors()):
            if dt.recognizer(ci).eq(e.decl()):
                return z3.BoolVal(dt.constructor(ci).eq(ch[0].decl()))
    if kind == z3.Z3_OP_SELECT and _is(ch[0], z3.Z3_OP_STORE) and ch[0].children()[1].eq(ch[1]):
        return ch[0].children()[2]
    if kind == z3.Z3_OP_SEQ_LENGTH:
        s_ = ch[0]
        if _is(s_, z3.Z3_OP_SEQ_CONCAT):
            return z3.Sum([rewrite(z3.Length(p), memo) for p in s_.children()])
        if _is(s_, z3.Z3_OP_SEQ_UNIT):
            return z3.IntVal(1)
        if _is(s_, z3.Z3_OP_SEQ_EMPTY):
            return z3.IntVal(0)
    if kind == z3.Z3_OP_EQ and _is(ch[0], z3.Z3_OP_SEQ_UNIT) and _is(ch[1], z3.Z3_OP_SEQ_UNIT):
        return ch[0].children()[0] == ch[1].children()[0]
    if kind == z3.Z3_OP_SEQ_CONTAINS and _is(ch[1], z3.Z3_OP_SEQ_UNIT) and not z3.is_string(ch[0]):
        # a one-element needle cannot straddle two parts: contains(a ++ b, [y]) == contains(a, [y]) or contains(b, [y])
        if _is(ch[0], z3.Z3_OP_SEQ_CONCAT):
            return z3.Or([rewrite(z3.Contains(p, ch[1]), memo) for p in ch[0].children()])
        if _is(ch[0], z3.Z3_OP_SEQ_UNIT):
            return ch[0].children()[0] == ch[1].children()[0]
        if _is(ch[0], z3.Z3_OP_SEQ_EMPTY):
            return z3.BoolVal(False)
    return None


_MEMO = {}


def norm(f):
    # one memo per process run of prepare(): instances share most of their subterms
    return rewrite(f, _MEMO)


def to_smt2(hyps, neg_goal):
    s = z3.Solver()
    for h in hyps:
        s.add(h)
    s.add(neg_goal)
    text = s.to_smt2()
    # z3's printer may emit a datatype before an uninterpreted sort it mentions under Seq/Array: sorts first
    lines = text.split("\n")
    sorts = [l for l in lines if l.startswith("(declare-sort ")]
    if sorts:
        rest = [l for l in lines if not l.startswith("(declare-sort ")]
        k = next((i for i, l in enumerate(rest) if l.startswith("(declare-") or l.startswith("(assert")), len(rest))
        text = "\n".join(rest[:k] + sorts + rest[k:])
    return text


def open_hyps(hyps, n=[0]):
    """Logical clean-up of the hypothesis list (all steps are equivalences or sound weakenings of nothing):
    unit propagation of literal facts through implications / iff with a quantified side, skolemisation of top-level existential hypotheses."""
    for _ in range(3):
        lits = {}
        for h in hyps:
            if z3.is_const(h) and h.sort() == z3.BoolSort() and h.decl().kind() == z3.Z3_OP_UNINTERPRETED:
                lits[h.get_id()] = (h, True)
            elif z3.is_not(h) and z3.is_const(h.arg(0)) and h.arg(0).decl().kind() == z3.Z3_OP_UNINTERPRETED:
                lits[h.arg(0).get_id()] = (h.arg(0), False)
        out = []
        changed = False
        for h in hyps:
            r = h
            if z3.is_implies(h):
                a, b = h.children()
                neg = z3.is_not(a)
                atom = a.arg(0) if neg else a
                if z3.is_const(atom) and atom.get_id() in lits:
                    val = lits[atom.get_id()][1] != neg
                    r = b if val else z3.BoolVal(True)
            elif z3.is_eq(h) and h.arg(0).sort() == z3.BoolSort():
                a, b = h.children()
                for x, y in ((a, b), (b, a)):
                    if z3.is_const(x) and x.get_id() in lits and _has_quant(y):
                        r = y if lits[x.get_id()][1] else z3.Not(y)
                        break
            if r is not h:
                changed = True
            if z3.is_quantifier(r) and not r.is_forall():
                n[0] += 1
                consts = [z3.Const("%s!ex%d" % (r.var_name(i), n[0]), r.var_sort(i)) for i in range(r.num_vars())]
                r = z3.substitute_vars(r.body(), *reversed(consts))
                changed = True
            elif z3.is_not(r) and z3.is_quantifier(r.arg(0)):
                u = _neg_exists_as_forall(r) if not r.arg(0).is_forall() else None
                if u is not None:
                    r = u
                    changed = True
            if not z3.is_true(r):
                out.append(r)
        hyps = flatten_and(out)
        if not changed:
            break
    return hyps


def prepare(ob):
    """-> list of sub-problems: dict(full=smt2, ground=smt2)"""
    _MEMO.clear()
    subs = []
    hyps0 = [h for h in flatten_and([norm(h) for h in flatten_and(ob.hyps)]) if not z3.is_true(h)]
    hyps0 = open_hyps(hyps0)
    if ob.expect == "sat":
        q = [h for h in hyps0 if not _has_quant(h)]
        return [{"full": to_smt2(hyps0, z3.BoolVal(True)), "ground": to_smt2(q, z3.BoolVal(True))}]
    for extra, g in skolemize_goal(ob.goal):
        hyps = hyps0 + flatten_and([norm(x) for x in flatten_and(extra)])
        ng = norm(z3.Not(g))
        ground = [h for h in hyps if not _has_quant(h)] + [ng]
        quant = [h for h in hyps if _has_quant(h)]
        if _has_quant(ng):
            # an existential goal: its negation is a universal fact, instantiated like the other quantified hypotheses
            u = _neg_exists_as_forall(ng)
            if u is not None:
                quant = quant + [u]
        insts = instantiate(quant, ground)
        em = ematch(quant, ground + insts)
        em += ematch(quant, ground + insts + em)      # second round: instances expose new terms
        ids = {i.get_id() for i in insts}
        insts += [e_ for e_ in em if e_.get_id() not in ids]
        subs.append({"full": to_smt2(hyps + insts, ng), "ground": to_smt2([h for h in hyps if not _has_quant(h)] + insts, ng)})
    return subs


def _neg_exists_as_forall(ng):
    """Not(Exists x. P)  ->  ForAll x. Not P   (the shape a negated existential goal has)"""
    if z3.is_not(ng) and z3.is_quantifier(ng.arg(0)) and not ng.arg(0).is_forall():
        q = ng.arg(0)
        consts = [z3.Const("%s!ne%d" % (q.var_name(i), q.get_id()), q.var_sort(i)) for i in range(q.num_vars())]
        body = z3.substitute_vars(q.body(), *reversed(consts))
        return z3.ForAll(consts, z3.Not(body))
    return None


def _has_quant(e, _c={}):
    k = e.get_id()
    if k in _c and _c[k][0].eq(e):
        return _c[k][1]
    r = z3.is_quantifier(e) or any(_has_quant(c) for c in e.children())
    _c[k] = (e, r)
    return r


def _z3_api(smt2, timeout_ms, want_model=False):
    ctx = z3.Context()
    s = z3.Solver(ctx=ctx)
    s.set("timeout", timeout_ms)
    s.from_string(smt2)
    t = time.time()
    r = str(s.check())
    model = None
    if r == "sat" and want_model:
        m = s.model()
        model = {d.name(): str(m[d]) for d in m.decls() if d.arity() == 0}
    return r, time.time() - t, model


def _cli(cmd, smt2, timeout_s):
    with tempfile.NamedTemporaryFile("w", suffix=".smt2", delete=False, dir=os.environ.get("PYVC_TMP", None)) as f:
        f.write("(set-logic ALL)\n" + smt2)
        path = f.name
    t = time.time()
    try:
        out = subprocess.run(cmd + [path], capture_output=True, text=True, timeout=timeout_s + 5).stdout.strip().splitlines()
        ans = out[0].strip() if out else "unknown"
    except subprocess.TimeoutExpired:
        ans = "timeout"
    finally:
        os.unlink(path)
    if ans not in ("sat", "unsat"):
        ans = "unknown"
    return ans, time.time() - t


def solve_sub(sub, expect="unsat", thorough=False):
    """-> dict(status, backend, time, model, log).  Staged portfolio; `unsat` from any stage discharges (every stage uses only
    hypotheses of the obligation or valid instances of them), `sat` counts as a refutation only from a stage that had all hypotheses."""
    log = []
    total = [0.0]

    def done(status, backend, model=None, **kw):
        return dict({"status": status, "backend": backend, "time": total[0], "model": model, "log": log}, **kw)

    def z3api(which, label, tmo, want_model=False):
        r, dt, m = _z3_api(sub[which], tmo, want_model=want_model)
        total[0] += dt
        log.append((label, r, round(dt, 3)))
        return r, m

    def cli(which, label, cmd):
        ans, dt = _cli(cmd, sub[which], T_EXT)
        total[0] += dt
        log.append((label, ans, round(dt, 3)))
        return ans

    CVC5 = ["/usr/bin/cvc5", "--strings-exp", "--tlimit=%d" % (T_EXT * 1000)]
    Z3OLD = ["/usr/bin/z3", "-T:%d" % T_EXT]
    if expect == "sat":      # vacuity guard
        r, _ = z3api("full", "z3-5.1", 2000)
        if r == "unknown":
            r2, _ = z3api("ground", "z3-5.1/ground", T_Z3)
            r = r2 if r2 == "sat" else r
        return done(r, log[-1][0])
    has_ground = sub["ground"] != sub["full"]
    ground_model = None
    ground_sat = False
    if has_ground:
        r0, m0 = z3api("ground", "z3-5.1/ground-instances", 6000, want_model=True)
        if r0 == "unsat":
            return done("unsat", "z3-5.1/ground-instances")
        if r0 == "sat":
            ground_sat, ground_model = True, m0
        else:
            a = cli("ground", "cvc5-1.0.3/ground-instances", CVC5)
            if a == "unsat":
                return done("unsat", "cvc5-1.0.3/ground-instances")
            ground_sat = a == "sat"
    r, model = z3api("full", "z3-5.1", T_Z3, want_model=True)
    if r == "unsat":
        return done("unsat", "z3-5.1")
    if r == "sat":
        return done("sat", "z3-5.1", model)
    a = cli("full", "cvc5-1.0.3", CVC5)
    if a in ("unsat", "sat"):
        return done(a, "cvc5-1.0.3", ground_model if a == "sat" else None)
    if has_ground and not ground_sat:
        if ground_model is None:
            r2, m2 = z3api("ground", "z3-5.1/ground-instances", T_Z3, want_model=True)
            if r2 == "unsat":
                return done("unsat", "z3-5.1/ground-instances")
            if r2 == "sat":
                ground_sat, ground_model = True, m2
        if not ground_sat:
            a = cli("ground", "z3-4.8.12/ground-instances", Z3OLD)
            if a == "unsat":
                return done("unsat", "z3-4.8.12/ground-instances")
    a = cli("full", "z3-4.8.12", Z3OLD)
    if a in ("unsat", "sat"):
        return done(a, "z3-4.8.12", ground_model if a == "sat" else None)
    if ground_sat and ground_model is None:
        r2, m2 = z3api("ground", "z3-5.1/ground-instances", T_Z3, want_model=True)
        ground_model = m2 if r2 == "sat" else None
    # candidate counter-model from the ground problem (quantified hypotheses dropped): not a refutation by itself
    return done("unknown", "-", ground_model, candidate=ground_model is not None)


_OBS = []


def _work(idx):
    # runs in a forked worker: the obligation (z3 terms) is inherited through the fork, preparation happens here in parallel
    ob = _OBS[idx]
    expect = ob.expect
    try:
        subs = prepare(ob)
    except Exception as e:
        return idx, [{"status": "error", "backend": "-", "time": 0.0, "model": None, "log": [("prepare-error", repr(e), 0)]}]
    results = []
    for sub in subs:
        try:
            results.append(solve_sub(sub, expect))
        except Exception as e:  # solver crash: undecided, never a violation
            results.append({"status": "error", "backend": "-", "time": 0.0, "model": None, "log": [("error", repr(e), 0)]})
    return idx, results


def discharge(obligations, procs=None):
    """Fills ob.result for every obligation."""
    global _OBS
    _OBS = list(obligations)
    jobs = list(range(len(_OBS)))
    procs = procs or int(os.environ.get("PYVC_PROCS", "12"))
    if procs <= 1 or len(jobs) <= 1:
        res = [_work(j) for j in jobs]
    else:
        with mp.get_context("fork").Pool(procs) as pool:
            res = pool.map(_work, jobs, chunksize=1)
    for idx, results in res:
        ob = obligations[idx]
        statuses = [r["status"] for r in results]
        t = sum(r["time"] for r in results)
        if ob.expect == "sat":
            status = "ok" if all(s == "sat" for s in statuses) else ("vacuous" if any(s == "unsat" for s in statuses) else "unknown")
        elif all(s == "unsat" for s in statuses):
            status = "discharged"
        elif any(s == "sat" for s in statuses):
            status = "refuted"
        else:
            status = "unknown"
        model = next((r["model"] for r in results if r["status"] == "sat" and r["model"]), None) or \
            next((r["model"] for r in results if r.get("model")), None)
        ob.result = {"status": status, "time": round(t, 4), "parts": len(results),
                     "backends": sorted({r["backend"] for r in results}), "model": model,
                     "log": [r["log"] for r in results]}
    return obligations

"""Discharging obligations: preprocessing (skolemisation, ground instantiation) and the solver portfolio.

Portfolio per obligation: z3 5.1 (API, in a worker process) -> on unknown: the same problem with the
quantified hypotheses dropped (only their ground instances kept; sound: fewer hypotheses) ->
/usr/bin/cvc5 --strings-exp -> /usr/bin/z3 4.8.12.  `unsat` = discharged, `sat` = refuted (model kept),
anything else = unknown (never reported as a violation).
"""
import os
import sys
sys.setrecursionlimit(max(sys.getrecursionlimit(), 20000))
import subprocess
import tempfile
import time
import multiprocessing as mp
import z3

T_Z3 = int(os.environ.get("PYVC_T_Z3_MS", "8000"))
T_EXT = int(os.environ.get("PYVC_T_EXT_S", "20"))
SCALE = [1.0]       # second-chance pass of the checker: every stage budget multiplied


def flatten_and(fs):
    out = []
    todo = list(fs)
    while todo:
        f = todo.pop(0)
        if z3.is_and(f):
            todo = list(f.children()) + todo
        else:
            out.append(f)
    return out


def skolemize_goal(goal, n=[0]):
    """goal -> list of (extra_hyps, goal') with top-level conjunctions split and foralls/implications opened."""
    res = []
    todo = [([], goal)]
    while todo:
        hyps, g = todo.pop(0)
        if z3.is_and(g):
            for c in g.children():
                todo.append((hyps, c))
        elif z3.is_quantifier(g) and g.is_forall():
            n[0] += 1
            consts = [z3.Const("%s!sk%d" % (g.var_name(i), n[0]), g.var_sort(i)) for i in range(g.num_vars())]
            body = z3.substitute_vars(g.body(), *reversed(consts))
            todo.append((hyps, body))
        elif z3.is_implies(g):
            a, b = g.children()
            todo.append((hyps + [a], b))
        else:
            res.append((hyps, g))
    return res


def index_terms(fs, limit=14, first=None):
    """Int-sorted terms used as sequence indices / array keys / function arguments in ground formulas.
    `first`: formulas (the negated goal) whose index terms are kept ahead of the length-sorted rest."""
    if first is not None:
        head = index_terms(first, limit=limit)
        ids = {t.get_id() for t in head}
        rest = [t for t in index_terms(fs, limit=limit + len(head)) if t.get_id() not in ids]
        return (head + rest)[:max(limit, len(head))]
    seen = {}
    visited = set()

    def visit(e, bound):
        if z3.is_quantifier(e):
            return
        key = e.get_id()
        if key in visited:
            return
        visited.add(key)
        if z3.is_app(e):
            k = e.decl().kind()
            name = e.decl().name()
            if k in (z3.Z3_OP_SEQ_NTH, z3.Z3_OP_SEQ_AT, z3.Z3_OP_SELECT, z3.Z3_OP_SEQ_EXTRACT, z3.Z3_OP_UNINTERPRETED) or name in ("seq.nth_i", "seq.nth_u"):
                for ch in e.children()[(1 if k != z3.Z3_OP_UNINTERPRETED else 0):]:
                    if z3.is_int(ch) and not z3.is_int_value(ch):
                        seen.setdefault(ch.get_id(), ch)
                    elif z3.is_int_value(ch):
                        seen.setdefault(ch.get_id(), ch)
            if k == z3.Z3_OP_UNINTERPRETED and e.num_args() == 0 and z3.is_int(e):
                seen.setdefault(e.get_id(), e)
            for ch in e.children():
                visit(ch, bound)

    for f in fs:
        visit(f, ())
    terms = list(seen.values())
    terms.sort(key=lambda t: len(str(t)))
    return terms[:limit]


def sorted_terms(fs, limit=6):
    """Ground terms of the non-Int, non-Bool sorts (arguments of uninterpreted functions, constants), grouped by sort."""
    out = {}
    visited = set()

    def add(t):
        so = t.sort()
        if so.kind() in (z3.Z3_BOOL_SORT, z3.Z3_INT_SORT):
            return
        d = out.setdefault(so.name() + str(so), {})
        d.setdefault(t.get_id(), t)

    def visit(e):
        if z3.is_quantifier(e):
            return
        k = e.get_id()
        if k in visited:
            return
        visited.add(k)
        if z3.is_app(e):
            if e.decl().kind() == z3.Z3_OP_UNINTERPRETED:
                if e.num_args() == 0:
                    add(e)
                for ch in e.children():
                    add(ch)
            elif e.decl().kind() in (z3.Z3_OP_SELECT, z3.Z3_OP_SEQ_LENGTH, z3.Z3_OP_SEQ_NTH, z3.Z3_OP_EQ):
                for ch in e.children():
                    add(ch)
            for ch in e.children():
                visit(ch)
    for f in fs:
        visit(f)
    res = {}
    for key, d in out.items():
        ts = sorted(d.values(), key=lambda t: len(str(t)))
        res[key] = ts[:limit]
    return res


def _match(pat, term, b):
    """Syntactic matching of a pattern (bound variables = z3 Var) against a ground term."""
    if z3.is_var(pat):
        idx = z3.get_var_index(pat)
        if idx in b:
            return b[idx].eq(term)
        if pat.sort() != term.sort():
            return False
        b[idx] = term
        return True
    if not z3.is_app(pat) or not z3.is_app(term):
        return False
    if not pat.decl().eq(term.decl()) or pat.num_args() != term.num_args():
        return False
    for pc, tc in zip(pat.children(), term.children()):
        if not _match(pc, tc, b):
            return False
    return True


def ematch(hyps, ground, limit=200):
    """Instances of pattern-annotated quantified hypotheses obtained by matching a pattern against the ground subterms (E-matching without congruence)."""
    buckets = {}
    seen = set()

    def visit(e):
        if z3.is_quantifier(e) or e.get_id() in seen:
            return
        seen.add(e.get_id())
        if z3.is_app(e):
            if e.num_args() > 0:
                buckets.setdefault(e.decl().name(), []).append(e)
            for c in e.children():
                visit(c)
    for g in ground:
        visit(g)
    insts = []
    for h in hyps:
        if not (z3.is_quantifier(h) and h.is_forall()) or h.num_patterns() == 0:
            continue
        nv = h.num_vars()
        for pi in range(h.num_patterns()):
            pt = h.pattern(pi)
            pats = [pt.arg(k) for k in range(pt.num_args())]
            if not all(z3.is_app(p_) for p_ in pats):
                continue
            # (multi-)pattern: join the matches of each sub-pattern on shared variables
            partial = [{}]
            for p_ in pats:
                nxt = []
                for b in partial:
                    for t in buckets.get(p_.decl().name(), [])[:limit]:
                        b2 = dict(b)
                        if _match(p_, t, b2):
                            nxt.append(b2)
                            if len(nxt) > 3000:
                                break
                    if len(nxt) > 3000:
                        break
                partial = nxt
            done_keys = set()
            for b in partial:
                if len(b) != nv:
                    continue
                key = tuple(b[i].get_id() for i in range(nv))
                if key in done_keys:
                    continue
                done_keys.add(key)
                m = [b[i] for i in range(nv)]
                insts.append(norm(z3.substitute_vars(h.body(), *m)))
    return [i for i in insts if not z3.is_true(i)]


def skolemize_pos(f, new_consts, n=[0]):
    """Replace existential quantifiers in positive positions (not under another quantifier) by fresh constants: f is satisfiable iff the result is,
    and the result implies f -- used on ground instances of hypotheses, whose witnesses then serve as instantiation terms."""
    def go(e, pos):
        if z3.is_quantifier(e):
            if (not e.is_forall()) == pos and not e.is_lambda():
                n[0] += 1
                consts = [z3.Const("%s!sk%d" % (e.var_name(i), n[0]), e.var_sort(i)) for i in range(e.num_vars())]
                new_consts.extend(consts)
                body = z3.substitute_vars(e.body(), *reversed(consts))
                body = go(body, pos)
                return body
            return e
        if not z3.is_app(e) or not _has_quant(e):
            return e
        k = e.decl().kind()
        ch = e.children()
        if k in (z3.Z3_OP_AND, z3.Z3_OP_OR):
            return e.decl()(*[go(c, pos) for c in ch])
        if k == z3.Z3_OP_NOT:
            return z3.Not(go(ch[0], not pos))
        if k == z3.Z3_OP_IMPLIES:
            return z3.Implies(go(ch[0], not pos), go(ch[1], pos))
        return e
    return go(f, True)


def weaken_foralls(f, int_terms, other_terms):
    """A universal quantifier in a positive position inside an (otherwise ground) instance is replaced by the conjunction of its instances at the
    given terms: a consequence of the original, so adding it is sound; it keeps `A or forall x. P(x)` usable by the ground stages."""
    import itertools

    def go(e, pos):
        if z3.is_quantifier(e):
            if e.is_forall() == pos and not e.is_lambda():
                cands = []
                for i in range(e.num_vars()):
                    so = e.var_sort(i)
                    cands.append(int_terms[:8] if so == z3.IntSort() else other_terms.get(so.name() + str(so), [])[:6])
                if any(not c for c in cands) or e.num_vars() > 3:
                    return e
                body = e.body() if e.is_forall() else e.body()
                outs = []
                for cmb in itertools.islice(itertools.product(*cands), 80):
                    inst = norm(z3.substitute_vars(body, *reversed(cmb)))
                    outs.append(go(inst, pos))
                if not outs:
                    return e
                return z3.And(*outs) if pos else z3.Or(*outs)
            return e
        if not z3.is_app(e) or not _has_quant(e):
            return e
        k = e.decl().kind()
        ch = e.children()
        if k in (z3.Z3_OP_AND, z3.Z3_OP_OR):
            return e.decl()(*[go(c, pos) for c in ch])
        if k == z3.Z3_OP_NOT:
            return z3.Not(go(ch[0], not pos))
        if k == z3.Z3_OP_IMPLIES:
            return z3.Implies(go(ch[0], not pos), go(ch[1], pos))
        return e
    return go(f, True)


def _mentions(e, ids, _c=None):
    if _c is None:
        _c = {}
    k = e.get_id()
    if k in _c:
        return _c[k]
    r = (z3.is_const(e) and k in ids) or (z3.is_app(e) and any(_mentions(c, ids, _c) for c in e.children())) or \
        (z3.is_quantifier(e) and _mentions(e.body(), ids, _c))
    _c[k] = r
    return r


def _extract_offsets(fs):
    """the (non-literal) start offsets of slices in the ground part"""
    out, seen = [], set()

    def visit(e):
        if e.get_id() in seen or z3.is_quantifier(e):
            return
        seen.add(e.get_id())
        if z3.is_app(e):
            if e.decl().kind() == z3.Z3_OP_SEQ_EXTRACT and not z3.is_string(e):
                lo = e.arg(1)
                if not z3.is_int_value(lo) and all(not lo.eq(x) for x in out):
                    out.append(lo)
            for c in e.children():
                visit(c)
    for f in fs:
        visit(f)
    return out


def _seq_consts(fs):
    out, seen = [], set()

    def visit(e):
        if e.get_id() in seen or z3.is_quantifier(e):
            return
        seen.add(e.get_id())
        if z3.is_const(e) and e.sort().kind() == z3.Z3_SEQ_SORT and not z3.is_string(e) and e.decl().kind() == z3.Z3_OP_UNINTERPRETED:
            out.append(e)
        if z3.is_app(e):
            for c in e.children():
                visit(c)
    for f in fs:
        visit(f)
    return out


def instantiate(hyps, ground, max_inst=400, must_mention=None, goal=None, term_ids=False, extra_terms=None):
    """Ground instances of quantified hypotheses: Int variables at the index terms of the ground part,
    variables of other sorts at the ground terms of that sort (all instances of valid hypotheses are valid).
    must_mention: only instances at a term that mentions one of these constants (second round over fresh witnesses)."""
    insts = []
    terms = index_terms(ground, first=goal)
    extra = [z3.IntVal(0)]
    tl = terms + [t for t in extra if all(not t.eq(x) for x in terms)]
    wit_terms = None
    if must_mention is not None:
        # second round: every index term built from a fresh witness is a candidate (the length-sorted cut-off above would drop most of them)
        mc0 = {}
        if term_ids:      # must_mention holds the ids of the terms themselves
            wit_terms = (list(extra_terms) if extra_terms is not None else [t for t in index_terms(ground, limit=400) if t.get_id() in must_mention])[:60]
        else:
            wit_terms = [t for t in index_terms(ground, limit=400) if _mentions(t, must_mention, mc0)][:60]
        # a witness position shifts by one when an element in front of it is removed, and by the offset of a slice it was found in
        wcs = [t for t in wit_terms if z3.is_const(t)]
        wit_terms += [t - 1 for t in wcs][:30]
        for lo in _extract_offsets(ground)[:3]:
            wit_terms += [t + lo for t in wcs][:20]
    others = None
    for h in hyps:
        if not (z3.is_quantifier(h) and h.is_forall()):
            continue
        nv = h.num_vars()
        sorts = [h.var_sort(i) for i in range(nv)]
        if all(so == z3.IntSort() for so in sorts):
            if nv == 1:
                combos = [(t,) for t in (tl if wit_terms is None else wit_terms)]
            elif nv == 2:
                sub = tl[:12]
                if wit_terms is None:
                    combos = [(a, b) for a in sub for b in sub]
                else:
                    w = wit_terms[:18]
                    combos = [(a, b) for a in sub for b in w] + [(a, b) for a in w for b in sub + w]
            else:
                continue
        else:
            if nv > 4:
                continue
            if others is None:
                others = sorted_terms(ground)
            cands = []
            for so in sorts:
                if so == z3.IntSort():
                    cands.append(tl[:6])
                else:
                    cands.append(others.get(so.name() + str(so), []))
            if any(not c for c in cands):
                continue
            import itertools
            combos = list(itertools.islice(itertools.product(*cands), 300))
        if must_mention is not None and not term_ids:
            mc = {}
            combos = [cmb for cmb in combos if any(_mentions(t, must_mention, mc) for t in cmb)]
        elif must_mention is not None:
            combos = [cmb for cmb in combos if any(t.get_id() in must_mention for t in cmb)]
        for cmb in combos[:max_inst]:
            insts.append(norm(z3.substitute_vars(h.body(), *reversed(cmb))))
    return [i for i in insts if not z3.is_true(i)]


def rewrite(e, memo=None):
    """Equivalence-preserving rewriting (rule R2): nth over a concatenation is split by position.
    nth(a ++ b, t) == ite(0 <= t < len a, nth(a,t), ite(len a <= t < len a + len b, nth(b, t - len a), nth(a ++ b, t)))
    and nth(unit(x), 0) == x.  Out-of-range positions keep the original (unspecified) term."""
    if memo is None:
        memo = {}
    k = e.get_id()
    if k in memo:
        return memo[k][1]
    r = _rewrite(e, memo, k)
    memo[k] = (e, r)   # keep e alive: z3 reuses ids of freed terms
    return r


def _rewrite(e, memo, k):
    if z3.is_quantifier(e):
        body = rewrite(e.body(), memo)
        if body.eq(e.body()):
            r = e
        else:
            names = [e.var_name(i) for i in range(e.num_vars())]
            sorts = [e.var_sort(i) for i in range(e.num_vars())]
            consts = [z3.Const("%s!rw%d" % (n, k), so) for n, so in zip(names, sorts)]
            inst = z3.substitute_vars(body, *reversed(consts))
            pats = []
            for pi in range(e.num_patterns()):
                pt = e.pattern(pi)
                pats.append(z3.MultiPattern(*[z3.substitute_vars(c, *reversed(consts)) for c in pt.children()]) if pt.num_args() > 1
                            else z3.substitute_vars(pt.arg(0), *reversed(consts)))
            if e.is_forall():
                r = z3.ForAll(consts, inst, patterns=pats) if pats else z3.ForAll(consts, inst)
            else:
                r = z3.Exists(consts, inst)
        return r
    if not z3.is_app(e) or e.num_args() == 0:
        return e
    ch = [rewrite(c, memo) for c in e.children()]
    kind = e.decl().kind()
    r = None
    r = light(e, kind, ch, memo)
    if r is not None:
        return r
    if kind == z3.Z3_OP_SEQ_NTH or e.decl().name() in ("seq.nth_i",):
        s_, t = ch
        if z3.is_app(s_) and s_.decl().kind() == z3.Z3_OP_SEQ_CONCAT and not z3.is_string(s_):
            parts = s_.children()
            a = parts[0] if len(parts) == 2 else z3.Concat(*parts[:-1])
            b = parts[-1]
            la, lb = z3.Length(a), z3.Length(b)
            orig = e.decl()(s_, t)
            inner_a = rewrite(a[t], memo)
            inner_b = rewrite(b[t - la], memo)
            r = z3.If(z3.And(0 <= t, t < la), inner_a, z3.If(z3.And(la <= t, t < la + lb), inner_b, orig))
        elif z3.is_app(s_) and s_.decl().kind() == z3.Z3_OP_SEQ_UNIT:
            orig = e.decl()(s_, t)
            r = z3.If(t == 0, s_.children()[0], orig)
        elif z3.is_app(s_) and s_.decl().kind() == z3.Z3_OP_SEQ_EXTRACT and not z3.is_string(s_):
            # nth(extract(b, lo, ln), t) == nth(b, lo + t) for 0 <= lo, 0 <= t < ln, lo + t < len b   (R3)
            b, lo, ln = s_.children()
            orig = e.decl()(s_, t)
            r = z3.If(z3.And(0 <= lo, 0 <= t, t < ln, lo + t < z3.Length(b)), rewrite(b[lo + t], memo), orig)
    elif kind == z3.Z3_OP_SEQ_LENGTH:
        s_ = ch[0]
        if z3.is_app(s_) and s_.decl().kind() == z3.Z3_OP_SEQ_EXTRACT:
            b, lo, ln = s_.children()
            lb = rewrite(z3.Length(b), memo)
            r = z3.If(z3.Or(lo < 0, lo > lb, ln < 0), 0, z3.If(ln <= lb - lo, ln, lb - lo))
    if r is None:
        r = e.decl()(*ch) if any(not a.eq(b) for a, b in zip(ch, e.children())) else e
    return r


def _is(e, kind):
    return z3.is_app(e) and e.decl().kind() == kind


def light(e, kind, ch, memo):
    """Light local simplifications (all equivalences)."""
    name = e.decl().name()
    if kind == z3.Z3_OP_DT_ACCESSOR and _is(ch[0], z3.Z3_OP_DT_CONSTRUCTOR):
        con = ch[0].decl()
        dt = ch[0].sort()
        for ci in range(dt.num_constructors()):
            if dt.constructor(ci).eq(con):
                for ai in range(con.arity()):
                    if dt.accessor(ci, ai).eq(e.decl()):
                        return ch[0].children()[ai]
    if kind == z3.Z3_OP_DT_IS and _is(ch[0], z3.Z3_OP_DT_CONSTRUCTOR):
        dt = ch[0].sort()
        for ci in range(dt.num_constructors()):
            if dt.recognizer(ci).eq(e.decl()):
                return z3.BoolVal(dt.constructor(ci).eq(ch[0].decl()))
    if kind == z3.Z3_OP_SELECT and _is(ch[0], z3.Z3_OP_STORE) and ch[0].children()[1].eq(ch[1]):
        return ch[0].children()[2]
    if kind == z3.Z3_OP_SEQ_LENGTH:
        s_ = ch[0]
        if _is(s_, z3.Z3_OP_SEQ_CONCAT):
            return z3.Sum([rewrite(z3.Length(p), memo) for p in s_.children()])
        if _is(s_, z3.Z3_OP_SEQ_UNIT):
            return z3.IntVal(1)
        if _is(s_, z3.Z3_OP_SEQ_EMPTY):
            return z3.IntVal(0)
    if kind == z3.Z3_OP_EQ and _is(ch[0], z3.Z3_OP_SEQ_UNIT) and _is(ch[1], z3.Z3_OP_SEQ_UNIT):
        return ch[0].children()[0] == ch[1].children()[0]
    if kind == z3.Z3_OP_SEQ_CONTAINS and _is(ch[1], z3.Z3_OP_SEQ_UNIT) and not z3.is_string(ch[0]):
        # a one-element needle cannot straddle two parts: contains(a ++ b, [y]) == contains(a, [y]) or contains(b, [y])
        if _is(ch[0], z3.Z3_OP_SEQ_CONCAT):
            return z3.Or([rewrite(z3.Contains(p, ch[1]), memo) for p in ch[0].children()])
        if _is(ch[0], z3.Z3_OP_SEQ_UNIT):
            return ch[0].children()[0] == ch[1].children()[0]
        if _is(ch[0], z3.Z3_OP_SEQ_EMPTY):
            return z3.BoolVal(False)
    return None


_MEMO = {}


def norm(f):
    # one memo per process run of prepare(): instances share most of their subterms
    return rewrite(f, _MEMO)


class _NoAbstraction(Exception):
    pass


def seq_abstract(fs):
    """A weaker problem without the sequence theory (unsat there => unsat here).  Sort-directed translation: Seq(T) (strings excepted) becomes an
    uninterpreted sort U_T, constants / bound variables / uninterpreted functions / arrays over sequences move to the translated sorts,
    nth(s, i) -> nthU(s', i), len(s) -> lenU(s') with the axiom lenU >= 0, structured sequence terms that the positional rewriting left over
    (concat, unit, slice, empty) and every other consumer of a sequence (contains, indexof, ...) become one opaque constant per distinct
    ground term.  Structurally equal terms translate equally, so congruence is kept; everything else the sequence theory knows is dropped.
    Quantified formulas are translated too (E-matching over nthU/lenU then does the position chasing).  Returns None when the translation
    does not apply (a datatype with a sequence field, a structured sequence term under a binder)."""
    usort, memo, opaque, lens_done, lens = {}, {}, {}, set(), []
    nesting = [0]

    def is_seq_sort(so):
        return so.kind() == z3.Z3_SEQ_SORT and so != z3.StringSort()

    def T(so):
        if is_seq_sort(so):
            k = str(so)
            if k not in usort:
                usort[k] = z3.DeclareSort("SeqU%d" % len(usort))
            return usort[k]
        if so.kind() == z3.Z3_ARRAY_SORT:
            d, r = T(so.domain()), T(so.range())
            return z3.ArraySort(d, r)
        if so.kind() == z3.Z3_DATATYPE_SORT:
            for ci in range(so.num_constructors()):
                con = so.constructor(ci)
                for ai in range(con.arity()):
                    if _sort_has_seq(con.domain(ai)):
                        raise _NoAbstraction()
        return so

    def _sort_has_seq(so):
        if is_seq_sort(so):
            return True
        if so.kind() == z3.Z3_ARRAY_SORT:
            return _sort_has_seq(so.domain()) or _sort_has_seq(so.range())
        if so.kind() == z3.Z3_SEQ_SORT:
            return False
        return False

    def lenf(us):
        return z3.Function("lenU_%s" % us.name(), us, z3.IntSort())

    def go(e, bound):
        key = (e.get_id(), tuple(b.get_id() for b in bound))
        if key in memo:
            return memo[key][1]
        r = go_(e, bound)
        memo[key] = (e, r)
        return r

    def go_(e, bound):
        if z3.is_quantifier(e):
            n = e.num_vars()
            consts = [z3.Const("%s!ab%d_%d" % (e.var_name(i), e.get_id(), i), T(e.var_sort(i))) for i in range(n)]
            orig = [z3.Const("%s!ob%d_%d" % (e.var_name(i), e.get_id(), i), e.var_sort(i)) for i in range(n)]
            body = z3.substitute_vars(e.body(), *reversed(orig))
            sub_bound = list(bound) + orig
            self_map = {o.get_id(): c for o, c in zip(orig, consts)}
            saved = dict(binder_map)
            binder_map.update(self_map)
            try:
                tb = go(body, sub_bound)
            finally:
                binder_map.clear()
                binder_map.update(saved)
            extra = [lenf(c.sort())(c) >= 0 for c in consts if c.sort().kind() == z3.Z3_UNINTERPRETED_SORT and c.sort().name().startswith("SeqU")]
            if e.is_forall():
                return z3.ForAll(consts, z3.Implies(z3.And(*extra), tb) if extra else tb)
            return z3.Exists(consts, z3.And(*(extra + [tb])) if extra else tb)
        if not z3.is_app(e):
            raise _NoAbstraction()
        if e.get_id() in binder_map:
            return binder_map[e.get_id()]
        k = e.decl().kind()
        ch = e.children()
        so = e.sort()
        if k == z3.Z3_OP_UNINTERPRETED:
            args = [go(c, bound) for c in ch]
            if e.num_args() == 0:
                if _sort_has_seq(so):
                    c = z3.Const(e.decl().name() + "!u", T(so))
                    if is_seq_sort(so) and c.get_id() not in lens_done:
                        lens_done.add(c.get_id())
                        lens.append(lenf(c.sort())(c) >= 0)
                    return c
                return e
            if _sort_has_seq(so) or any(_sort_has_seq(c.sort()) for c in ch):
                f = z3.Function(e.decl().name() + "!u", *([a.sort() for a in args] + [T(so)]))
                return f(*args)
            return e.decl()(*args)
        if k == z3.Z3_OP_SEQ_LENGTH and is_seq_sort(ch[0].sort()):
            c = go(ch[0], bound)
            return lenf(c.sort())(c)
        if (k == z3.Z3_OP_SEQ_NTH or e.decl().name() in ("seq.nth_i", "seq.nth_u")) and is_seq_sort(ch[0].sort()):
            c = go(ch[0], bound)
            f = z3.Function("nthU_%s" % c.sort().name(), c.sort(), z3.IntSort(), T(so))
            return f(c, go(ch[1], bound))
        if k == z3.Z3_OP_ITE:
            return z3.If(go(ch[0], bound), go(ch[1], bound), go(ch[2], bound))
        if k in (z3.Z3_OP_EQ, z3.Z3_OP_DISTINCT):
            args = [go(c, bound) for c in ch]
            return args[0] == args[1] if k == z3.Z3_OP_EQ else z3.Distinct(*args)
        if k in (z3.Z3_OP_SELECT, z3.Z3_OP_STORE, z3.Z3_OP_CONST_ARRAY) and _sort_has_seq(so) | any(_sort_has_seq(c.sort()) for c in ch):
            args = [go(c, bound) for c in ch]
            if k == z3.Z3_OP_SELECT:
                return z3.Select(*args)
            if k == z3.Z3_OP_STORE:
                return z3.Store(*args)
            return z3.K(T(so).domain(), args[0])
        if is_seq_sort(so) or any(is_seq_sort(c.sort()) for c in ch):
            # a structured sequence term, or another consumer of a sequence: opaque per distinct ground term
            if any(_mentions(e, {b.get_id() for b in bound}) for _ in [0]) and bound:
                raise _NoAbstraction()
            okey = e.get_id()
            if okey not in opaque:
                c = z3.Const("op!%d" % len(opaque), T(so))
                opaque[okey] = (e, c)
                if is_seq_sort(so):
                    lens.append(lenf(c.sort())(c) >= 0)
                    if k in (z3.Z3_OP_SEQ_EXTRACT, z3.Z3_OP_SEQ_CONCAT, z3.Z3_OP_SEQ_UNIT, z3.Z3_OP_SEQ_EMPTY) and nesting[0] < 2:
                        nesting[0] += 1
                        # what the positional rewriting knows about this term, stated for the constant that stands for it
                        # (the rewriter's out-of-range fallback nth(e, i) translates to nthU(c, i) itself)
                        i = z3.Const("i!op%d" % len(opaque), z3.IntSort())
                        ln = go(norm(z3.Length(e)), bound)
                        lens.append(lenf(c.sort())(c) == ln)
                        elem = go(norm(e[i]), bound + [])
                        f = z3.Function("nthU_%s" % c.sort().name(), c.sort(), z3.IntSort(), elem.sort())
                        lens.append(z3.ForAll([i], z3.Implies(z3.And(0 <= i, i < lenf(c.sort())(c)), f(c, i) == elem)))
                        nesting[0] -= 1
            return opaque[okey][1]
        if e.num_args() == 0:
            return e
        args = [go(c, bound) for c in ch]
        if k == z3.Z3_OP_AND:
            return z3.And(*args)
        if k == z3.Z3_OP_OR:
            return z3.Or(*args)
        if all(a.eq(b) for a, b in zip(args, ch)):
            return e
        return e.decl()(*args)

    binder_map = {}
    try:
        out = [go(f, []) for f in fs]
    except (_NoAbstraction, z3.Z3Exception, RecursionError):
        return None
    if not usort:
        return None
    return out + lens


def _has_var(e, _c={}):
    k = e.get_id()
    if k in _c and _c[k][0].eq(e):
        return _c[k][1]
    r = z3.is_var(e) or (z3.is_app(e) and any(_has_var(c) for c in e.children())) or (z3.is_quantifier(e) and _has_var(e.body()))
    _c[k] = (e, r)
    return r


def to_smt2(hyps, neg_goal):
    s = z3.Solver()
    for h in hyps:
        s.add(h)
    s.add(neg_goal)
    text = s.to_smt2()
    # z3's printer may emit a datatype before an uninterpreted sort it mentions under Seq/Array: sorts first
    lines = text.split("\n")
    sorts = [l for l in lines if l.startswith("(declare-sort ")]
    if sorts:
        rest = [l for l in lines if not l.startswith("(declare-sort ")]
        k = next((i for i, l in enumerate(rest) if l.startswith("(declare-") or l.startswith("(assert")), len(rest))
        text = "\n".join(rest[:k] + sorts + rest[k:])
    return text


def open_hyps(hyps, n=[0]):
    """Logical clean-up of the hypothesis list (all steps are equivalences or sound weakenings of nothing):
    unit propagation of literal facts through implications / iff with a quantified side, skolemisation of top-level existential hypotheses."""
    for _ in range(3):
        lits = {}
        for h in hyps:
            if z3.is_const(h) and h.sort() == z3.BoolSort() and h.decl().kind() == z3.Z3_OP_UNINTERPRETED:
                lits[h.get_id()] = (h, True)
            elif z3.is_not(h) and z3.is_const(h.arg(0)) and h.arg(0).decl().kind() == z3.Z3_OP_UNINTERPRETED:
                lits[h.arg(0).get_id()] = (h.arg(0), False)
        out = []
        changed = False
        for h in hyps:
            r = h
            if z3.is_implies(h):
                a, b = h.children()
                neg = z3.is_not(a)
                atom = a.arg(0) if neg else a
                if z3.is_const(atom) and atom.get_id() in lits:
                    val = lits[atom.get_id()][1] != neg
                    r = b if val else z3.BoolVal(True)
            elif z3.is_eq(h) and h.arg(0).sort() == z3.BoolSort():
                a, b = h.children()
                for x, y in ((a, b), (b, a)):
                    if z3.is_const(x) and x.get_id() in lits and _has_quant(y):
                        r = y if lits[x.get_id()][1] else z3.Not(y)
                        break
            if r is not h:
                changed = True
            if z3.is_quantifier(r) and not r.is_forall():
                n[0] += 1
                consts = [z3.Const("%s!ex%d" % (r.var_name(i), n[0]), r.var_sort(i)) for i in range(r.num_vars())]
                r = z3.substitute_vars(r.body(), *reversed(consts))
                changed = True
            elif z3.is_not(r) and z3.is_quantifier(r.arg(0)):
                u = _neg_exists_as_forall(r) if not r.arg(0).is_forall() else None
                if u is not None:
                    r = u
                    changed = True
            if not z3.is_true(r):
                out.append(r)
        hyps = flatten_and(out)
        if not changed:
            break
    return hyps


def seq_defs(fs):
    """[(c, t, f)]: hypotheses f of the shape c == t for a sequence constant c and a structured sequence term t (slice, concatenation, unit)
    that does not mention c.  Replacing c by t everywhere is an equivalence; it lets the positional rewriting of nth/len over t reach every use of c."""
    out, taken = [], set()
    for f in fs:
        if z3.is_eq(f) and f.arg(0).sort().kind() == z3.Z3_SEQ_SORT and not z3.is_string(f.arg(0)):
            for c, t in ((f.arg(0), f.arg(1)), (f.arg(1), f.arg(0))):
                if z3.is_const(c) and c.decl().kind() == z3.Z3_OP_UNINTERPRETED and c.get_id() not in taken and z3.is_app(t) and \
                        t.decl().kind() in (z3.Z3_OP_SEQ_EXTRACT, z3.Z3_OP_SEQ_CONCAT, z3.Z3_OP_SEQ_UNIT) and not _mentions(t, {c.get_id()} | taken):
                    out.append((c, t, f))
                    taken.add(c.get_id())
                    break
    return out


def apply_seq_defs(defs, fs):
    if not defs:
        return fs
    skip = {f.get_id() for _, _, f in defs}
    pairs = [(c, t) for c, t, _ in defs]
    out = []
    for f in fs:
        if f.get_id() in skip:
            continue
        g = f
        for _ in range(3):          # definitions may mention earlier-defined constants
            g2 = z3.substitute(g, *pairs)
            if g2.eq(g):
                break
            g = g2
        out.append(norm(g) if not g.eq(f) else f)
    return [f for f in flatten_and(out) if not z3.is_true(f)]


def _end_position_instances(quant, ng):
    """An existential goal about a list that was just appended to is witnessed by the last position: the negated goal (a universal fact, the
    last entry of `quant` when there is one) is instantiated at len(s) and len(s) - 1 for the sequence constants s it mentions."""
    out = []
    if not quant or not _has_quant(ng):
        return out
    u = quant[-1]
    if not (z3.is_quantifier(u) and u.is_forall() and u.num_vars() == 1 and u.var_sort(0) == z3.IntSort()):
        return out
    for sc in _seq_consts([ng])[:4]:
        for t in (z3.Length(sc), z3.Length(sc) - 1):
            out.append(norm(z3.substitute_vars(u.body(), t)))
    return [i for i in out if not z3.is_true(i)]


def prepare_deep(hyps, ng, quant, ground, gr0, lean):
    """The expensive variants of one sub-problem, built only when the lean stages did not decide it."""
    sub = {}
    # ---- the deep instance set (ground only): goal terms first, witnesses of existential conclusions as terms of a second round,
    #      and for position-by-position list models the neighbouring positions in a third
    defs = seq_defs(hyps)
    if defs:
        hyps_d = apply_seq_defs(defs, hyps)
        ng = apply_seq_defs(defs, [ng])
        ng = ng[0] if len(ng) == 1 else z3.And(*ng) if ng else z3.BoolVal(True)
        ground = [h for h in hyps_d if not _has_quant(h)] + [ng]
        quant = [h for h in hyps_d if _has_quant(h)]
        if _has_quant(ng):
            u = _neg_exists_as_forall(ng)
            if u is not None:
                quant = quant + [u]
        gr0 = [h for h in hyps_d if not _has_quant(h)]
    # the negated goal, opened: existential parts get witnesses, negated existentials become universal facts to instantiate
    wit = []
    parts = flatten_and([skolemize_pos(ng, wit)])
    if len(parts) > 1 or wit:
        ngs = []
        for pt in parts:
            u = _neg_exists_as_forall(pt) if _has_quant(pt) else None
            if u is not None:
                quant = quant + [u]
            elif z3.is_quantifier(pt) and pt.is_forall():
                quant = quant + [pt]
            else:
                ngs.append(pt)
        ground = [h for h in ground[:-1]] + ngs
        ng = z3.And(*parts) if len(parts) > 1 else parts[0]
        goal_terms = ngs or [ng]
    else:
        goal_terms = [ng]
    # phase 1: the abstraction with the quantified hypotheses kept (lean instance set): the solver's own E-matching over nthU/lenU
    abq = seq_abstract(gr0 + quant + goal_terms + [i for i in lean if not _has_quant(i)][:200])
    if abq is not None:
        sub["abstract_q"] = to_smt2(abq, z3.BoolVal(True))
    sub["_deep2"] = (ng, quant, ground, gr0, lean, goal_terms, wit)
    return sub


def prepare_deep2(ng, quant, ground, gr0, lean, goal_terms, wit):
    """phase 2: the layered ground instance set and its abstraction"""
    sub = {}
    insts = instantiate(quant, ground, goal=goal_terms)
    insts = [skolemize_pos(i, wit) for i in insts]
    if wit:
        ids = {c.get_id() for c in wit}
        insts2 = instantiate(quant, ground + insts, must_mention=ids, goal=goal_terms, max_inst=700)
        insts += [skolemize_pos(i, wit) for i in insts2]
    # further rounds: index terms that the instances themselves introduced (neighbouring positions k+1, re-indexed positions
    # len-1-(c-r0), ...) need their own instances; chains list -> moved list -> dependency list are three layers deep
    seen_t = {t.get_id() for t in index_terms(ground, limit=400)}
    scs = _seq_consts(ground)
    ends = [z3.Length(sc) - 1 for sc in scs][:6] + [z3.Length(sc) for sc in scs][:6]
    for layer in range(3):
        wids = {c.get_id() for c in wit}
        mcw = {}
        fresh_terms = [t for t in index_terms(ground + insts, limit=600)
                       if t.get_id() not in seen_t and not _mentions(t, wids, mcw) and not z3.is_int_value(t)][:(40 if layer == 0 else 14)]
        if layer == 0:
            # ... and the last position of every list constant (where append puts its element)
            fresh_terms = fresh_terms[:10] + ends + fresh_terms[10:]
        if not fresh_terms:
            break
        fid = set()
        for t in fresh_terms:
            fid.add(t.get_id())
            seen_t.add(t.get_id())
        insts3 = instantiate(quant, ground + insts, must_mention=fid, term_ids=True, goal=goal_terms, max_inst=1100 if layer == 0 else 300,
                             extra_terms=fresh_terms)
        n_before = len(wit)
        insts += [skolemize_pos(i, wit) for i in insts3]
        if len(wit) > n_before:
            # witnesses found at this layer: their instances too
            nid = {c.get_id() for c in wit[n_before:]}
            insts4 = instantiate(quant, ground + insts, must_mention=nid, goal=goal_terms, max_inst=300)
            insts += [skolemize_pos(i, wit) for i in insts4]
    em = ematch(quant, ground + insts)
    ids = {i.get_id() for i in insts}
    insts += [e_ for e_ in em if e_.get_id() not in ids]
    if any(_has_quant(i) for i in insts):
        it = index_terms(ground, first=goal_terms)
        ot = sorted_terms(ground)
        insts = [weaken_foralls(i, it, ot) if _has_quant(i) else i for i in insts]
    deep = gr0 + insts
    if wit or len(insts) != len(lean):
        sub["deep"] = to_smt2(deep, ng)
    ab = seq_abstract([x for x in deep + goal_terms if not _has_quant(x)])
    if ab is not None:
        sub["abstract"] = to_smt2(ab, z3.BoolVal(True))
    return sub


def prepare(ob):
    """-> list of sub-problems: dict(full=smt2, ground=smt2)"""
    _MEMO.clear()
    subs = []
    hyps0 = [h for h in flatten_and([norm(h) for h in flatten_and(ob.hyps)]) if not z3.is_true(h)]
    hyps0 = open_hyps(hyps0)
    if ob.expect == "sat":
        q = [h for h in hyps0 if not _has_quant(h)]
        return [{"full": to_smt2(hyps0, z3.BoolVal(True)), "ground": to_smt2(q, z3.BoolVal(True))}]
    for extra, g in skolemize_goal(ob.goal):
        hyps = hyps0 + flatten_and([norm(x) for x in flatten_and(extra)])
        ng = norm(z3.Not(g))
        ground = [h for h in hyps if not _has_quant(h)] + [ng]
        quant = [h for h in hyps if _has_quant(h)]
        if _has_quant(ng):
            # an existential goal: its negation is a universal fact, instantiated like the other quantified hypotheses
            u = _neg_exists_as_forall(ng)
            if u is not None:
                quant = quant + [u]
        # ---- the lean instance set (one round at the ground index terms + E-matching): given to every back end, with and without the quantified originals
        lean = instantiate(quant, ground)
        lean += _end_position_instances(quant, ng)
        em = ematch(quant, ground + lean)
        em += ematch(quant, ground + lean + em)      # second round: instances expose new terms
        ids = {i.get_id() for i in lean}
        lean += [e_ for e_ in em if e_.get_id() not in ids]
        gr0 = [h for h in hyps if not _has_quant(h)]
        sub = {"full": to_smt2(hyps + lean, ng), "ground": to_smt2(gr0 + lean, ng)}
        sub["_deep"] = (hyps, ng, quant, ground, gr0, lean)
        subs.append(sub)
    return subs


def _neg_exists_as_forall(ng):
    """Not(Exists x. P)  ->  ForAll x. Not P   (the shape a negated existential goal has)"""
    if z3.is_not(ng) and z3.is_quantifier(ng.arg(0)) and not ng.arg(0).is_forall():
        q = ng.arg(0)
        consts = [z3.Const("%s!ne%d" % (q.var_name(i), q.get_id()), q.var_sort(i)) for i in range(q.num_vars())]
        body = z3.substitute_vars(q.body(), *reversed(consts))
        return z3.ForAll(consts, z3.Not(body))
    return None


def _has_quant(e, _c={}):
    k = e.get_id()
    if k in _c and _c[k][0].eq(e):
        return _c[k][1]
    r = z3.is_quantifier(e) or any(_has_quant(c) for c in e.children())
    _c[k] = (e, r)
    return r


def _z3_api(smt2, timeout_ms, want_model=False):
    ctx = z3.Context()
    s = z3.Solver(ctx=ctx)
    s.set("timeout", timeout_ms)
    s.from_string(smt2)
    t = time.time()
    r = str(s.check())
    model = None
    if r == "sat" and want_model:
        m = s.model()
        model = {d.name(): str(m[d]) for d in m.decls() if d.arity() == 0}
    return r, time.time() - t, model


def _cli(cmd, smt2, timeout_s):
    with tempfile.NamedTemporaryFile("w", suffix=".smt2", delete=False, dir=os.environ.get("PYVC_TMP", None)) as f:
        f.write("(set-logic ALL)\n" + smt2)
        path = f.name
    t = time.time()
    try:
        out = subprocess.run(cmd + [path], capture_output=True, text=True, timeout=timeout_s + 5).stdout.strip().splitlines()
        ans = out[0].strip() if out else "unknown"
    except subprocess.TimeoutExpired:
        ans = "timeout"
    finally:
        os.unlink(path)
    if ans not in ("sat", "unsat"):
        ans = "unknown"
    return ans, time.time() - t


def ground_sat_is_final(sub):
    return False


def solve_sub(sub, expect="unsat", thorough=False):
    """-> dict(status, backend, time, model, log).  Staged portfolio; `unsat` from any stage discharges (every stage uses only
    hypotheses of the obligation or valid instances of them), `sat` counts as a refutation only from a stage that had all hypotheses."""
    log = []
    total = [0.0]

    def done(status, backend, model=None, **kw):
        return dict({"status": status, "backend": backend, "time": total[0], "model": model, "log": log}, **kw)

    def z3api(which, label, tmo, want_model=False):
        r, dt, m = _z3_api(sub[which], int(tmo * SCALE[0]), want_model=want_model)
        total[0] += dt
        log.append((label, r, round(dt, 3)))
        return r, m

    def cli(which, label, cmd):
        ans, dt = _cli(cmd, sub[which], int(T_EXT * SCALE[0]))
        total[0] += dt
        log.append((label, ans, round(dt, 3)))
        return ans

    CVC5 = ["/usr/bin/cvc5", "--strings-exp", "--tlimit=%d" % int(T_EXT * 1000 * SCALE[0])]
    Z3OLD = ["/usr/bin/z3", "-T:%d" % int(T_EXT * SCALE[0])]
    if expect == "sat":      # vacuity guard
        r, _ = z3api("full", "z3-5.1", 2000)
        if r == "unknown":
            r2, _ = z3api("ground", "z3-5.1/ground", T_Z3)
            r = r2 if r2 == "sat" else r
        return done(r, log[-1][0])
    has_ground = sub["ground"] != sub["full"]
    ground_model = None
    ground_sat = False
    r0 = None
    if has_ground:
        # the cheap stages first: most obligations end here
        r0, m0 = z3api("ground", "z3-5.1/ground-instances", 3000, want_model=True)
        if r0 == "unsat":
            return done("unsat", "z3-5.1/ground-instances")
        if r0 == "sat":
            ground_sat, ground_model = True, m0
    rq_, mq_ = z3api("full", "z3-5.1", 2500, want_model=True)
    if rq_ == "unsat":
        return done("unsat", "z3-5.1")
    if rq_ == "sat":
        return done("sat", "z3-5.1", mq_)
    if "_deep" in sub:
        t_ = time.time()
        try:
            sub.update(prepare_deep(*sub.pop("_deep")))
        except Exception as e:      # the extra variants are optional
            log.append(("deep-prepare-error", repr(e)[:200], 0))
        total[0] += time.time() - t_
    if "abstract_q" in sub:
        # the sequence theory abstracted away (a weaker problem), quantified hypotheses kept: only `unsat` means anything
        rq, _ = z3api("abstract_q", "z3-5.1/no-seq-theory", 8000)
        if rq == "unsat":
            return done("unsat", "z3-5.1/no-seq-theory")
    if "_deep2" in sub:
        t_ = time.time()
        try:
            sub.update(prepare_deep2(*sub.pop("_deep2")))
        except Exception as e:
            log.append(("deep-prepare-error", repr(e)[:200], 0))
        total[0] += time.time() - t_
    if "abstract" in sub:
        ra, _ = z3api("abstract", "z3-5.1/ground-instances/no-seq-theory", 4000)
        if ra == "unsat":
            return done("unsat", "z3-5.1/ground-instances/no-seq-theory")
    if has_ground and not ground_sat:
        r0, m0 = z3api("ground", "z3-5.1/ground-instances", 6000, want_model=True)
        if r0 == "unsat":
            return done("unsat", "z3-5.1/ground-instances")
        if r0 == "sat":
            ground_sat, ground_model = True, m0
        else:
            a = cli("ground", "cvc5-1.0.3/ground-instances", CVC5)
            if a == "unsat":
                return done("unsat", "cvc5-1.0.3/ground-instances")
            ground_sat = a == "sat"
    if "deep" in sub and not ground_sat_is_final(sub):
        rd, _ = z3api("deep", "z3-5.1/deep-instances", 6000)
        if rd == "unsat":
            return done("unsat", "z3-5.1/deep-instances")
    r, model = z3api("full", "z3-5.1", T_Z3, want_model=True)
    if r == "unsat":
        return done("unsat", "z3-5.1")
    if r == "sat":
        return done("sat", "z3-5.1", model)
    a = cli("full", "cvc5-1.0.3", CVC5)
    if a in ("unsat", "sat"):
        return done(a, "cvc5-1.0.3", ground_model if a == "sat" else None)
    if has_ground and not ground_sat:
        if ground_model is None:
            r2, m2 = z3api("ground", "z3-5.1/ground-instances", T_Z3, want_model=True)
            if r2 == "unsat":
                return done("unsat", "z3-5.1/ground-instances")
            if r2 == "sat":
                ground_sat, ground_model = True, m2
        if not ground_sat:
            a = cli("ground", "z3-4.8.12/ground-instances", Z3OLD)
            if a == "unsat":
                return done("unsat", "z3-4.8.12/ground-instances")
            if a == "sat":
                ground_sat = True
    if "deep" in sub:
        a = cli("deep", "cvc5-1.0.3/deep-instances", CVC5)
        if a == "unsat":
            return done("unsat", "cvc5-1.0.3/deep-instances")
    a = cli("full", "z3-4.8.12", Z3OLD)
    if a in ("unsat", "sat"):
        return done(a, "z3-4.8.12", ground_model if a == "sat" else None)
    if ground_sat and ground_model is None:
        r2, m2 = z3api("ground", "z3-5.1/ground-instances", T_Z3, want_model=True)
        ground_model = m2 if r2 == "sat" else None
    # candidate counter-model from the ground problem (quantified hypotheses dropped): not a refutation by itself
    if ground_sat and ground_model is None:
        ground_model = {"note": "the ground-instantiated problem is satisfiable (" + ", ".join(l[0] for l in log if l[1] == "sat") + "); model text not retrieved"}
    return done("unknown", "-", ground_model, candidate=ground_model is not None)


_OBS = []


def _work(idx):
    # runs in a forked worker: the obligation (z3 terms) is inherited through the fork, preparation happens here in parallel
    ob = _OBS[idx]
    expect = ob.expect
    try:
        subs = prepare(ob)
    except Exception as e:
        return idx, [{"status": "error", "backend": "-", "time": 0.0, "model": None, "log": [("prepare-error", repr(e), 0)]}]
    results = []
    for sub in subs:
        try:
            results.append(solve_sub(sub, expect))
        except Exception as e:  # solver crash: undecided, never a violation
            results.append({"status": "error", "backend": "-", "time": 0.0, "model": None, "log": [("error", repr(e), 0)]})
    return idx, results


def discharge(obligations, procs=None):
    """Fills ob.result for every obligation."""
    global _OBS
    _OBS = list(obligations)
    jobs = list(range(len(_OBS)))
    procs = procs or int(os.environ.get("PYVC_PROCS", "12"))
    if procs <= 1 or len(jobs) <= 1:
        res = [_work(j) for j in jobs]
    else:
        with mp.get_context("fork").Pool(procs) as pool:
            res = pool.map(_work, jobs, chunksize=1)
    for idx, results in res:
        ob = obligations[idx]
        statuses = [r["status"] for r in results]
        t = sum(r["time"] for r in results)
        if ob.expect == "sat":
            status = "ok" if all(s == "sat" for s in statuses) else ("vacuous" if any(s == "unsat" for s in statuses) else "unknown")
        elif all(s == "unsat" for s in statuses):
            status = "discharged"
        elif any(s == "sat" for s in statuses):
            status = "refuted"
        else:
            status = "unknown"
        model = next((r["model"] for r in results if r["status"] == "sat" and r["model"]), None) or \
            next((r["model"] for r in results if r.get("model")), None)
        ob.result = {"status": status, "time": round(t, 4), "parts": len(results),
                     "backends": sorted({r["backend"] for r in results}), "model": model,
                     "log": [r["log"] for r in results]}
    return obligations

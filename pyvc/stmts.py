"""Statements, loops, try/except, modular calls and the per-function verification driver."""
import ast
import z3
from . import vtypes as ty
from . import ops
from .vtypes import SV
from .ops import Unsupported
from .state import State, Outcome, Exc, FieldAlias, Box
from .spec import Env, _dotted, smart_select, smart_store
from . import extract


class StmtMixin:
    # =====================================================================================
    # modular call
    # =====================================================================================
    def bind_params(self, c, pos, kws, node):
        names = list(c.params.keys())
        env = {}
        if len(pos) > len(names):
            raise Unsupported("too many positional arguments for %s" % c.name)
        for n, v in zip(names, pos):
            env[n] = v
        for k, v in kws.items():
            if k not in names:
                raise Unsupported("unknown keyword %s for %s" % (k, c.name))
            env[k] = v
        for n in names:
            if n not in env:
                if n in c.defaults:
                    env[n] = self.spec.eval(c.defaults[n], Env(State()))
                else:
                    raise Unsupported("missing argument %s for %s (line %s)" % (n, c.name, getattr(node, "lineno", "?")))
            env[n] = ops.coerce(env[n], self.spec.T(c.params[n]))
        return env

    def havoc_modifies(self, c, st, env_pre):
        """Havoc what the callee may modify.  Entries: 'ghost', 'expr.field', 'Class.field[*]'."""
        for m in c.modifies:
            if m in self.reg.ghosts:
                t = self.spec.T(self.reg.ghosts[m])
                st.ghost[m] = ty.fresh(t, m)
                st.log_write(("ghost", m))
                continue
            if m.endswith("[*]"):
                key = m[:-3]
                cls, field = key.split(".")
                key, ftext = self.reg.field_key(cls, field)
                ft = self.spec.T(ftext)
                st.heap[key] = z3.Const("H_%s!%d" % (key.replace(".", "_"), self._fresh()), z3.ArraySort(ty.Ref, ty.sort_of(ft)))
                st.log_write(("heap", key, None))
                continue
            node = ast.parse(m, mode="eval").body
            if not isinstance(node, ast.Attribute):
                raise Unsupported("modifies entry %r" % m)
            obj = self.spec.eval(node.value, env_pre)
            if isinstance(obj.t, ty.Opt):
                obj = ty.opt_val(obj)
            key, ftext = self.reg.field_key(obj.t.cls, node.attr)
            if key is None:
                raise Unsupported("modifies: no field %s" % m)
            ft = self.spec.T(ftext)
            arr = self.spec.heap_array(st, key, ft)
            st.heap[key] = smart_store(arr, obj.e, ty.fresh(ft, node.attr).e)
            st.log_write(("heap", key, obj.e))

    def _fresh(self, _n=[0]):
        _n[0] += 1
        return _n[0]

    def call_contract(self, c, pos, kws, st, sink, node):
        if c.inline:
            return self.inline_call(c, pos, kws, st, sink, node)
        env_vals = self.bind_params(c, pos, kws, node)
        line = getattr(node, "lineno", 0) - self.base_line
        k = self.call_counter.get((c.name, line), 0)
        tag = "call@L%d:%s" % (line, c.name)
        if c.external:
            self.reg.externals_used.add(c.name)
        pre = st.copy()
        env_pre = Env(pre, pre, env_vals)
        for i, r in enumerate(c.requires):
            self.oblige("%s/pre-%d" % (tag, i), st, self.spec.boolean(r, env_pre), "call-pre", line=line)
        out = []
        rt = self.spec.T(c.returns)
        # exceptional outcomes
        whens = []
        for ecls, spec in c.raises.items():
            spec = spec or {}
            s2 = st.copy()
            self.havoc_modifies(c, s2, env_pre)
            env_post = Env(s2, pre, dict(env_vals, __final__=self.write_back_mutated(c, pos, kws, s2, node, env_vals)), ex=Exc(ecls))
            if spec.get("when") is not None:
                w = self.spec.boolean(spec["when"], env_pre)
                whens.append(w)
                s2.assume(w)
            for e in spec.get("ensures", []):
                s2.assume(self.spec.boolean(e, env_post))
            if self.feasible(s2):
                s2.trace.append("%s raises %s" % (tag, ecls))
                sink.append(Outcome("raise", s2, exc=Exc(ecls, exact=spec.get("exact", False), origin=tag)))
        # normal outcome
        s1 = st
        self.havoc_modifies(c, s1, env_pre)
        for w in whens:
            s1.assume(z3.Not(w))
        if rt == ty.NoneT:
            res = ty.none_val()
        elif c.pure and not c.modifies:
            res = self.pure_result(c, env_vals, rt, pre)
        else:
            res = ty.fresh(rt, "ret_" + c.name.split(".")[-1].split(":")[-1])
        env_post = Env(s1, pre, dict(env_vals, result=res, __final__=self.write_back_mutated(c, pos, kws, s1, node, env_vals)))
        for e in c.ensures:
            s1.assume(self.spec.boolean(e, env_post))
        out.append((s1, res))
        return out

    def write_back_mutated(self, c, pos, kws, st, node, env_vals):
        """A callee that changes a container argument in place (contract key `mutates`): the caller's location that held the argument
        now holds an unknown value of the same type, which the callee's ensures describe through final(p)."""
        fin = {}
        if not c.mutates:
            return fin
        names = list(c.params.keys())
        off = len(pos) - len(getattr(node, "args", []))      # 1 for a bound method (receiver first), 0 for a plain function
        kwnodes = {k.arg: k.value for k in getattr(node, "keywords", [])}
        for name in c.mutates:
            idx = names.index(name)
            argnode = node.args[idx - off] if 0 <= idx - off < len(node.args) else kwnodes.get(name)
            if argnode is None or not isinstance(argnode, (ast.Name, ast.Attribute)):
                raise Unsupported("argument for the in-place changed parameter %s of %s is not a variable or field" % (name, c.name))
            new = ty.fresh(env_vals[name].t, "after_" + name)
            self.store_loc(st, argnode, new)
            fin[name] = new
        return fin

    def pure_result(self, c, env_vals, rt, st):
        """Result of a pure callee: a function of its arguments (and, conservatively, nothing else is assumed
        beyond the postcondition) -- equal arguments give equal results within one heap state."""
        if not c.heap_independent:
            return ty.fresh(rt, "ret_" + c.name.split(".")[-1])
        sorts = [ty.sort_of(v.t) for v in env_vals.values()]
        f = z3.Function("pure_%s" % c.name.replace(".", "_").replace(":", "_"), *sorts, ty.sort_of(rt))
        return SV(rt, f(*[v.e for v in env_vals.values()]))

    # =====================================================================================
    # inline call of a real body
    # =====================================================================================
    def inline_call(self, c, pos, kws, st, sink, node):
        if self.inline_depth > 6:
            raise Unsupported("inline depth")
        ext = extract.find(c.source)
        self.inlined.add((c.source, ext.sha))
        env_vals = self.bind_params(c, pos, kws, node)
        saved_vars = st.vars
        st.vars = {}
        self.inline_depth += 1
        for n, v in env_vals.items():
            self.assign_var(st, n, v)
        saved = (self.base_line, self.cur_contract, self.cur_loops)
        from .loops import number_loops
        self.cur_contract, self.cur_loops = c, number_loops(ext.node)
        try:
            outs = self.exec_block(extract.strip_docstring(ext.node.body), st)
        finally:
            self.inline_depth -= 1
            self.base_line, self.cur_contract, self.cur_loops = saved
        res = []
        rt = self.spec.T(c.returns)
        for o in outs:
            o.st.vars = dict(saved_vars)
            if o.kind in ("normal", "return"):
                v = o.val if o.kind == "return" and o.val is not None else ty.none_val()
                res.append((o.st, v if rt == ty.Any else ops.coerce(v, rt)))
            elif o.kind == "raise":
                sink.append(o)
            else:
                raise Unsupported("break/continue escaping inlined %s" % c.name)
        return res

    # =====================================================================================
    # statements
    # =====================================================================================
    def exec_block(self, stmts, st):
        live = [st]
        done = []
        for stmt in stmts:
            nxt = []
            for s in live:
                for o in self.exec_stmt(stmt, s):
                    if o.kind == "normal":
                        nxt.append(o.st)
                    else:
                        done.append(o)
            live = nxt
            self.paths = max(self.paths, len(live) + len(done))
            if len(live) + len(done) > self.c.max_paths:
                raise Unsupported("more than %d paths" % self.c.max_paths)
            if not live:
                break
        return done + [Outcome("normal", s) for s in live]

    def exec_stmt(self, stmt, st):
        m = getattr(self, "s_" + type(stmt).__name__, None)
        if m is None:
            raise Unsupported("statement %s at line %d" % (type(stmt).__name__, stmt.lineno))
        return m(stmt, st)

    def s_Pass(self, stmt, st):
        return [Outcome("normal", st)]

    def s_Expr(self, stmt, st):
        if isinstance(stmt.value, ast.Constant):
            return [Outcome("normal", st)]
        if isinstance(stmt.value, ast.Yield):
            # generator: `yield v` appends v to the ghost sequence _yielded (the sequence of yielded values is the function's result)
            sink = []
            outs = []
            evs = self.ev(stmt.value.value, st, sink) if stmt.value.value is not None else [(st, ty.none_val())]
            for s, v in evs:
                cur = self.read_var(s, "_yielded")
                new = ops.unit(v) if cur.e is None else SV(cur.t, z3.Concat(cur.e, z3.Unit(ops.coerce(v, cur.t.elem).e)))
                self.store_loc(s, ast.Name(id="_yielded", ctx=ast.Load()), new)
                # what the consumer of the generator sees while it is suspended here (context managers: the state the `with` body runs in)
                if self.inline_depth == 0:
                    env = Env(s, self.entry, {k_: v_ for k_, v_ in self.entry_locals.items()})
                    for k_, clause in enumerate(getattr(self.c, "at_yield", [])):
                        nm = "at-yield-%d@L%d" % (k_, stmt.lineno - self.base_line)
                        cnt = self.__dict__.setdefault("_yield_names", {})
                        cnt[nm] = cnt.get(nm, 0) + 1
                        self.oblige(nm + ("" if cnt[nm] == 1 else "@path-%d" % cnt[nm]), s, self.spec.boolean(clause, env), "post")
                outs.append(Outcome("normal", s))
            return outs + sink
        sink = []
        outs = [Outcome("normal", s) for s, _ in self.ev(stmt.value, st, sink)]
        return outs + sink

    def s_Assign(self, stmt, st):
        sink = []
        outs = []
        for s, v in self.ev(stmt.value, st, sink):
            cur = [s]
            for tgt in stmt.targets:
                nxt = []
                for s1 in cur:
                    nxt += self.assign_target(tgt, v, s1, sink, stmt.value)
                cur = nxt
            outs += [Outcome("normal", s1) for s1 in cur]
        return outs + sink

    def assign_target(self, tgt, v, st, sink, src_node=None):
        if isinstance(tgt, ast.Name):
            self.assign_var(st, tgt.id, v, src_node)
            return [st]
        if isinstance(tgt, ast.Attribute):
            res = []
            for s, obj in self.ev(tgt.value, st, sink):
                # storing a local container into a field: the local becomes an alias of the field
                if isinstance(src_node, ast.Name) and isinstance(s.vars.get(src_node.id), Box):
                    self.write_field(s, obj, tgt.attr, v)
                    key, ftext = self.reg.field_key((ty.opt_val(obj) if isinstance(obj.t, ty.Opt) else obj).t.cls, tgt.attr)
                    s.vars[src_node.id] = FieldAlias(obj.e, key, self.spec.T(ftext))
                else:
                    self.write_field(s, obj, tgt.attr, v)
                res.append(s)
            return res
        if isinstance(tgt, (ast.Tuple, ast.List)):
            if isinstance(v.t, ty.Tuple):
                parts = ops.tuple_parts(v)
                if len(parts) != len(tgt.elts):
                    self.raise_(st, "ValueError", sink, "L%d.unpack" % tgt.lineno)
                    return []
                cur = [st]
                for t_, p in zip(tgt.elts, parts):
                    nxt = []
                    for s in cur:
                        nxt += self.assign_target(t_, p, s, sink)
                    cur = nxt
                return cur
            if isinstance(v.t, ty.Seq):
                n = len(tgt.elts)
                res = []
                for s, _ in self.cases(st, [(z3.Length(v.e) == n, "val", v), (z3.Length(v.e) != n, "exc", "ValueError")], sink, "L%d.unpack" % tgt.lineno):
                    cur = [s]
                    for k, t_ in enumerate(tgt.elts):
                        nxt = []
                        for s1 in cur:
                            nxt += self.assign_target(t_, SV(v.t.elem, v.e[k]), s1, sink)
                        cur = nxt
                    res += cur
                return res
            raise Unsupported("unpacking %s" % v.t)
        if isinstance(tgt, ast.Subscript):
            res = []
            for s, (cont, key) in self.ev_list([tgt.value, tgt.slice], st, sink):
                if isinstance(cont.t, ty.Map):
                    if cont.e is None:
                        cont = ops.coerce(cont, ty.Map(key.t, v.t))
                    new = SV(cont.t, z3.Store(cont.e, ops.coerce(key, cont.t.key).e, ty.opt_some(ops.coerce(v, cont.t.val)).e))
                    self.store_loc(s, tgt.value, new)
                    res.append(s)
                elif isinstance(cont.t, ty.Seq):
                    j = ops.norm_index(cont.e, key.e)
                    n = z3.Length(cont.e)
                    ok = z3.And(0 <= j, j < n)
                    new = SV(cont.t, z3.Concat(z3.SubSeq(cont.e, 0, j), z3.Unit(ops.coerce(v, cont.t.elem).e), z3.SubSeq(cont.e, j + 1, n - j - 1)))
                    for s2, _ in self.cases(s, [(ok, "val", v), (z3.Not(ok), "exc", "IndexError")], sink, "L%d" % tgt.lineno):
                        self.store_loc(s2, tgt.value, new)
                        res.append(s2)
                else:
                    raise Unsupported("item assignment on %s" % cont.t)
            return res
        raise Unsupported("assignment target %s" % type(tgt).__name__)

    def s_AugAssign(self, stmt, st):
        load = _as_load(stmt.target)
        bin_ = ast.BinOp(left=load, op=stmt.op, right=stmt.value)
        ast.copy_location(bin_, stmt)
        ast.fix_missing_locations(bin_)
        if isinstance(stmt.op, ast.Add) and isinstance(stmt.target, (ast.Name, ast.Attribute)):
            # list += list mutates in place; handled as extend when the target is a container
            sink = []
            outs = []
            for s, (cur, rhs) in self.ev_list([load, stmt.value], st, sink):
                if isinstance(cur.t, ty.Seq):
                    other = rhs
                    if other.e is not None:
                        new = other if cur.e is None else SV(cur.t, z3.Concat(cur.e, ops.coerce(other, cur.t).e))
                        self.store_loc(s, stmt.target, new)
                    outs.append(Outcome("normal", s))
                else:
                    for s2, v in self.cases(s, ops.binop("Add", cur, rhs), sink, "L%d" % stmt.lineno):
                        outs += [Outcome("normal", s3) for s3 in self.assign_target(stmt.target, v, s2, sink)]
            return outs + sink
        a = ast.Assign(targets=[stmt.target], value=bin_)
        ast.copy_location(a, stmt)
        return self.s_Assign(a, st)

    def s_AnnAssign(self, stmt, st):
        if stmt.value is None:
            return [Outcome("normal", st)]
        a = ast.Assign(targets=[stmt.target], value=stmt.value)
        ast.copy_location(a, stmt)
        return self.s_Assign(a, st)

    def s_Return(self, stmt, st):
        if stmt.value is None:
            return [Outcome("return", st, val=None)]
        sink = []
        outs = [Outcome("return", s, val=v) for s, v in self.ev(stmt.value, st, sink)]
        return outs + sink

    def s_If(self, stmt, st):
        sink = []
        outs = []
        for s, c in self.ev(stmt.test, st, sink):
            narrowed = self.narrowing(stmt.test)
            t, f = self.fork(s, ops.truthy(c), "L%d.if" % (stmt.lineno - self.base_line))
            if t is not None:
                self.apply_narrowing(t, narrowed, True)
                outs += self.exec_block(stmt.body, t)
            if f is not None:
                self.apply_narrowing(f, narrowed, False)
                outs += self.exec_block(stmt.orelse, f) if stmt.orelse else [Outcome("normal", f)]
        return outs + sink

    def narrowing(self, test):
        """isinstance(x, C) on a plain name narrows the static class of x in the true branch."""
        if isinstance(test, ast.Call) and isinstance(test.func, ast.Name) and test.func.id == "isinstance" \
                and isinstance(test.args[0], ast.Name) and not isinstance(test.args[1], ast.Tuple):
            cls = _dotted(test.args[1]).split(".")[-1]
            if cls in self.reg.records:
                return (test.args[0].id, cls)
        return None

    def apply_narrowing(self, st, n, branch):
        if n is None or not branch:
            return
        name, cls = n
        v = st.vars.get(name)
        if isinstance(v, SV) and isinstance(v.t, ty.RefT) and cls in self.reg.subclasses(v.t.cls):
            st.vars[name] = SV(ty.RefT(cls), v.e)

    def s_Raise(self, stmt, st):
        if stmt.exc is None:
            if not st.exc_stack:
                raise Unsupported("bare raise outside handler")
            return [Outcome("raise", st, exc=st.exc_stack[-1])]
        node = stmt.exc
        sink = []
        if isinstance(node, ast.Call):
            cls = _dotted(node.func).split(".")[-1]
            outs = []
            for s, _ in self.ev_list(node.args, st, sink):
                s.trace.append("raise %s@L%d" % (cls, stmt.lineno - self.base_line))
                outs.append(Outcome("raise", s, exc=Exc(cls, True, "L%d" % (stmt.lineno - self.base_line))))
            return outs + sink
        cls = _dotted(node).split(".")[-1]
        if cls in st.vars:
            raise Unsupported("raise of a variable")
        return [Outcome("raise", st, exc=Exc(cls, True, "L%d" % (stmt.lineno - self.base_line)))]

    def s_Assert(self, stmt, st):
        sink = []
        outs = []
        for s, c in self.ev(stmt.test, st, sink):
            t, f = self.fork(s, ops.truthy(c), "L%d.assert" % (stmt.lineno - self.base_line))
            if t is not None:
                outs.append(Outcome("normal", t))
            if f is not None:
                outs.append(Outcome("raise", f, exc=Exc("AssertionError", True, "L%d" % (stmt.lineno - self.base_line))))
        return outs + sink

    def s_Break(self, stmt, st):
        return [Outcome("break", st)]

    def s_Continue(self, stmt, st):
        return [Outcome("continue", st)]

    def s_Delete(self, stmt, st):
        sink = []
        cur = [st]
        for tgt in stmt.targets:
            nxt = []
            for s in cur:
                if isinstance(tgt, ast.Subscript) and isinstance(tgt.slice, ast.Slice):
                    sl = tgt.slice
                    parts = [tgt.value] + [p for p in (sl.lower, sl.upper) if p is not None]
                    for s2, vals in self.ev_list(parts, s, sink):
                        cont = vals[0]
                        rest = vals[1:]
                        a = rest.pop(0) if sl.lower is not None else None
                        b = rest.pop(0) if sl.upper is not None else None
                        if cont.e is None:
                            nxt.append(s2)
                            continue
                        n = z3.Length(cont.e)
                        # a bound that may be None means "no bound"
                        if a is not None:
                            a = z3.If(ty.opt_is_none(a), z3.IntVal(0), ty.opt_val(a).e) if isinstance(a.t, ty.Opt) else a.e
                        if b is not None:
                            b = z3.If(ty.opt_is_none(b), n, ty.opt_val(b).e) if isinstance(b.t, ty.Opt) else b.e
                        lo = ops.clamp_lo(cont.e, a)
                        hi = n if b is None else ops.clamp_lo(cont.e, b)
                        hi2 = z3.If(hi < lo, lo, hi)
                        new = SV(cont.t, z3.Concat(z3.SubSeq(cont.e, 0, lo), z3.SubSeq(cont.e, hi2, n - hi2)))
                        self.store_loc(s2, tgt.value, new)
                        nxt.append(s2)
                elif isinstance(tgt, ast.Subscript):
                    for s2, (cont, key) in self.ev_list([tgt.value, tgt.slice], s, sink):
                        if isinstance(cont.t, ty.Seq):
                            j = ops.norm_index(cont.e, key.e)
                            n = z3.Length(cont.e)
                            ok = z3.And(0 <= j, j < n)
                            new = SV(cont.t, z3.Concat(z3.SubSeq(cont.e, 0, j), z3.SubSeq(cont.e, j + 1, n - j - 1)))
                            for s3, _ in self.cases(s2, [(ok, "val", key), (z3.Not(ok), "exc", "IndexError")], sink, "L%d" % stmt.lineno):
                                self.store_loc(s3, tgt.value, new)
                                nxt.append(s3)
                        elif isinstance(cont.t, ty.Map):
                            k = ops.coerce(key, cont.t.key)
                            o = SV(ty.Opt(cont.t.val), z3.Select(cont.e, k.e))
                            new = SV(cont.t, z3.Store(cont.e, k.e, ty.opt_none(cont.t.val).e))
                            for s3, _ in self.cases(s2, [(z3.Not(ty.opt_is_none(o)), "val", key), (ty.opt_is_none(o), "exc", "KeyError")], sink, "L%d" % stmt.lineno):
                                self.store_loc(s3, tgt.value, new)
                                nxt.append(s3)
                        else:
                            raise Unsupported("del on %s" % cont.t)
                else:
                    raise Unsupported("del form")
            cur = nxt
        return [Outcome("normal", s) for s in cur] + sink

    # ---- try -----------------------------------------------------------------------------------
    def s_Try(self, stmt, st):
        outs = []
        body_outs = self.exec_block(stmt.body, st)
        after = []
        for o in body_outs:
            if o.kind == "normal" and stmt.orelse:
                after += self.exec_block(stmt.orelse, o.st)
            elif o.kind == "raise":
                after += self.dispatch_handlers(stmt, o)
            else:
                after.append(o)
        if not stmt.finalbody:
            return after
        for o in after:
            for fo in self.exec_block(stmt.finalbody, o.st):
                if fo.kind == "normal":
                    outs.append(Outcome(o.kind, fo.st, val=o.val, exc=o.exc))
                else:
                    outs.append(fo)
        return outs

    def dispatch_handlers(self, stmt, o):
        exc = o.exc
        st = o.st
        res = []
        for h in stmt.handlers:
            names = ["BaseException"] if h.type is None else \
                [_dotted(e).split(".")[-1] for e in (h.type.elts if isinstance(h.type, ast.Tuple) else [h.type])]
            definite = any(self.reg.exc_is_sub(exc.cls, n) for n in names)
            maybe = (not exc.exact) and any(self.reg.exc_is_sub(n, exc.cls) for n in names)
            if not definite and not maybe:
                continue
            s = st.copy() if maybe and not definite else st
            caught = exc if definite else Exc(names[0], False, exc.origin)
            s.exc_stack = s.exc_stack + [caught]
            s.trace.append("except %s" % "|".join(names))
            if h.name:
                s.vars[h.name] = ty.fresh(ty.Exc, h.name)
            for ho in self.exec_block(h.body, s):
                ho.st.exc_stack = ho.st.exc_stack[:-1] if ho.st.exc_stack else []
                res.append(ho)
            if definite:
                return res
            # maybe: the not-caught remainder continues to the next handler (imprecise but sound)
        res.append(Outcome("raise", st, exc=exc))
        return res

    # ---- with ----------------------------------------------------------------------------------
    def s_With(self, stmt, st):
        """with E as x: body  ==  x = E; body.  __enter__ returns the object, __exit__ neither raises nor suppresses
        (true of open() files and ExitStack; recorded as an assumption)."""
        self.assumptions.add("with-statement context managers (open(), ExitStack) return themselves on entry and neither raise nor suppress on exit")
        sink = []
        cur = [st]
        for item in stmt.items:
            nxt = []
            for s in cur:
                for s2, v in self.ev(item.context_expr, s, sink):
                    if item.optional_vars is not None:
                        nxt += self.assign_target(item.optional_vars, v, s2, sink)
                    else:
                        nxt.append(s2)
            cur = nxt
        outs = []
        for s in cur:
            outs += self.exec_block(stmt.body, s)
        return outs + sink


def _as_load(node):
    n = ast.parse(ast.unparse(node), mode="eval").body
    ast.copy_location(n, node)
    for sub in ast.walk(n):
        ast.copy_location(sub, node)
    return n

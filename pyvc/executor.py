"""Forward symbolic execution of a real rope function against its sidecar contract.

Paths are split, never merged.  Calls are modular (callee contract) unless the callee is
registered `inline` (then the callee's *real body* is executed).  Loops need an invariant
(unbounded) or an `unroll` bound (then everything downstream is labelled bounded).
"""
import ast
import z3
from . import vtypes as ty
from . import ops
from .vtypes import SV
from .ops import Unsupported
from .state import State, Outcome, Exc, FieldAlias, Box
from .spec import SpecEval, Env, _dotted, smart_select, smart_store
from . import extract
from .stmts import StmtMixin
from .loops import LoopMixin
from .driver import DriverMixin


class Obligation:
    def __init__(self, name, hyps, goal, kind, fn, expect="unsat", trace=(), bounded=False, line=None, model_vars=None):
        self.name, self.hyps, self.goal, self.kind, self.fn = name, list(hyps), goal, kind, fn
        self.expect, self.trace, self.bounded, self.line = expect, list(trace), bounded, line
        self.model_vars = model_vars or {}
        self.result = None


class Closure:
    def __init__(self, node, kind="lambda"):
        self.node, self.kind = node, kind


class Executor(StmtMixin, LoopMixin, DriverMixin):
    def __init__(self, reg, contract, prune_timeout_ms=400):
        self.reg = reg
        self.c = contract
        self.spec = SpecEval(reg)
        self.obligations = []
        self.prune_timeout = prune_timeout_ms
        self.fn = contract.name
        self.notes = []
        self.paths = 0
        self.discovery = 0
        self.loop_ordinals = {}
        self.call_counter = {}
        self.assumptions = set()
        self.inline_depth = 0
        self.callee_stack = []
        self.var_types = {}
        self.model_vars = {}
        self.base_line = 0
        self.inlined = set()
        self.bounded_notes = set()
        self.entry_locals = {}
        self._pres_paths = {}

    # =====================================================================================
    # solver helpers
    # =====================================================================================
    def check(self, facts, extra=None, timeout=None):
        s = z3.Solver()
        s.set("timeout", timeout or self.prune_timeout)
        for f in facts:
            s.add(f)
        if extra is not None:
            s.add(extra)
        return str(s.check())

    def ground(self, facts):
        from .solve import _has_quant
        return [f for f in facts if not _has_quant(f)]

    def feasible(self, st, cond=None):
        if self.discovery:
            return True
        if cond is not None and z3.is_false(z3.simplify(cond)):
            return False
        return self.check(self.ground(st.facts), cond) != "unsat"

    def simp_for(self, st):
        """-> callback: is this condition provable from the (ground) path facts?  Used only to simplify terms."""
        if self.discovery:
            return None
        from . import solve
        g = self.ground(st.facts)
        quant = [f for f in solve.flatten_and(st.facts) if solve._has_quant(f)]

        def simp(cond):
            c = z3.simplify(cond)
            if z3.is_true(c):
                return True
            if z3.is_false(c):
                return False
            if self.check(g, z3.Not(cond), timeout=200) == "unsat":
                return True
            if quant:
                insts = solve.instantiate(quant, g + [cond])
                return self.check(g + insts, z3.Not(cond), timeout=500) == "unsat"
            return False
        return simp

    def fork(self, st, cond, label=""):
        """Split st on cond -> (st_true|None, st_false|None) with infeasible sides pruned."""
        cs = z3.simplify(cond)
        if z3.is_true(cs):
            return st, None
        if z3.is_false(cs):
            return None, st
        a = b = None
        if self.feasible(st, cond):
            a = st.copy()
            a.assume(cond)
            a.trace.append(label + "+")
        if self.feasible(st, z3.Not(cond)):
            b = st.copy()
            b.assume(z3.Not(cond))
            b.trace.append(label + "-")
        return a, b

    def oblige(self, name, st, goal, kind, line=None, expect="unsat"):
        if self.discovery:
            return
        self.obligations.append(Obligation("%s/%s" % (self.fn, name), st.facts, goal, kind, self.fn, expect=expect,
                                           trace=st.trace, bounded=st.bounded, line=line, model_vars=self.model_vars))
        self.obligations[-1].contract = self.c

    # =====================================================================================
    # locations (mutable containers / fields)
    # =====================================================================================
    def read_var(self, st, name):
        if name not in st.vars:
            raise Unsupported("unbound variable %r (line-local analysis: assigned on no path so far)" % name)
        v = st.vars[name]
        if isinstance(v, Box):
            return st.boxes[v.id]
        if isinstance(v, FieldAlias):
            return SV(v.t, smart_select(self.spec.heap_array(st, v.key, v.t), v.obj))
        return v

    def is_container(self, t):
        return isinstance(t, (ty.Seq, ty.Map, ty.Set))

    def assign_var(self, st, name, val, src_node=None):
        """name = val.  Containers are boxed; `x = y` / `x = obj.f` alias."""
        if self.inline_depth == 0:
            st.log_write(("var", name))     # locals of an inlined callee live in its own frame
        decl = self.c.locals.get(name) if self.inline_depth == 0 else None
        if isinstance(val, (Closure,)):
            st.vars[name] = val
            return
        if decl is not None:
            val = ops.coerce(val, self.spec.T(decl))
        self.var_types[name] = val.t
        if isinstance(val.t, ty.RefT) and not self.discovery:
            self.type_facts(st, val)   # type invariant: a value of declared class C is an instance of C
        if self.is_container(val.t):
            if isinstance(src_node, ast.Name) and isinstance(st.vars.get(src_node.id), (Box, FieldAlias)):
                st.vars[name] = st.vars[src_node.id]
                return
            if isinstance(src_node, ast.Attribute):
                loc = getattr(val, "_loc", None)
                if loc is not None:
                    st.vars[name] = FieldAlias(loc[0], loc[1], val.t)
                    return
            b = Box()
            st.vars[name] = b
            st.boxes[b.id] = SV(val.t, val.e)
            return
        st.vars[name] = val

    def write_field(self, st, obj, field, val):
        if isinstance(obj.t, ty.Opt):
            obj = ty.opt_val(obj)
        key, ftext = self.reg.field_key(obj.t.cls, field)
        if key is None:
            raise Unsupported("no field %s.%s declared" % (obj.t.cls, field))
        ft = self.spec.T(ftext)
        val = ops.coerce(val, ft)
        arr = self.spec.heap_array(st, key, ft)
        st.heap[key] = smart_store(arr, obj.e, val.e)
        st.heap_t[key] = ft
        st.log_write(("heap", key, obj.e))

    def store_loc(self, st, node, val):
        """Write a (new) container value back to the location denoted by expression `node`."""
        if isinstance(node, ast.Name):
            v = st.vars.get(node.id)
            if isinstance(v, Box):
                old = st.boxes[v.id]
                if old.e is None or old.t != val.t:
                    self.var_types[node.id] = val.t
                st.boxes[v.id] = val
                st.log_write(("box", v.id, node.id))
                return
            if isinstance(v, FieldAlias):
                arr = self.spec.heap_array(st, v.key, v.t)
                st.heap[v.key] = smart_store(arr, v.obj, ops.coerce(val, v.t).e)
                st.log_write(("heap", v.key, v.obj))
                return
            raise Unsupported("mutation of non-container variable %s" % node.id)
        if isinstance(node, ast.Attribute):
            objs = self.spec.eval(node.value, Env(st))
            self.write_field(st, objs, node.attr, val)
            return
        raise Unsupported("mutation through %s" % type(node).__name__)

    # =====================================================================================
    # expressions (code mode): returns [(state, SV)], raise outcomes go to sink
    # =====================================================================================
    def ev(self, node, st, sink):
        m = getattr(self, "x_" + type(node).__name__, None)
        if m is None:
            raise Unsupported("expression %s at line %s" % (type(node).__name__, getattr(node, "lineno", "?")))
        return m(node, st, sink)

    def ev_list(self, nodes, st, sink):
        """Evaluate several expressions left to right -> [(state, [SV...])]."""
        acc = [(st, [])]
        for n in nodes:
            nxt = []
            for s, vals in acc:
                for s2, v in self.ev(n, s, sink):
                    nxt.append((s2, vals + [v]))
            acc = nxt
        return acc

    def raise_(self, st, cls, sink, origin="", exact=True):
        sink.append(Outcome("raise", st, exc=Exc(cls, exact, origin)))

    def cases(self, st, cases, sink, origin):
        """Turn operation cases into continuing states and raise outcomes."""
        out = []
        for cond, kind, payload in cases:
            cs = z3.simplify(cond)
            if z3.is_false(cs):
                continue
            if z3.is_true(cs):
                s2 = st
            else:
                if not self.feasible(st, cond):
                    continue
                s2 = st.copy()
                s2.assume(cond)
            if kind == "val":
                out.append((s2, payload))
            else:
                s2.trace.append("%s@%s" % (payload, origin))
                self.raise_(s2, payload, sink, origin)
        return out

    def x_Constant(self, node, st, sink):
        return [(st, self.spec.e_Constant(node, None))]

    def x_Name(self, node, st, sink):
        if node.id in st.vars:
            v = st.vars[node.id]
            if isinstance(v, Closure):
                return [(st, v)]
            return [(st, self.read_var(st, node.id))]
        if node.id in ("True", "False", "None"):
            return [(st, self.spec.e_Constant(ast.Constant({"True": True, "False": False, "None": None}[node.id]), None))]
        if node.id in self.reg.constants:
            return [(st, self.spec.const(node.id))]
        raise Unsupported("unbound name %r at line %s" % (node.id, node.lineno))

    def x_Attribute(self, node, st, sink):
        dotted = _dotted(node)
        if dotted and dotted in self.reg.constants:
            return [(st, self.spec.const(dotted))]
        out = []
        for s, obj in self.ev(node.value, st, sink):
            out += self.attr_of(s, obj, node.attr, sink, node)
        return out

    def attr_of(self, s, obj, attr, sink, node):
        if isinstance(obj.t, ty.Opt):
            # attribute access on None raises AttributeError
            isn = ty.opt_is_none(obj)
            res = []
            for c, k, p in [(z3.Not(isn), "val", ty.opt_val(obj)), (isn, "exc", "AttributeError")]:
                for s2, v in self.cases(s, [(c, k, p)], sink, "L%d" % node.lineno):
                    res += self.attr_of(s2, v, attr, sink, node)
            return res
        if isinstance(obj.t, ty.RefT) and attr == "__class__":
            # the class of an object, as its class id (only ever compared for equality)
            return [(s, SV(ty.Int, ty.typeof(obj.e)))]
        if isinstance(obj.t, ty.RefT):
            key, _ = self.reg.field_key(obj.t.cls, attr)
            if key is not None:
                v, key, ft = self.spec.read_field(s, obj, attr)
                if isinstance(ft, ty.RefT):
                    self.type_facts(s, v)      # heap type invariant: a field holds an object of its declared class
                    if z3.is_app(v.e) and v.e.decl().kind() == z3.Z3_OP_SELECT and str(v.e.arg(0)).startswith("H0_"):
                        s.assume(ty.born(v.e) <= 0)   # read from the entry heap: the object existed at entry
                if self.is_container(ft):
                    v = _LocSV(v.t, v.e, (obj.e, key))
                return [(s, v)]
            c = self.reg.find_method(obj.t.cls, attr)
            if c is not None and c.is_property:
                return self.call_contract(c, [obj], {}, s, sink, node)
        raise Unsupported("attribute .%s of %s at line %s" % (attr, obj.t, node.lineno))

    def x_Subscript(self, node, st, sink):
        out = []
        if isinstance(node.slice, ast.Slice):
            parts = [node.value] + [p for p in (node.slice.lower, node.slice.upper) if p is not None]
            if node.slice.step is not None:
                raise Unsupported("slice step")
            for s, vals in self.ev_list(parts, st, sink):
                v = vals[0]
                rest = vals[1:]
                a = rest.pop(0) if node.slice.lower is not None else None
                b = rest.pop(0) if node.slice.upper is not None else None
                if isinstance(v.t, ty.Opt):
                    v = ty.opt_val(v)
                # a bound that may be None: None means "no bound" (s[a:None] == s[a:])
                variants = [(s, a, b)]
                for which in (0, 1):
                    nxt = []
                    for s1, a1, b1 in variants:
                        x = (a1, b1)[which]
                        if x is not None and isinstance(x.t, ty.Opt):
                            isn = ty.opt_is_none(x)
                            for s2, pick in self.cases(s1, [(z3.Not(isn), "val", ty.opt_val(x)), (isn, "val", None)], sink, "L%d" % node.lineno):
                                nxt.append((s2, pick, b1) if which == 0 else (s2, a1, pick))
                        else:
                            nxt.append((s1, a1, b1))
                    variants = nxt
                for s1, a1, b1 in variants:
                    out.append((s1, ops.slice_(v, a1, b1, simp=self.simp_for(s1))))
            return out
        for s, (v, i) in self.ev_list([node.value, node.slice], st, sink):
            if isinstance(v.t, ty.Opt):
                v = ty.opt_val(v)
            if isinstance(v.t, ty.Map):
                k = ops.coerce(i, v.t.key)
                o = SV(ty.Opt(v.t.val), z3.Select(v.e, k.e))
                cs = [(z3.Not(ty.opt_is_none(o)), "val", ty.opt_val(o)), (ty.opt_is_none(o), "exc", "KeyError")]
            else:
                cs = ops.index(v, i, simp=self.simp_for(s))
            out += self.cases(s, cs, sink, "L%d" % node.lineno)
        return out

    def x_BinOp(self, node, st, sink):
        out = []
        for s, (a, b) in self.ev_list([node.left, node.right], st, sink):
            if isinstance(node.op, ast.Mod) and a.t == ty.Str:
                fmt = node.left.value if isinstance(node.left, ast.Constant) and isinstance(node.left.value, str) else None
                if fmt is not None and fmt.count("%") == 1 and fmt.count("%s") == 1 and b.t == ty.Str and b.e is not None and z3.is_string(a.e):
                    # a literal format with a single %s applied to a str: prefix + argument + suffix
                    pre, suf = fmt.split("%s")
                    out.append((s, SV(ty.Str, z3.Concat(z3.StringVal(pre), b.e, z3.StringVal(suf)) if pre and suf else
                                   (z3.Concat(z3.StringVal(pre), b.e) if pre else (z3.Concat(b.e, z3.StringVal(suf)) if suf else b.e)))))
                    continue
                out.append((s, ty.fresh(ty.Str, "fmt")))  # % formatting: opaque string
                continue
            if isinstance(node.op, ast.Mult) and a.t == ty.Str and b.t == ty.Int and isinstance(node.left, ast.Constant) \
                    and isinstance(node.left.value, str) and len(node.left.value) == 1 and z3.is_string(a.e):
                # "c" * n : n copies of the character (empty when n <= 0)
                r = ty.fresh(ty.Str, "rep")
                k = z3.Int("k!rep%d" % id(node))
                s = s.copy()
                s.assume(z3.Length(r.e) == z3.If(b.e > 0, b.e, 0))
                s.assume(z3.ForAll([k], z3.Implies(z3.And(0 <= k, k < z3.Length(r.e)), z3.SubString(r.e, k, 1) == a.e)))
                out.append((s, r))
                continue
            # None as an operand of an arithmetic operator raises TypeError
            variants = [(s, a, b)]
            for which in (0, 1):
                nxt = []
                for s1, a1, b1 in variants:
                    x = (a1, b1)[which]
                    if isinstance(x.t, ty.Opt) and isinstance(x.t.elem, type(ty.Int)) and x.t.elem == ty.Int:
                        isn = ty.opt_is_none(x)
                        for s2, pick in self.cases(s1, [(z3.Not(isn), "val", ty.opt_val(x)), (isn, "exc", "TypeError")], sink, "L%d" % node.lineno):
                            nxt.append((s2, pick, b1) if which == 0 else (s2, a1, pick))
                    else:
                        nxt.append((s1, a1, b1))
                variants = nxt
            for s1, a1, b1 in variants:
                out += self.cases(s1, ops.binop(type(node.op).__name__, a1, b1), sink, "L%d" % node.lineno)
        return out

    def x_UnaryOp(self, node, st, sink):
        out = []
        for s, v in self.ev(node.operand, st, sink):
            if isinstance(node.op, ast.Not):
                out.append((s, SV(ty.Bool, z3.Not(ops.truthy(v)))))
            elif isinstance(node.op, ast.USub):
                out.append((s, SV(ty.Int, -v.e)))
            else:
                raise Unsupported("unary")
        return out

    def x_BoolOp(self, node, st, sink):
        # short-circuit: fork so that the right operand is only evaluated when Python evaluates it
        is_and = isinstance(node.op, ast.And)
        results = []
        pending = [(st, None)]
        for idx, vn in enumerate(node.values):
            nxt = []
            last = idx == len(node.values) - 1
            for s, _ in pending:
                for s2, v in self.ev(vn, s, sink):
                    if last:
                        results.append((s2, v))
                        continue
                    t, f = self.fork(s2, ops.truthy(v), "L%d.%s%d" % (vn.lineno, "and" if is_and else "or", idx))
                    cont, stop = (t, f) if is_and else (f, t)
                    if stop is not None:
                        results.append((stop, v))
                    if cont is not None:
                        nxt.append((cont, None))
            pending = nxt
        return results

    def x_Compare(self, node, st, sink):
        out = []
        for s, vals in self.ev_list([node.left] + node.comparators, st, sink):
            if len(node.ops) == 1 and isinstance(node.ops[0], (ast.Eq, ast.NotEq)) and isinstance(vals[0].t, ty.RefT):
                # a class with its own __eq__ under contract: `a == b` is a call of it (otherwise == on objects is identity)
                c = self.reg.find_method(vals[0].t.cls, "__eq__")
                if c is not None:
                    for s2, r in self.call_contract(c, [vals[0], vals[1]], {}, s, sink, node):
                        b = ops.truthy(r)
                        out.append((s2, SV(ty.Bool, z3.Not(b) if isinstance(node.ops[0], ast.NotEq) else b)))
                    continue
            # None as the container of `in`, or as an operand of an ordering comparison, raises TypeError
            need = []
            for k, op in enumerate(node.ops):
                if isinstance(op, (ast.In, ast.NotIn)) and isinstance(vals[k + 1].t, ty.Opt):
                    need.append(k + 1)
                if isinstance(op, (ast.Lt, ast.LtE, ast.Gt, ast.GtE)):
                    need += [j for j in (k, k + 1) if isinstance(vals[j].t, ty.Opt)]
            states = [(s, vals)]
            for j in need:
                nxt = []
                for s1, vs in states:
                    if not isinstance(vs[j].t, ty.Opt):
                        nxt.append((s1, vs))
                        continue
                    isn = ty.opt_is_none(vs[j])
                    for s2, v in self.cases(s1, [(z3.Not(isn), "val", ty.opt_val(vs[j])), (isn, "exc", "TypeError")], sink, "L%d" % node.lineno):
                        vs2 = list(vs)
                        vs2[j] = v
                        nxt.append((s2, vs2))
                states = nxt
            for s1, vs in states:
                es = []
                for k, op in enumerate(node.ops):
                    es.append(ops.compare(type(op).__name__, vs[k], vs[k + 1]))
                out.append((s1, SV(ty.Bool, es[0] if len(es) == 1 else z3.And(*es))))
        return out

    def x_IfExp(self, node, st, sink):
        out = []
        for s, c in self.ev(node.test, st, sink):
            t, f = self.fork(s, ops.truthy(c), "L%d.ifexp" % node.lineno)
            if t is not None:
                out += self.ev(node.body, t, sink)
            if f is not None:
                out += self.ev(node.orelse, f, sink)
        return out

    def x_Tuple(self, node, st, sink):
        return [(s, ops.make_tuple(vals)) for s, vals in self.ev_list(node.elts, st, sink)]

    def x_List(self, node, st, sink):
        if not node.elts:
            return [(st, SV(ty.Seq(ty.Any), None))]
        out = []
        for s, vals in self.ev_list(node.elts, st, sink):
            t = vals[0].t
            us = [z3.Unit(ops.coerce(p, t).e) for p in vals]
            out.append((s, SV(ty.Seq(t), us[0] if len(us) == 1 else z3.Concat(*us))))
        return out

    def x_Dict(self, node, st, sink):
        if node.keys:
            raise Unsupported("non-empty dict literal")
        return [(st, SV(ty.Map(ty.Any, ty.Any), None))]

    def x_JoinedStr(self, node, st, sink):
        # f-string: the parts are evaluated (they may raise), the result is an opaque string
        parts = [v.value for v in node.values if isinstance(v, ast.FormattedValue)]
        return [(s, ty.fresh(ty.Str, "fstr")) for s, _ in self.ev_list(parts, st, sink)]

    def x_ListComp(self, node, st, sink):
        """[elt for x in xs if c]  ==  _comp = []; for x in xs: if c: _comp.append(elt)   (loop spec by ordinal)"""
        if len(node.generators) != 1 or node.generators[0].is_async:
            raise Unsupported("comprehension with several generators")
        g = node.generators[0]
        tmp = "_comp"
        app = ast.Expr(ast.Call(func=ast.Attribute(value=ast.Name(id=tmp, ctx=ast.Load()), attr="append", ctx=ast.Load()), args=[node.elt], keywords=[]))
        body = [app]
        for cond in reversed(g.ifs):
            body = [ast.If(test=cond, body=body, orelse=[])]
        loop = ast.For(target=g.target, iter=g.iter, body=body, orelse=[])
        for n in ast.walk(loop):
            ast.copy_location(n, node)
        ast.fix_missing_locations(loop)
        self.cur_loops[id(loop)] = self.cur_loops.get(id(node))
        saved = {k: st.vars.get(k) for k in [tmp] + [n.id for n in ast.walk(g.target) if isinstance(n, ast.Name)]}
        decl = self.cur_contract.loops.get(self.cur_loops.get(id(node)), {}).get("elem")
        init = SV(ty.Seq(ty.Any), None) if decl is None else ty.empty_seq(ty.Seq(self.spec.T(decl)))
        self.assign_var(st, tmp, init)
        out = []
        for o in self.s_For(loop, st):
            if o.kind == "normal":
                v = self.read_var(o.st, tmp)
                for k, old in saved.items():
                    if old is None:
                        o.st.vars.pop(k, None)
                    else:
                        o.st.vars[k] = old
                out.append((o.st, SV(v.t, v.e)))
            elif o.kind == "raise":
                sink.append(o)
            else:
                raise Unsupported("control flow out of a comprehension")
        return out

    def x_Lambda(self, node, st, sink):
        return [(st, Closure(node))]

    # ---- calls ---------------------------------------------------------------------------
    def x_Call(self, node, st, sink):
        from . import calls
        return calls.eval_call(self, node, st, sink)


class _LocSV(SV):
    """A container value read from a field; remembers where it lives so `x = obj.f` can alias."""
    __slots__ = ("_loc",)

    def __init__(self, t, e, loc):
        SV.__init__(self, t, e)
        self._loc = loc

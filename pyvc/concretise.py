"""From a counter-model to concrete Python inputs, and replay against the real function."""
import importlib
import json
import os
import traceback
import z3
from . import vtypes as ty
from . import solve
from .vtypes import SV


def model_for(ob, timeout_ms=10000):
    """Re-solve the failing obligation in-process (ground instances; then full) to obtain a z3 model."""
    for which in ("ground", "full"):
        for extra, g in solve.skolemize_goal(ob.goal):
            hyps = [h for h in solve.flatten_and([solve.norm(h) for h in solve.flatten_and(ob.hyps)]) if not z3.is_true(h)]
            hyps += solve.flatten_and([solve.norm(x) for x in solve.flatten_and(extra)])
            ng = solve.norm(z3.Not(g))
            ground = [h for h in hyps if not solve._has_quant(h)] + [ng]
            quant = [h for h in hyps if solve._has_quant(h)]
            insts = solve.instantiate(quant, ground)
            insts += solve.ematch(quant, ground + insts)
            s = z3.Solver()
            s.set("timeout", timeout_ms)
            for f in ground + insts + (quant if which == "full" else []):
                s.add(f)
            if s.check() == z3.sat:
                return s.model(), which
    return None, None


class Decoder:
    def __init__(self, reg, spec, model, strmode):
        self.reg, self.spec, self.m, self.strmode = reg, spec, model, strmode
        self.objs = {}

    def ev(self, e):
        return self.m.eval(e, model_completion=True)

    def decode(self, sv, depth=0):
        t = sv.t
        v = self.ev(sv.e)
        if t == ty.Int:
            return v.as_long()
        if t == ty.Bool:
            return z3.is_true(v)
        if t == ty.NoneT:
            return None
        if t == ty.Str:
            if self.strmode == "string":
                return v.as_string() if z3.is_string_value(v) else self._seq(sv, lambda e: self.ev(e).as_string())
            codes = self._seq_items(sv.e)
            return "".join(chr(c) if 0 <= c < 0x110000 and not 0xD800 <= c < 0xE000 else "?" for c in (self.ev(c).as_long() for c in codes))
        if isinstance(t, ty.Opt):
            if z3.is_true(self.ev(ty.opt_is_none(sv))):
                return None
            return self.decode(ty.opt_val(sv), depth)
        if isinstance(t, ty.Seq):
            return [self.decode(SV(t.elem, e), depth + 1) for e in self._seq_items(sv.e)]
        if isinstance(t, ty.Tuple):
            from . import ops
            return tuple(self.decode(p, depth + 1) for p in ops.tuple_parts(sv))
        if isinstance(t, ty.RefT):
            return self.decode_obj(sv, depth)
        if isinstance(t, ty.Opaque):
            return "<%s>" % v
        if isinstance(t, (ty.Map, ty.Set)):
            return "<%s %s>" % (t, v)
        return str(v)

    def _seq_items(self, e):
        n = self.ev(z3.Length(e)).as_long()
        return [e[i] for i in range(min(n, 64))]

    def decode_obj(self, sv, depth):
        ref = self.ev(sv.e)
        key = str(ref)
        cid = self.ev(ty.typeof(ref)).as_long()
        cls = next((n for n, r in self.reg.records.items() if r.cid == cid), sv.t.cls)
        if key in self.objs or depth > 3:
            return self.objs.get(key, {"__class__": cls, "__ref__": key})
        d = {"__class__": cls, "__ref__": key}
        self.objs[key] = d
        for c in self.reg.mro(cls):
            for f, ftext in self.reg.records[c].fields.items():
                ft = self.spec.T(ftext)
                arr = z3.Const("H0_%s_%s" % (c, f), z3.ArraySort(ty.Ref, ty.sort_of(ft)))
                try:
                    d[f] = self.decode(SV(ft, z3.Select(arr, ref)), depth + 1)
                except Exception as e:  # partial models are fine for replay purposes
                    d[f] = "<undecodable: %s>" % e
        return d


def build_object(reg, d, built=None):
    """Generic builder: object.__new__(pyclass) + setattr per declared field."""
    built = built if built is not None else {}
    if isinstance(d, list):
        return [build_object(reg, x, built) for x in d]
    if isinstance(d, tuple):
        return tuple(build_object(reg, x, built) for x in d)
    if not (isinstance(d, dict) and "__class__" in d):
        return d
    if d["__ref__"] in built:
        return built[d["__ref__"]]
    rec = reg.records[d["__class__"]]
    pc = getattr(rec, "pyclass", None)
    if pc is None:
        raise LookupError("record %s has no pyclass; cannot build a real object" % rec.name)
    mod, cls = pc.split(":")
    klass = getattr(importlib.import_module(mod), cls)
    obj = object.__new__(klass)
    built[d["__ref__"]] = obj
    for k, v in d.items():
        if k.startswith("__"):
            continue
        setattr(obj, k, build_object(reg, v, built))
    return obj


def jsonable(v, depth=0):
    if isinstance(v, (str, int, bool)) or v is None:
        return v
    if depth > 6:
        return "<...>"
    if isinstance(v, (list, tuple)):
        return [jsonable(x, depth + 1) for x in v]
    if isinstance(v, dict):
        return {str(k): jsonable(x, depth + 1) for k, x in v.items()}
    if hasattr(v, "__dict__") and depth < 3:
        return {"__class__": type(v).__name__, **{k: jsonable(x, depth + 1) for k, x in vars(v).items()}}
    return repr(v)

"""Loops: inductive invariants (unbounded) or unrolling (bounded, labelled)."""
import ast
import z3
from . import vtypes as ty
from . import ops
from .vtypes import SV
from .ops import Unsupported
from .state import State, Outcome, Exc, FieldAlias, Box
from .spec import Env, _dotted, smart_select, smart_store


def number_loops(fnode):
    """Loop ordinals in source order (1-based), comprehensions included."""
    out = {}
    n = 0
    for node in _walk_in_order(fnode):
        if isinstance(node, (ast.For, ast.While, ast.ListComp, ast.GeneratorExp, ast.SetComp, ast.DictComp)):
            n += 1
            out[id(node)] = n
    return out


def _walk_in_order(node):
    yield node
    for child in ast.iter_child_nodes(node):
        if isinstance(child, (ast.FunctionDef, ast.AsyncFunctionDef, ast.ClassDef)) and child is not node:
            continue
        yield from _walk_in_order(child)


def assigned_names(stmts):
    names = set()
    for s in stmts:
        for node in ast.walk(s):
            if isinstance(node, ast.Name) and isinstance(node.ctx, (ast.Store, ast.Del)):
                names.add(node.id)
            elif isinstance(node, ast.AugAssign) and isinstance(node.target, ast.Name):
                names.add(node.target.id)
            elif isinstance(node, ast.ExceptHandler) and node.name:
                names.add(node.name)
    return names


class IterDesc:
    def __init__(self, n, elem, exact_len=None):
        self.n, self.elem, self.exact_len = n, elem, exact_len


class LoopMixin:
    def loop_spec(self, node):
        ordn = self.cur_loops.get(id(node))
        spec = self.cur_contract.loops.get(ordn)
        return ordn, spec

    # ---- iteration descriptors ------------------------------------------------------------
    def iter_desc(self, node, st, sink):
        """-> [(state, IterDesc)]"""
        if isinstance(node, ast.Call) and isinstance(node.func, ast.Name) and node.func.id in ("reversed", "enumerate", "range", "zip", "list", "tuple", "sorted", "chain"):
            fn = node.func.id
            if fn in ("list", "tuple"):
                return self.iter_desc(node.args[0], st, sink)
            if fn == "reversed":
                out = []
                for s, d in self.iter_desc(node.args[0], st, sink):
                    out.append((s, IterDesc(d.n, (lambda d: lambda i: d.elem(d.n - 1 - i))(d), d.exact_len)))
                return out
            if fn == "enumerate":
                out = []
                for s, d in self.iter_desc(node.args[0], st, sink):
                    out.append((s, IterDesc(d.n, (lambda d: lambda i: ops.make_tuple([SV(ty.Int, i), d.elem(i)]))(d), d.exact_len)))
                return out
            if fn == "range":
                out = []
                for s, vals in self.ev_list(node.args, st, sink):
                    # range(None) raises TypeError: an Optional[int] bound forks into that failure and the plain integer
                    for q, v in enumerate(vals):
                        if isinstance(v.t, ty.Opt) and v.t.elem == ty.Int:
                            isn = ty.opt_is_none(v)
                            got = self.cases(s, [(z3.Not(isn), "val", ty.opt_val(v)), (isn, "exc", "TypeError")], sink, "L%d" % node.lineno)
                            if not got:
                                vals = None
                                break
                            s, vals = got[0][0], list(vals)
                            vals[q] = got[0][1]
                    if vals is None:
                        continue
                    if len(vals) == 1:
                        lo, hi = z3.IntVal(0), vals[0].e
                    elif len(vals) == 2:
                        lo, hi = vals[0].e, vals[1].e
                    else:
                        raise Unsupported("range with step")
                    n = z3.If(hi - lo < 0, 0, hi - lo)
                    out.append((s, IterDesc(n, (lambda lo: lambda i: SV(ty.Int, lo + i))(lo))))
                return out
            if fn == "zip":
                out = []
                da = self.iter_desc(node.args[0], st, sink)
                for s, a in da:
                    for s2, b in self.iter_desc(node.args[1], s, sink):
                        n = z3.If(a.n <= b.n, a.n, b.n)
                        out.append((s2, IterDesc(n, (lambda a, b: lambda i: ops.make_tuple([a.elem(i), b.elem(i)]))(a, b))))
                return out
            if fn == "chain" and len(node.args) == 2:
                # itertools.chain(a, b): the elements of a, then those of b
                out = []
                for s, a in self.iter_desc(node.args[0], st, sink):
                    for s2, b in self.iter_desc(node.args[1], s, sink):
                        def elem(i, a=a, b=b):
                            ea, eb = a.elem(i), b.elem(i - a.n)
                            if ea is None:
                                return eb
                            if eb is None:
                                return ea
                            return SV(ea.t, z3.If(i < a.n, ea.e, ops.coerce(eb, ea.t).e))
                        out.append((s2, IterDesc(a.n + b.n, elem)))
                return out
            raise Unsupported("iteration over %s(...)" % fn)
        if isinstance(node, ast.Call) and isinstance(node.func, ast.Attribute) and node.func.attr == "items" and not node.args:
            # dict.items(): an (unordered here) sequence of (key, value) pairs, each of which is an entry of the dict;
            # "every entry occurs" and the insertion order are not encoded -- enough for frame and per-entry facts
            out = []
            for s, v in self.ev(node.func.value, st, sink):
                if isinstance(v.t, ty.Opt):
                    v = ty.opt_val(v)
                if not isinstance(v.t, ty.Map):
                    raise Unsupported(".items() on %s" % v.t)
                if v.e is None:
                    out.append((s, IterDesc(z3.IntVal(0), lambda i: None, 0)))
                    continue
                tt = ty.Tuple([v.t.key, v.t.val])
                items = ty.fresh(ty.Seq(tt), "items")
                q = z3.Int("q!items%d" % self._fresh())
                el = SV(tt, items.e[q])
                k_, val_ = ops.tuple_parts(el)
                s.assume(z3.ForAll([q], z3.Implies(z3.And(0 <= q, q < z3.Length(items.e)), z3.Select(v.e, k_.e) == ty.opt_some(val_).e)))
                # every key occurs (at the witness position where!(key)) and no key occurs twice
                kk = z3.Const("k!items%d" % self._fresh(), ty.sort_of(v.t.key))
                where = z3.Function("where_items!%d" % self._fresh(), ty.sort_of(v.t.key), z3.IntSort())
                kw_, _ = ops.tuple_parts(SV(tt, items.e[where(kk)]))
                s.assume(z3.ForAll([kk], z3.Implies(z3.Not(ty.opt_is_none(SV(ty.Opt(v.t.val), z3.Select(v.e, kk)))),
                                                   z3.And(0 <= where(kk), where(kk) < z3.Length(items.e), kw_.e == kk)),
                                   patterns=[z3.Select(v.e, kk)]))
                q2 = z3.Int("q2!items%d" % self._fresh())
                k2_, _ = ops.tuple_parts(SV(tt, items.e[q2]))
                s.assume(z3.ForAll([q, q2], z3.Implies(z3.And(0 <= q, q < q2, q2 < z3.Length(items.e)), k_.e != k2_.e)))
                self.assumptions.add("dict.items(): modelled as an enumeration of the dict's entries, each key exactly once; the insertion order is not encoded")
                out.append((s, IterDesc(z3.Length(items.e), (lambda items, tt: lambda i: SV(tt, items.e[i]))(items, tt))))
            return out
        out = []
        for s, v in self.ev(node, st, sink):
            if isinstance(v.t, ty.Opt):
                v = ty.opt_val(v)
            if v.e is None:
                out.append((s, IterDesc(z3.IntVal(0), lambda i: None, 0)))
            elif isinstance(v.t, ty.Seq):
                out.append((s, IterDesc(z3.Length(v.e), (lambda v: lambda i: SV(v.t.elem, v.e[i]))(v))))
            elif v.t == ty.Str:
                out.append((s, IterDesc(z3.Length(v.e), (lambda v: lambda i: SV(ty.Str, z3.SubSeq(v.e, i, 1)))(v))))
            elif isinstance(v.t, ty.Set):
                # iteration over a set: some sequence that enumerates exactly the members (order unspecified, repetitions harmless for the
                # properties proved): every element is a member, every member occurs at position where(x)
                elems = ty.fresh(ty.Seq(v.t.key), "elems")
                q = z3.Int("q!set%d" % self._fresh())
                x = z3.Const("x!set%d" % self._fresh(), ty.sort_of(v.t.key))
                where = z3.Function("where!%d" % self._fresh(), ty.sort_of(v.t.key), z3.IntSort())
                s.assume(z3.ForAll([q], z3.Implies(z3.And(0 <= q, q < z3.Length(elems.e)), z3.Select(v.e, elems.e[q]))))
                s.assume(z3.ForAll([x], z3.Implies(z3.Select(v.e, x), z3.And(0 <= where(x), where(x) < z3.Length(elems.e), elems.e[where(x)] == x))))
                self.assumptions.add("iteration over a set: modelled as a sequence enumerating exactly its members (order unspecified)")
                out.append((s, IterDesc(z3.Length(elems.e), (lambda elems, t: lambda i: SV(t, elems.e[i]))(elems, v.t.key))))
            elif isinstance(v.t, ty.Map):
                keys = self.map_keys(s, v)
                out.append((s, IterDesc(z3.Length(keys.e), (lambda keys: lambda i: SV(keys.t.elem, keys.e[i]))(keys))))
            elif isinstance(v.t, ty.Tuple):
                parts = ops.tuple_parts(v)
                out.append((s, IterDesc(z3.IntVal(len(parts)), (lambda parts: lambda i: parts[i.as_long() if hasattr(i, "as_long") else i])(parts), len(parts))))
            else:
                raise Unsupported("iteration over %s" % v.t)
        return out

    def map_keys(self, s, v):
        """The keys of a dict as a sequence (iteration over the dict, list(d)): every element is a key, every key occurs exactly once
        (at the witness position where!(key)); the insertion order is not encoded."""
        keys = ty.fresh(ty.Seq(v.t.key), "keys")
        q = z3.Int("q!keys%d" % self._fresh())
        q2 = z3.Int("q2!keys%d" % self._fresh())
        x = z3.Const("x!keys%d" % self._fresh(), ty.sort_of(v.t.key))
        where = z3.Function("where_key!%d" % self._fresh(), ty.sort_of(v.t.key), z3.IntSort())
        present = lambda k: z3.Not(ty.opt_is_none(SV(ty.Opt(v.t.val), z3.Select(v.e, k))))
        s.assume(z3.ForAll([q], z3.Implies(z3.And(0 <= q, q < z3.Length(keys.e)), present(keys.e[q]))))
        s.assume(z3.ForAll([x], z3.Implies(present(x), z3.And(0 <= where(x), where(x) < z3.Length(keys.e), keys.e[where(x)] == x)), patterns=[z3.Select(v.e, x)]))
        s.assume(z3.ForAll([q, q2], z3.Implies(z3.And(0 <= q, q < q2, q2 < z3.Length(keys.e)), keys.e[q] != keys.e[q2])))
        self.assumptions.add("iteration over a dict / list(dict): an enumeration of the keys, each exactly once; the insertion order is not encoded")
        return keys

    # ---- for -------------------------------------------------------------------------------
    def s_For(self, stmt, st):
        sink = []
        outs = []
        ordn, spec = self.loop_spec(stmt)
        for s, d in self.iter_desc(stmt.iter, st, sink):
            if d.exact_len is not None:
                outs += self.unroll_for(stmt, s, d, d.exact_len, exact=True)
            elif spec is None or "inv" not in spec:
                k = (spec or {}).get("unroll")
                if k is None:
                    raise Unsupported("loop %s (line %d) has no invariant and no unroll bound" % (ordn, stmt.lineno))
                outs += self.unroll_for(stmt, s, d, k, exact=False)
            else:
                outs += self.inv_loop(stmt, s, spec, ordn, d)
        return outs + sink

    def unroll_for(self, stmt, st, d, k, exact):
        outs = []
        live = [st]
        for i in range(k):
            nxt = []
            for s in live:
                if not exact:
                    more, stop = self.fork(s, d.n > i, "L%d.iter%d" % (stmt.lineno - self.base_line, i))
                    if stop is not None:
                        outs += self.after_loop(stmt, stop)
                    if more is None:
                        continue
                    s = more
                sink = []
                cur = self.assign_target(stmt.target, d.elem(z3.IntVal(i)), s, sink)
                outs += sink
                for s1 in cur:
                    for o in self.exec_block(stmt.body, s1):
                        if o.kind in ("normal", "continue"):
                            nxt.append(o.st)
                        elif o.kind == "break":
                            outs.append(Outcome("normal", o.st))
                        else:
                            outs.append(o)
            live = nxt
        for s in live:
            if exact:
                outs += self.after_loop(stmt, s)
            else:
                done, more = self.fork(s, d.n <= k, "L%d.unwind" % (stmt.lineno - self.base_line))
                if more is not None:
                    self.bounded_notes.add("loop at L%d unrolled %d times (longer iterations not explored)" % (stmt.lineno - self.base_line, k))
                if done is not None:
                    done.bounded = done.bounded or (more is not None)
                    outs += self.after_loop(stmt, done)
        return outs

    def after_loop(self, stmt, st):
        if stmt.orelse:
            return self.exec_block(stmt.orelse, st)
        return [Outcome("normal", st)]

    # ---- while -----------------------------------------------------------------------------
    def s_While(self, stmt, st):
        ordn, spec = self.loop_spec(stmt)
        if spec is None or "inv" not in spec:
            k = (spec or {}).get("unroll")
            if k is None:
                raise Unsupported("loop %s (line %d) has no invariant and no unroll bound" % (ordn, stmt.lineno))
            return self.unroll_while(stmt, st, k)
        return self.inv_loop(stmt, st, spec, ordn, None)

    def unroll_while(self, stmt, st, k):
        outs = []
        live = [st]
        for i in range(k + 1):
            nxt = []
            for s in live:
                sink = []
                for s1, c in self.ev(stmt.test, s, sink):
                    t, f = self.fork(s1, ops.truthy(c), "L%d.while%d" % (stmt.lineno - self.base_line, i))
                    if f is not None:
                        outs += self.after_loop(stmt, f)
                    if t is not None:
                        if i == k:
                            self.bounded_notes.add("while at L%d unrolled %d times" % (stmt.lineno - self.base_line, k))
                            continue
                        for o in self.exec_block(stmt.body, t):
                            if o.kind in ("normal", "continue"):
                                nxt.append(o.st)
                            elif o.kind == "break":
                                outs.append(Outcome("normal", o.st))
                            else:
                                outs.append(o)
                outs += sink
            live = nxt
        for o in outs:
            o.st.bounded = True
        return outs

    # ---- invariant-based ----------------------------------------------------------------------
    def inv_env(self, st, spec, idx, d=None):
        # invariants see the *current* values of variables (parameters included); entry values are reached through old(...)
        loc = {k: v for k, v in self.entry_locals.items() if k not in st.vars}
        if idx is not None:
            loc[spec.get("index", "_i")] = SV(ty.Int, idx)
        if d is not None:
            loc["elem_at"] = lambda k: d.elem(k.e)      # the k-th element of the iterated sequence, for invariants
        return Env(st, self.entry, loc)

    def havoc_writes(self, st, writes, stable_objs):
        h = st
        for w in sorted(writes, key=str):
            if w[0] == "var":
                name = w[1]
                cur = h.vars.get(name)
                if isinstance(cur, Box):
                    h.boxes[cur.id] = ty.fresh(h.boxes[cur.id].t, name) if h.boxes[cur.id].e is not None else self._havoc_typed(name)
                elif isinstance(cur, FieldAlias):
                    pass  # rebinding an alias inside a loop: handled by the heap write
                elif isinstance(cur, SV):
                    t = self.spec.T(self.cur_contract.locals[name]) if name in self.cur_contract.locals else cur.t
                    h.vars[name] = ty.fresh(t, name)
                elif cur is None and name in self.var_types:
                    t = self.var_types[name]
                    if self.is_container(t):
                        b = Box()
                        h.vars[name] = b
                        h.boxes[b.id] = ty.fresh(t, name)
                    else:
                        h.vars[name] = ty.fresh(t, name)
            elif w[0] == "box":
                bid = w[1]
                if bid in h.boxes:
                    cur = h.boxes[bid]
                    t = cur.t if cur.e is not None else self.var_types.get(w[2], cur.t)
                    if isinstance(t, (ty.Seq, ty.Map, ty.Set)) and getattr(t, "elem", getattr(t, "key", None)) == ty.Any:
                        raise Unsupported("cannot type container %s for havoc (declare it in locals)" % w[2])
                    h.boxes[bid] = ty.fresh(t, w[2])
            elif w[0] == "heap":
                key, obj = w[1], w[2]
                ft = h.heap_t.get(key) or self.spec.T(self._ftext(key))
                arr = self.spec.heap_array(h, key, ft)
                if obj is not None and any(obj.eq(so) for so in stable_objs):
                    h.heap[key] = smart_store(arr, obj, ty.fresh(ft, key.split(".")[-1]).e)
                else:
                    h.heap[key] = z3.Const("H_%s!%d" % (key.replace(".", "_"), self._fresh()), z3.ArraySort(ty.Ref, ty.sort_of(ft)))
            elif w[0] == "ghost":
                h.ghost[w[1]] = ty.fresh(self.spec.T(self.reg.ghosts[w[1]]), w[1])
        return h

    def _havoc_typed(self, name):
        t = self.var_types.get(name)
        if t is None or getattr(t, "elem", None) == ty.Any:
            raise Unsupported("cannot type container %s for havoc (declare it in locals)" % name)
        return ty.fresh(t, name)

    def _ftext(self, key):
        cls, f = key.split(".")
        return self.reg.records[cls].fields[f]

    def discover_writes(self, stmt, st, d):
        """Fixpoint: havoc what is known to be written, run the body with pruning off, collect writes."""
        names = assigned_names(stmt.body)
        if isinstance(stmt, ast.For):
            names |= assigned_names([ast.Expr(stmt.target)]) | {n.id for n in ast.walk(stmt.target) if isinstance(n, ast.Name)}
        writes = {("var", n) for n in names}
        stable = [v.e for n, v in self.entry_locals.items() if isinstance(v, SV) and isinstance(v.t, ty.RefT) and n not in names]
        # a local that holds an object reference and is not assigned in the loop names the same object in every iteration
        stable += [v.e for n, v in st.vars.items() if isinstance(v, SV) and isinstance(v.t, ty.RefT) and n not in names and v.e is not None
                   and not any(v.e.eq(x) for x in stable)]
        for _ in range(5):
            probe = st.copy()
            self.havoc_writes(probe, writes, stable)
            probe.writes = set()
            self.discovery += 1
            new = set()
            try:
                sink = []
                if isinstance(stmt, ast.For):
                    i = z3.Int("disc_i!%d" % self._fresh())
                    starts = self.assign_target(stmt.target, d.elem(i), probe, sink)
                else:
                    starts = []
                    for s1, c in self.ev(stmt.test, probe, sink):
                        s1.assume(ops.truthy(c))
                        starts.append(s1)
                for s1 in starts:
                    for o in self.exec_block(stmt.body, s1):
                        # only paths that come back to the loop head carry their writes into the next iteration;
                        # a write followed by break / return / raise is seen by the code after the loop through that path's own state
                        if o.kind in ("normal", "continue") and o.st.writes is not None:
                            new |= o.st.writes
            finally:
                self.discovery -= 1
            if new <= writes:
                break
            writes |= new
        return writes, stable

    def inv_loop(self, stmt, st, spec, ordn, d):
        outs = []
        tag = "loop-%d" % ordn
        is_for = d is not None
        # 1. invariant holds on entry
        for k, inv in enumerate(spec["inv"]):
            self.oblige("%s/inv-init-%d" % (tag, k), st, self.spec.boolean(inv, self.inv_env(st, spec, z3.IntVal(0) if is_for else None, d)), "inv-init")
        # 2. havoc
        writes, stable = self.discover_writes(stmt, st, d)
        h = self.havoc_writes(st.copy(), writes, stable)
        h.writes = set(st.writes) | writes if st.writes is not None else None
        idx = None
        if is_for:
            idx = z3.Int("%s_%s!%d" % (spec.get("index", "_i"), tag, self._fresh()))
            h.assume(idx >= 0)
            h.assume(idx <= d.n)
        for inv in spec["inv"]:
            h.assume(self.spec.boolean(inv, self.inv_env(h, spec, idx, d)))
        # 3. one arbitrary iteration
        body_starts = []
        exits = []
        sink = []
        if is_for:
            b = h.copy()
            b.assume(idx < d.n)
            b.trace.append("%s:iteration" % tag)
            body_starts = self.assign_target(stmt.target, d.elem(idx), b, sink)
            e = h.copy()
            e.assume(idx == d.n)
            e.trace.append("%s:exit" % tag)
            if self.feasible(e):
                exits.append(e)
        else:
            for s1, c in self.ev(stmt.test, h.copy(), sink):
                t, f = self.fork(s1, ops.truthy(c), "%s:cond" % tag)
                if t is not None:
                    body_starts.append(t)
                if f is not None:
                    exits.append(f)
        outs += sink
        measure0 = None
        for b in body_starts:
            if "decreases" in spec:
                measure0 = self.spec.eval(spec["decreases"], self.inv_env(b, spec, idx)).e
            for o in self.exec_block(stmt.body, b):
                if o.kind in ("normal", "continue"):
                    nidx = idx + 1 if is_for else None
                    self._pres_paths[tag] = self._pres_paths.get(tag, 0) + 1
                    for k, inv in enumerate(spec["inv"]):
                        self.oblige("%s/inv-pres-%d%s" % (tag, k, "" if self._pres_paths[tag] == 1 else "@path-%d" % self._pres_paths[tag]), o.st, self.spec.boolean(inv, self.inv_env(o.st, spec, nidx, d)), "inv-pres")
                    if "decreases" in spec:
                        m1 = self.spec.eval(spec["decreases"], self.inv_env(o.st, spec, nidx)).e
                        self.oblige("%s/decreases" % tag, o.st, z3.And(measure0 >= 0, m1 < measure0), "decreases")
                elif o.kind == "break":
                    outs.append(Outcome("normal", o.st))
                else:
                    outs.append(o)
        # 4. after the loop
        for e in exits:
            outs += self.after_loop(stmt, e)
        if not is_for and "decreases" not in spec:
            self.assumptions.add("termination of while loop %d of %s not proved (partial correctness)" % (ordn, self.cur_contract.name))
        return outs

"""bin/check <property> --tier quick|thorough : decide one property with the contract machinery.

Exit codes: 0 held on everything explored (KNOWN-FINDING lines allowed) / 1 violation (VIOLATION line) /
2 undecided (unknown, unsupported, contract no longer fits) / 3 checker crash.
"""
import argparse
import hashlib
import importlib.util
import json
import multiprocessing as mp
import os
import sys
import time
import traceback

import z3

from . import registry, solve, extract, concretise, native, nativecheck
from . import vtypes as ty
from .executor import Executor, Obligation
from .ops import Unsupported
from .spec import Env
from .state import State
from .vtypes import SV

ROOT = os.path.dirname(os.path.dirname(os.path.abspath(__file__)))
# runs against a scratch copy (VERIF_REPO) must not overwrite the evidence of /repo
OUT = ROOT if os.path.realpath(os.environ.get("VERIF_REPO", "/repo")) == "/repo" else os.path.join(ROOT, "scratch-out")


def load_index():
    spec = importlib.util.spec_from_file_location("verif_index", os.path.join(ROOT, "contracts", "index.py"))
    m = importlib.util.module_from_spec(spec)
    spec.loader.exec_module(m)
    return m.PROPS


def lemma_obligations(reg, sidecar_name):
    """Property-level lemmas: proved from axioms + the *contracts* (never bodies) of the functions they use."""
    obs = []
    from .spec import SpecEval
    import ast as _ast
    # facts by induction: base and step are obligations; the universally quantified fact then joins the axioms (of later inductions, lemmas, contracts)
    earlier = set()
    for ind in reg.inductions:
        ty.STR_MODE[0] = "string"
        spec = SpecEval(reg)
        ex = Executor(reg, registry.Contract("induction:" + ind["name"]))
        for which in ("base", "step"):
            st = State()
            consts = {}
            for n, t in ind["vars"].items():
                T = spec.T(t)
                consts[n] = SV(T, z3.Const(n, ty.sort_of(T)))
                ex.type_facts(st, consts[n])
            k = SV(ty.Int, z3.Int(ind["on"]))
            for ax in reg.axioms:
                if ax.get("from_induction") and ax["name"] not in earlier:
                    continue
                st.assume(ex.axiom_formula(ax))
            env = Env(st, st, dict(consts, **{ind["on"]: k}))
            for h in ind["hyps"]:
                st.assume(spec.boolean(h, env))
            if which == "base":
                goal = spec.boolean(ind["body"], Env(st, st, dict(consts, **{ind["on"]: SV(ty.Int, z3.IntVal(0))})))
            else:
                st.assume(k.e >= 0)
                st.assume(spec.boolean(ind["body"], env))
                goal = spec.boolean(ind["body"], Env(st, st, dict(consts, **{ind["on"]: SV(ty.Int, k.e + 1)})))
            obs.append(Obligation("induction:%s/%s" % (ind["name"], which), st.facts, goal, "lemma", "induction:" + ind["name"]))
        earlier.add("ind_" + ind["name"])
    for lm in reg.lemmas:
        ty.STR_MODE[0] = lm.get("strmode", "string") if isinstance(lm, dict) else "string"
        spec = SpecEval(reg)
        ex = Executor(reg, registry.Contract("lemma:" + lm["name"]))
        st = State()
        consts = {}
        for n, t in lm["vars"].items():
            T = spec.T(t)
            consts[n] = SV(T, z3.Const(n, ty.sort_of(T)))
            ex.type_facts(st, consts[n])
        for ax in reg.axioms:
            if ax.get("from_induction") and ax["name"] not in earlier:
                continue
            st.assume(ex.axiom_formula(ax))
        env = Env(st, st, consts)
        for h in lm["hyps"]:
            st.assume(spec.boolean(h, env))
        for hint in lm.get("hints", []):
            t_ = spec.eval(hint, env)
            st.facts.append(t_.e == t_.e)
        name = "lemma:%s" % lm["name"]
        for k, use in enumerate(lm["uses"]):
            cname, binding = use
            c = reg.contracts[cname]
            loc = dict(consts)
            callenv = {}
            for p, expr in binding.items():
                callenv[p] = spec.eval(expr, env)
            cenv = Env(st, st, callenv)
            for i, r in enumerate(c.requires):
                obs.append(Obligation("%s/use-%d(%s)/pre-%d" % (name, k, cname, i), st.facts, spec.boolean(r, cenv), "lemma-pre", name))
            for e in c.ensures:
                st.assume(spec.boolean(e, cenv))
        obs.append(Obligation("%s/goal" % name, st.facts, spec.boolean(lm["goal"], env), "lemma", name))
        obs.append(Obligation("%s/hyps-sat" % name, st.facts, z3.BoolVal(False), "vacuity", name, expect="sat"))
        earlier.add("lemma_" + lm["name"])
    return obs


# ---------------------------------------------------------------------------------------------
# bounded stand-ins
# ---------------------------------------------------------------------------------------------
_B = {}


def _bounded_worker(args):
    key, lo, hi = args
    b, cases, reg, nat = _B[key]
    fails = []
    n_ok = n_skip = 0
    nontrivial = set()
    import signal

    class _Timeout(Exception):
        pass

    def _alarm(sig, frm):
        raise _Timeout()
    signal.signal(signal.SIGALRM, _alarm)
    for i in range(lo, hi):
        case = cases[i]
        signal.alarm(int(b.get("case_timeout_s", 4)))
        try:
            if "contract" in b:
                c = reg.contracts[b["contract"]]
                inputs = b["build"](case) if "build" in b else case
                r = nativecheck.run_contract(reg, c, nat, inputs)
            else:
                r = b["fn"](case)
                r = r or {"status": "ok"}
        except _Timeout:
            r = {"status": "fail", "why": "no result within %ss (non-termination?)" % b.get("case_timeout_s", 4),
                 "observed": {"exception": "Timeout"}, "clause": "terminates"}
        except Exception as e:
            r = {"status": "fail", "why": "internal exception %s: %s" % (type(e).__name__, e), "observed": {"exception": type(e).__name__,
                 "traceback": traceback.format_exc()[-1500:]}, "clause": "no internal exception"}
        finally:
            signal.alarm(0)
        for r in (r["results"] if r["status"] == "multi" else [r]):
            if r["status"] == "ok":
                n_ok += 1
                if r.get("nontrivial", True):
                    nontrivial.add(r.get("key", i))
            elif r["status"] == "skip":
                n_skip += 1
            else:
                fails.append((i, r))
        if len(fails) >= int(b.get("max_failures_per_chunk", 25)):
            break
    return n_ok, n_skip, len(nontrivial), fails


def _limit_mem():
    import resource
    lim = 3 << 30
    resource.setrlimit(resource.RLIMIT_AS, (lim, lim))


def run_bounded(reg, b, tier, seed, procs):
    cases = list(b["domain"](tier, seed))
    nat = native.NativeSpec(reg, b.get("env"))
    key = b["name"]
    _B[key] = (b, cases, reg, nat)
    n = len(cases)
    chunk = max(1, (n + procs * 4 - 1) // (procs * 4))
    jobs = [(key, lo, min(n, lo + chunk)) for lo in range(0, n, chunk)]
    t = time.time()
    res = []
    if procs > 1 and n > 64 and not b.get("serial"):
        with mp.get_context("fork").Pool(procs, initializer=_limit_mem) as pool:
            nf = 0
            for r in pool.imap_unordered(_bounded_worker, jobs):
                res.append(r)
                nf += len(r[3])
                if nf >= int(b.get("max_failures", 400)):
                    pool.terminate()   # enough concrete failing inputs; the rest of the domain is not explored
                    break
    else:
        for j in jobs:
            r = _bounded_worker(j)
            res.append(r)
            if sum(len(x[3]) for x in res) >= int(b.get("max_failures", 400)):
                break
    ok = sum(r[0] for r in res)
    skip = sum(r[1] for r in res)
    nontriv = sum(r[2] for r in res)
    fails = [f for r in res for f in r[3]]
    return {"name": key, "label": b.get("label", ""), "cases": n, "ok": ok, "skipped": skip, "nontrivial": nontriv,
            "fails": [(i, r.get("witness_case", cases[i]), r) for i, r in fails], "wall_s": round(time.time() - t, 2),
            "exhaustive": bool(b.get("exhaustive", False)), "sample": [concretise.jsonable(c) for c in cases[:2]]}


# ---------------------------------------------------------------------------------------------
def known_match(finding, viol):
    if finding.get("property") != viol["property"]:
        return False
    ob = finding.get("obligation", "")
    if ob.endswith("*"):
        if not viol["obligation"].startswith(ob[:-1]):
            return False
    elif ob and ob != viol["obligation"]:
        return False
    m = finding.get("match", {})
    blob = json.dumps(viol.get("witness"), sort_keys=True, default=str)
    for k, v in m.items():
        if k == "witness_contains":
            if not all(x in blob for x in (v if isinstance(v, list) else [v])):
                return False
        elif k == "witness_regex":
            import re
            if not re.search(v, blob):
                return False
        elif k == "clause_contains":
            if v not in (viol.get("clause") or ""):
                return False
        elif k == "exception":
            if (viol.get("observed") or {}).get("exception") != v:
                return False
        elif k == "pred":
            import importlib.util
            sp = importlib.util.spec_from_file_location("known_preds", os.path.join(ROOT, "known_preds.py"))
            mod = importlib.util.module_from_spec(sp)
            sp.loader.exec_module(mod)
            if not getattr(mod, v)(viol):
                return False
        elif k == "why_contains":
            if v not in (viol.get("why") or ""):
                return False
    return True


def _stem(name):
    import re
    return re.sub(r"@(exit|path)-\d+|@L\d+", "", name)


def main(argv=None):
    ap = argparse.ArgumentParser()
    ap.add_argument("prop")
    ap.add_argument("--tier", default=os.environ.get("VERIF_TIER", "quick"))
    ap.add_argument("--replay")
    ap.add_argument("--update-expected", action="store_true")
    ap.add_argument("--verbose", "-v", action="store_true")
    a = ap.parse_args(argv)
    try:
        if a.replay:
            return replay(a)
        return run(a)
    except SystemExit:
        raise
    except Exception:
        traceback.print_exc()
        print("CHECKER-ERROR property=%s (exit 3; not a verdict about the code)" % a.prop)
        return 3


def replay(a):
    """bin/check <id> --replay <file>: run the recorded failing case again on /repo's current working tree.
    exit 1 + VIOLATION line when it fails again, 0 when it no longer does, 2 when the file names a solver verdict without a concrete input."""
    rec = json.load(open(a.replay))
    pid = rec.get("property", a.prop)
    PROPS = load_index()
    cfg = PROPS[pid]
    ob_name = rec["obligation"]
    if ob_name.startswith("bounded:"):
        bname = ob_name[len("bounded:"):]
        for sc in cfg["sidecars"]:
            reg = registry.load_sidecar(os.path.join(ROOT, "contracts", sc))
            for b in reg.bounded:
                if b["name"] != bname:
                    continue
                os.environ.setdefault("VERIF_SEED", str(rec.get("seed", 0)))
                cases = list(b["domain"](rec.get("tier", a.tier), int(rec.get("seed", 0))))
                idx = rec.get("case_index")
                want = json.dumps(rec.get("inputs"), sort_keys=True, default=str)
                if idx is None or idx >= len(cases) or json.dumps(concretise.jsonable(cases[idx]), sort_keys=True, default=str) != want:
                    idx = next((i for i, c in enumerate(cases) if json.dumps(concretise.jsonable(c), sort_keys=True, default=str) == want), None)
                if idx is None:
                    print("REPLAY property=%s obligation=%s: the recorded case is not in the stand-in's domain any more" % (pid, ob_name))
                    return 2
                nat = native.NativeSpec(reg, b.get("env"))
                _B[bname] = (b, cases, reg, nat)
                _, _, _, fails = _bounded_worker((bname, idx, idx + 1))
                if fails:
                    r = fails[0][1]
                    print("VIOLATION property=%s replay=%s obligation=%s" % (pid, a.replay, ob_name))
                    print("  clause: %s\n  why: %s\n  observed: %s" % (r.get("clause"), r.get("why"), json.dumps(r.get("observed"), default=str)[:600]))
                    return 1
                print("REPLAY property=%s obligation=%s: the recorded case passes on this tree" % (pid, ob_name))
                return 0
        print("REPLAY: no bounded stand-in named %s under %s" % (bname, pid))
        return 2
    # a deductive obligation: regenerate the function's VCs from the working tree and look at that obligation again
    fn = ob_name.split("/")[0]
    for sc in cfg["sidecars"]:
        reg = registry.load_sidecar(os.path.join(ROOT, "contracts", sc))
        reg.load_exceptions_from_repo(os.path.join(extract.REPO, "rope/base/exceptions.py"))
        c = reg.contracts.get(fn)
        if c is None or c.source is None:
            continue
        ex = Executor(reg, c)
        obs = [ob for ob in ex.run() if _stem(ob.name) == _stem(ob_name)]
        for ob in obs:
            ob.reg, ob.contract, ob.ex = reg, c, ex
        solve.discharge(obs, 4)
        bad = [ob for ob in obs if ob.result["status"] not in ("discharged", "ok")]
        if not bad:
            print("REPLAY property=%s obligation=%s: discharged on this tree (%d exits)" % (pid, ob_name, len(obs)))
            return 0
        out_dir = os.path.join(OUT, "replays", pid)
        for ob in bad:
            v = try_replay(pid, ob, out_dir)
            if v is not None:
                print("VIOLATION property=%s replay=%s obligation=%s" % (pid, v["replay"], ob.name))
                print("  inputs: %s" % json.dumps(v.get("witness"), default=str)[:800])
                return 1
        ob = bad[0]
        print("VIOLATION property=%s replay=%s obligation=%s no-failing-input-found" % (pid, a.replay, ob.name)
              if ob.result["status"] == "refuted" else
              "UNDECIDED property=%s obligation=%s: %s" % (pid, ob.name, ob.result["status"]))
        print("  solver: %s" % json.dumps(ob.result["log"], default=str)[:600])
        return 1 if ob.result["status"] == "refuted" else 2
    print("REPLAY: no contract %s under %s" % (fn, pid))
    return 2


def run(a):
    t0 = time.time()
    pid = a.prop
    tier = a.tier
    seed = int(os.environ.get("VERIF_SEED", "0"))
    procs = int(os.environ.get("PYVC_PROCS", "12"))
    PROPS = load_index()
    cfg = PROPS[pid]
    expected_path = os.path.join(ROOT, "contracts", "expected.json")
    expected_all = json.load(open(expected_path)) if os.path.exists(expected_path) else {}
    exp_entry = expected_all.get(pid, {})
    if isinstance(exp_entry, list):
        exp_entry = {"obligations": exp_entry, "functions": {}}
    expected = set(exp_entry.get("obligations", []))
    expected_sha = exp_entry.get("functions", {})
    known = json.load(open(os.path.join(ROOT, "known_findings.json"))) if os.path.exists(os.path.join(ROOT, "known_findings.json")) else {"findings": [], "fixed": []}

    obligations, functions, unsupported, assumptions, trusted, bounded_notes = [], [], [], set(), set(), set()
    bounded_results = []
    regs = []
    for sc in cfg["sidecars"]:
        reg = registry.load_sidecar(os.path.join(ROOT, "contracts", sc))
        reg.load_exceptions_from_repo(os.path.join(extract.REPO, "rope/base/exceptions.py"))
        regs.append((sc, reg))
        execs = []
        for name, c in reg.contracts.items():
            if c.source is None or (c.inline and not c.ensures and not c.raises):
                continue
            if c.external:
                continue
            ex = Executor(reg, c)
            try:
                obs = ex.run()
            except Unsupported as e:
                unsupported.append({"function": c.source, "why": str(e)})
                continue
            except LookupError as e:
                unsupported.append({"function": c.source, "why": "not found in the working tree: %s" % e})
                continue
            for ob in obs:
                ob.reg, ob.contract, ob.ex = reg, c, ex
            obligations += obs
            assumptions |= ex.assumptions
            bounded_notes |= ex.bounded_notes
            functions.append({"function": c.source, "sha256": ex.ext.sha, "obligations": len(obs),
                              "inlined": sorted("%s#%s" % (s, h[:12]) for s, h in ex.inlined),
                              "decorators_dropped": ex.ext.decorators})
        lob = lemma_obligations(reg, sc)
        for ob in lob:
            ob.reg, ob.contract, ob.ex = reg, None, None
        obligations += lob
        for name, c in reg.contracts.items():
            if c.external and name in reg.externals_used:
                trusted.add("external contract %s: %s" % (name, c.note or "stdlib/OS behaviour assumed"))
        for ax in reg.axioms:
            if ax.get("from_induction"):
                continue
            trusted.add("axiom %s: %s%s" % (ax["name"], ax["body"], (" -- " + ax["note"]) if ax["note"] else ""))
        for t in reg.assumptions:
            assumptions.add(t)

    solve.discharge(obligations, procs)
    # second chance: an obligation left open is tried once more with every stage budget tripled and fewer processes side by side, so that a
    # verdict does not flip to "undecided" merely because the machine was busy (a discharged obligation is never re-examined)
    again = [ob for ob in obligations if ob.result["status"] == "unknown"]
    if again and len(again) <= 24:
        first = {ob.name: ob.result for ob in again}
        solve.SCALE[0] = 3.0
        try:
            solve.discharge(again, max(2, procs // 3))
        finally:
            solve.SCALE[0] = 1.0
        for ob in again:
            ob.result["log"] = [("first-pass", first[ob.name]["log"], first[ob.name]["time"])] + list(ob.result["log"])
            ob.result["time"] = round(ob.result["time"] + first[ob.name]["time"], 4)

    # ---- bounded stand-ins -------------------------------------------------------------------
    for sc, reg in regs:
        for b in reg.bounded:
            if b.get("tier", "quick") == "thorough" and tier != "thorough":
                continue
            if b.get("props") and pid not in b["props"]:
                continue
            bounded_results.append((reg, b, run_bounded(reg, b, tier, seed, procs)))

    # ---- verdicts ---------------------------------------------------------------------------------
    violations, undecided = [], []
    ded = [ob for ob in obligations if ob.expect == "unsat"]
    vac = [ob for ob in obligations if ob.expect == "sat"]
    for ob in vac:
        if ob.result["status"] == "vacuous":
            undecided.append({"obligation": ob.name, "why": "vacuity guard failed: the preconditions/hypotheses are contradictory"})
    replay_dir = os.path.join(OUT, "replays", pid)
    expected_stems = {_stem(e) for e in expected}
    import shutil
    shutil.rmtree(replay_dir, ignore_errors=True)
    for ob in ded:
        st = ob.result["status"]
        if st == "discharged":
            continue
        v = try_replay(pid, ob, replay_dir)
        if v is not None:
            violations.append(v)
        elif st == "refuted" and not ob.bounded and ob.kind in ("post", "exc-post", "raises-only", "frame", "lemma", "call-pre"):
            os.makedirs(replay_dir, exist_ok=True)
            path = os.path.join(replay_dir, _safe(ob.name) + ".json")
            json.dump({"property": pid, "obligation": ob.name, "function": getattr(ob.contract, "source", None),
                       "inputs": None, "solver": {"log": ob.result["log"], "model": ob.result.get("model")},
                       "trace": ob.trace, "note": "obligation refuted by the solver; no concrete failing input could be built"},
                      open(path, "w"), indent=1, default=str)
            violations.append({"property": pid, "obligation": ob.name, "replay": path, "no_input": True,
                               "witness": ob.result.get("model"), "clause": ob.name, "why": "refuted"})
        elif (st == "unknown" and ob.result.get("model") is not None and _stem(ob.name) in expected_stems and ob.ex is not None
              and _source_changed(ob, expected_sha)):
            # (exits and paths are numbered in source order, so an edit renumbers them: the clause is identified without its @exit-N/@path-N tag;
            #  on the unchanged tree it was discharged at every exit.)
            # The obligation was discharged on the unchanged tree, the text of the function it belongs to (or of a callee inlined into it) is different now,
            # no back end proves it any more, and the solver has a counter-model of the VC with every quantified hypothesis instantiated at the VC's ground
            # terms (candidate: the quantified originals were not all checked).  Reported as the failed obligation, without a concrete input.
            os.makedirs(replay_dir, exist_ok=True)
            path = os.path.join(replay_dir, _safe(ob.name) + ".json")
            json.dump({"property": pid, "obligation": ob.name, "function": getattr(ob.contract, "source", None), "inputs": None,
                       "solver": {"log": ob.result["log"], "candidate_counter_model": ob.result.get("model")}, "trace": ob.trace,
                       "note": "discharged on the unchanged tree; the function's source changed and the obligation is no longer provable; "
                               "counter-model of the ground-instantiated VC attached; no concrete failing input could be built"},
                      open(path, "w"), indent=1, default=str)
            violations.append({"property": pid, "obligation": ob.name, "replay": path, "no_input": True, "witness": ob.result.get("model"),
                               "clause": ob.name, "why": "no longer provable after a change of the function (candidate counter-model)"})
        else:
            undecided.append({"obligation": ob.name, "why": "solver verdict %s (%s)" % (st, ob.result["log"])})
    for u in unsupported:
        undecided.append({"obligation": u["function"], "why": "function left the supported subset / contract no longer fits: " + u["why"]})
    names = {ob.name for ob in ded}
    missing = sorted(expected - names)
    for m in missing:
        undecided.append({"obligation": m, "why": "expected obligation no longer generated (code shape changed; contract must be revisited)"})
    # bounded failures are concrete inputs: each is a violation record; replay files are written below for the ones that are reported
    for reg, b, r in bounded_results:
        for n_, (i, case, res) in enumerate(r["fails"]):
            violations.append({"property": pid, "obligation": "bounded:" + b["name"], "replay": None, "witness": concretise.jsonable(case),
                               "clause": res.get("clause"), "observed": res.get("observed"), "why": res.get("why"),
                               "_file": _safe("%s-%d-%d" % (b["name"], i, n_)) + ".json", "_function": b.get("contract") or b.get("label"),
                               "_case_index": i})

    # ---- known findings -----------------------------------------------------------------------------
    new_viol, known_hit = [], []
    per_known = {}
    for v in violations:
        f = next((f for f in known["findings"] if known_match(f, v)), None)
        if f is not None:
            known_hit.append((f, v))
            per_known[f.get("what")] = per_known.get(f.get("what"), 0) + 1
            write = per_known[f.get("what")] <= 2
        else:
            new_viol.append(v)
            write = len(new_viol) <= 40
        if v.get("replay") is None:
            path = os.path.join(replay_dir, v.pop("_file"))
            v["replay"] = path
            if write:
                os.makedirs(replay_dir, exist_ok=True)
                json.dump({"property": pid, "obligation": v["obligation"], "function": v.pop("_function", None), "inputs": v["witness"],
                           "case_index": v.pop("_case_index", None), "tier": tier, "seed": seed,
                           "clause": v.get("clause"), "observed": v.get("observed"), "why": v.get("why"),
                           "known_finding": f.get("what") if f is not None else None}, open(path, "w"), indent=1, default=str)

    if a.update_expected:
        shas = {}
        for fn_ in functions:
            shas[fn_["function"]] = fn_["sha256"]
            for inl in fn_["inlined"]:
                src_, h_ = inl.rsplit("#", 1)
                shas["inlined:" + src_] = h_
        expected_all[pid] = {"obligations": sorted(ob.name for ob in ded if ob.result["status"] == "discharged"), "functions": shas}
        json.dump(expected_all, open(expected_path, "w"), indent=0, sort_keys=True)

    # ---- evidence -----------------------------------------------------------------------------------
    discharged = sum(1 for ob in ded if ob.result["status"] == "discharged")
    by_backend = {}
    for ob in ded:
        for bk in ob.result["backends"]:
            by_backend[bk] = by_backend.get(bk, 0) + 1
    solver_s = round(sum(ob.result["time"] for ob in obligations), 2)
    samples = []
    for ob in ded[:3]:
        samples.append({"obligation": ob.name, "kind": ob.kind, "goal": str(ob.goal)[:400], "hypotheses": len(ob.hyps),
                        "status": ob.result["status"], "backend": ob.result["backends"]})
    b_eval = sum(r["ok"] + len(r["fails"]) for _, _, r in bounded_results)
    cov = {
        "obligations": len(ded), "discharged": discharged,
        "checker_cmd": "bin/check %s --tier %s   (pyvc: VCs generated from /repo's working tree; z3 5.1 API, /usr/bin/cvc5 1.0.3, /usr/bin/z3 4.8.12)" % (pid, tier),
        "trusted_base": sorted(trusted) + sorted(assumptions) + cfg.get("trusted", []) + GLOBAL_TRUSTED,
        "functions_under_contract": functions,
        "by_backend": by_backend, "solver_seconds": solver_s,
        "vacuity_guards": {"checked": len(vac), "ok": sum(1 for ob in vac if ob.result["status"] == "ok")},
        "obligation_list": [{"name": ob.name, "status": ob.result["status"], "backend": ob.result["backends"], "s": ob.result["time"],
                             "bounded": ob.bounded} for ob in ded],
        "samples": samples,
        "bounded_standins": [{"name": r["name"], "label": r["label"], "cases": r["cases"], "ok": r["ok"], "skipped": r["skipped"],
                              "failed": len(r["fails"]), "exhaustive": r["exhaustive"], "wall_s": r["wall_s"], "sample": r["sample"],
                              "counted_as_proved": False} for _, _, r in bounded_results],
        "bounded_notes": sorted(bounded_notes),
        "undecided_clauses": cfg.get("undecided", []),
        "undecided_now": undecided,
        "known_findings_hit": [{"finding": f.get("what"), "obligation": v["obligation"]} for f, v in known_hit],
        "evaluations": len(ded) + b_eval,
        "distinct_nontrivial": discharged + sum(r["nontrivial"] for _, _, r in bounded_results),
        "rule": "deductive obligations are distinct by name (function/kind/exit); bounded cases are distinct inputs of the stated finite domain that satisfied the precondition",
        "explanation": cfg.get("explanation") or ("Contract-based deductive proofs of the kernel functions listed under functions_under_contract (every obligation "
                                                 "discharged, counts above) plus bounded stand-ins (never counted as proved); the property as a whole is not proved. "
                                                 + cfg.get("claim", "")),
    }
    ev = {"property_id": pid, "tier": tier, "seed": seed, "level": cfg["level"], "coverage": cov,
          "assumptions": sorted(assumptions) + cfg.get("trusted", []),
          "wall_s": round(time.time() - t0, 2), "violations": len(new_viol)}
    os.makedirs(os.path.join(OUT, "evidence"), exist_ok=True)
    json.dump(ev, open(os.path.join(OUT, "evidence", pid + ".json"), "w"), indent=1, default=str)

    # ---- report -------------------------------------------------------------------------------------
    print("property %s tier %s: %d/%d deductive obligations discharged over %d functions (%s solver s); %d bounded stand-ins, %d cases"
          % (pid, tier, discharged, len(ded), len(functions), solver_s, len(bounded_results), sum(r["cases"] for _, _, r in bounded_results)))
    if a.verbose:
        for ob in obligations:
            print("  %-110s %-10s %s %.2fs" % (ob.name, ob.result["status"], ",".join(ob.result["backends"]), ob.result["time"]))
    seen_known = set()
    for f, v in known_hit:
        k = f.get("what")
        if k in seen_known:
            continue
        seen_known.add(k)
        print("KNOWN-FINDING: property=%s %s" % (pid, f.get("what")))
    if new_viol:
        for v in new_viol[:20]:
            tail = " no-failing-input-found" if v.get("no_input") else ""
            print("VIOLATION property=%s replay=%s obligation=%s%s" % (pid, v["replay"], v["obligation"], tail))
        return 1
    if undecided:
        for u in undecided[:30]:
            print("UNDECIDED property=%s %s: %s" % (pid, u["obligation"], u["why"][:300]))
        return 2
    return 0


GLOBAL_TRUSTED = [
    "CPython 3.12 semantics as encoded by pyvc (ints unbounded, str/list as sequences, dict insertion order); TypeError/AttributeError on declared types not modelled",
    "soundness of z3 5.1 / z3 4.8.12 / cvc5 1.0.3",
    "pyvc extractor and translator (cross-checked natively by the bounded stand-ins on the same contracts)",
    "closed world over the declared record classes for isinstance/dynamic dispatch",
]


def _source_changed(ob, expected_sha):
    """has the text of the function under contract, or of a callee whose body was inlined into it, changed since expected.json was recorded?"""
    src = getattr(ob.contract, "source", None)
    if src is None or src not in expected_sha:
        return False
    if expected_sha[src] != ob.ex.ext.sha:
        return True
    for isrc, ih in ob.ex.inlined:
        if expected_sha.get("inlined:" + isrc, ih[:12]) != ih[:12]:
            return True
    return False


def _safe(s):
    return "".join(c if c.isalnum() or c in "-_." else "_" for c in s)[:150]


def try_replay(pid, ob, replay_dir):
    """Concretise the counter-model and run the real function; -> violation dict or None."""
    c = ob.contract
    if c is None or ob.ex is None or ob.kind not in ("post", "exc-post", "raises-only"):
        return None
    if any(":iteration" in t or ":exit" in t for t in ob.trace):
        return None  # state inside/after a havocked loop: the model is not an input of the function
    try:
        ty.STR_MODE[0] = c.strmode
        model, which = concretise.model_for(ob)
        if model is None:
            return None
        dec = concretise.Decoder(ob.reg, ob.ex.spec, model, c.strmode)
        inputs_d = {p: dec.decode(ob.ex.model_vars[p]) for p in c.params}
        if c.replay is not None:
            inputs = c.replay(inputs_d)
            if inputs is None:
                return None
        else:
            built = {}
            inputs = {p: concretise.build_object(ob.reg, v, built) for p, v in inputs_d.items()}
        nat = native.NativeSpec(ob.reg)
        r = nativecheck.run_contract(ob.reg, c, nat, inputs)
    except Exception as e:
        return None
    if r["status"] != "fail":
        return None
    os.makedirs(replay_dir, exist_ok=True)
    path = os.path.join(replay_dir, _safe(ob.name) + ".json")
    json.dump({"property": pid, "obligation": ob.name, "function": c.source, "source_sha256": ob.ex.ext.sha,
               "inputs": concretise.jsonable(inputs_d), "clause": r.get("clause"), "observed": r.get("observed"), "why": r.get("why"),
               "solver": {"backend": ob.result["backends"], "model_from": which}},
              open(path, "w"), indent=1, default=str)
    return {"property": pid, "obligation": ob.name, "replay": path, "witness": concretise.jsonable(inputs_d),
            "clause": r.get("clause"), "observed": r.get("observed"), "why": r.get("why")}


if __name__ == "__main__":
    sys.exit(main())

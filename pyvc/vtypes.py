"""Type descriptors of the pyvc encoding and their z3 sorts.

Python value            descriptor            z3 sort
int                     Int                   Int   (exact: Python ints are unbounded)
bool                    Bool                  Bool
str                     Str                   String, or (Seq Int) of code points in `intseq` mode
None                    NoneT                 unit datatype
Optional[T]             Opt[T]                datatype  none | some(val: T)
list / tuple (homog.)   Seq[T]                (Seq T)   -- lists are values; aliasing is tracked by the executor
tuple (heterogeneous)   Tuple[T1,..]          datatype with one constructor
dict                    Map[K,V]              (Array K Opt[V])
set                     Set[K]                (Array K Bool)
object of class C       C (a declared record) uninterpreted sort Ref + heap arrays per field + typeof(Ref)
never-inspected payload Opaque[name]          uninterpreted sort `name`
"""
import ast
import z3

STR_MODE = ["string"]  # or "intseq"; set per function by the contract (strmode=...)

Ref = z3.DeclareSort("Ref")
typeof = z3.Function("typeof", Ref, z3.IntSort())
born = z3.Function("born", Ref, z3.IntSort())   # allocation stamp: <= 0 for objects existing at function entry

_cache = {}


class T:
    name = "?"

    def __repr__(self):
        return self.name

    def __eq__(self, other):
        return isinstance(other, T) and self.name == other.name

    def __hash__(self):
        return hash(self.name)


class Prim(T):
    def __init__(self, name):
        self.name = name


Int = Prim("Int")
Bool = Prim("Bool")
Str = Prim("Str")
NoneT = Prim("NoneT")
Exc = Prim("Exc")  # exception values (opaque)
Any = Prim("Any")  # only for statically resolved things (modules, functions) that never reach the solver


class Opt(T):
    def __init__(self, elem):
        self.elem = elem
        self.name = "Opt[%s]" % elem.name


class Seq(T):
    def __init__(self, elem):
        self.elem = elem
        self.name = "Seq[%s]" % elem.name


class Tuple(T):
    def __init__(self, elems):
        self.elems = list(elems)
        self.name = "Tuple[%s]" % ",".join(e.name for e in self.elems)


class Map(T):
    def __init__(self, key, val):
        self.key, self.val = key, val
        self.name = "Map[%s,%s]" % (key.name, val.name)


class Set(T):
    def __init__(self, key):
        self.key = key
        self.name = "Set[%s]" % key.name


class RefT(T):
    """Reference to an object of a declared record class (or a subclass)."""

    def __init__(self, cls):
        self.cls = cls
        self.name = cls


class Opaque(T):
    def __init__(self, sortname):
        self.sortname = sortname
        self.name = "Opaque[%s]" % sortname


def _dt(key, build):
    k = (STR_MODE[0], key)
    if k not in _cache:
        _cache[k] = build()
    return _cache[k]


def sort_of(t):
    if t == Int:
        return z3.IntSort()
    if t == Bool:
        return z3.BoolSort()
    if t == Str:
        return z3.StringSort() if STR_MODE[0] == "string" else z3.SeqSort(z3.IntSort())
    if t == NoneT:
        def b():
            d = z3.Datatype("NoneT")
            d.declare("None_")
            return d.create()
        return _dt("NoneT", b)
    if t == Exc:
        return _dt("ExcV", lambda: z3.DeclareSort("ExcV"))
    if isinstance(t, Opt):
        def b():
            m = _mangle(t.elem.name)
            d = z3.Datatype("Opt_%s" % m)
            d.declare("none_%s" % m)            # constructor names are unique per datatype (SMT-LIB text round trip)
            d.declare("some_%s" % m, ("val_%s" % m, sort_of(t.elem)))
            return d.create()
        return _dt(t.name, b)
    if isinstance(t, Seq):
        return z3.SeqSort(sort_of(t.elem))
    if isinstance(t, Tuple):
        def b():
            d = z3.Datatype("Tup_%s" % _mangle(t.name))
            m = _mangle(t.name)
            d.declare("mk_%s" % m, *[("f%d_%s" % (i, m), sort_of(e)) for i, e in enumerate(t.elems)])
            return d.create()
        return _dt(t.name, b)
    if isinstance(t, Map):
        return z3.ArraySort(sort_of(t.key), sort_of(Opt(t.val)))
    if isinstance(t, Set):
        return z3.ArraySort(sort_of(t.key), z3.BoolSort())
    if isinstance(t, RefT):
        return Ref
    if isinstance(t, Opaque):
        return _dt("opq:" + t.sortname, lambda: z3.DeclareSort(t.sortname))
    raise TypeError("no sort for %r" % (t,))


def _mangle(s):
    return "".join(c if c.isalnum() else "_" for c in s)


def parse_type(text, records=()):
    """Parse 'Opt[Seq[Tuple[Int,Int,Str]]]' / a record class name."""
    if isinstance(text, T):
        return text
    node = ast.parse(text, mode="eval").body
    return _pt(node, records)


def _pt(node, records):
    if isinstance(node, ast.Name):
        n = node.id
        prim = {"Int": Int, "Bool": Bool, "Str": Str, "NoneT": NoneT, "Exc": Exc, "Any": Any}
        if n in prim:
            return prim[n]
        return RefT(n)
    if isinstance(node, ast.Subscript):
        head = node.value.id
        sl = node.slice
        args = sl.elts if isinstance(sl, ast.Tuple) else [sl]
        if head == "Opaque":
            return Opaque(args[0].id)
        targs = [_pt(a, records) for a in args]
        if head == "Opt":
            return Opt(targs[0])
        if head == "Seq":
            return Seq(targs[0])
        if head == "Tuple":
            return Tuple(targs)
        if head == "Map":
            return Map(targs[0], targs[1])
        if head == "Set":
            return Set(targs[0])
    raise TypeError("bad type syntax: %s" % ast.dump(node))


class SV:
    """A symbolic value: type descriptor + z3 term."""
    __slots__ = ("t", "e")

    def __init__(self, t, e):
        self.t = t
        self.e = e

    def __repr__(self):
        return "SV(%s, %s)" % (self.t, self.e)


def none_val():
    s = sort_of(NoneT)
    return SV(NoneT, s.None_)


def opt_none(t):
    return SV(Opt(t), sort_of(Opt(t)).constructor(0)())


def opt_some(v):
    return SV(Opt(v.t), sort_of(Opt(v.t)).constructor(1)(v.e))


def opt_is_none(v):
    return sort_of(v.t).recognizer(0)(v.e)


def opt_val(v):
    return SV(v.t.elem, sort_of(v.t).accessor(1, 0)(v.e))


def str_const(s):
    if STR_MODE[0] == "string":
        return SV(Str, z3.StringVal(s))
    if not s:
        return SV(Str, z3.Empty(z3.SeqSort(z3.IntSort())))
    units = [z3.Unit(z3.IntVal(ord(c))) for c in s]
    return SV(Str, units[0] if len(units) == 1 else z3.Concat(*units))


def empty_seq(t):
    return SV(t, z3.Empty(sort_of(t)))


def fresh(t, hint="v", _n=[0]):
    _n[0] += 1
    return SV(t, z3.Const("%s!%d" % (hint, _n[0]), sort_of(t)))

"""B3 stand-in for C06 (and the binding clause of C04): signature changes against the interpreter's own call binding.
 grid     : 15 signatures x 16 call shapes x up to 6 changers (normalize, swap first two, remove last, add with default at 0, add with value at end,
            inline default of parameter 1).  The definition and the call are rewritten by ChangeSignature; both versions are executed; every
            surviving parameter must be bound to the same value (f returns dict(locals())), or the change must be refused with RefactoringError.
 projects : methods, bound/unbound/dotted receivers, constructors called from another module, identical call text with different shapes."""
import os
import shutil
import subprocess
import sys
import tempfile
import warnings

SIGS = ["a", "a, b", "a, b=20", "a=10, b=20", "a, b, c=30", "a, *args", "a, b=20, *args", "a, **kw", "a, b=20, **kw", "a, *args, **kw",
        "a, *, k", "a, *, k=40", "a, /, b", "a, b=20, *, k=40", "self_like, a"]
CALLS = ["1", "1, 2", "1, 2, 3", "a=1", "1, b=2", "b=2, a=1", "a=1, b=2, c=3", "1, 2, 3, 4", "1, k=4", "1, 2, k=4", "1, x=9", "1, b=2, x=9",
         "*[1, 2]", "1, *[2]", "1, **{'b': 2}", "a=1, k=4"]
CHANGERS = ["normalize", "swap01", "remove_last", "add0_default", "add_end_value", "inline_default1"]


def bind(sig, call):
    ns = {}
    try:
        exec("def f(%s):\n    return dict(locals())\nr = f(%s)\n" % (sig, call), ns)
        return ns["r"]
    except Exception as e:
        return "ERR:" + type(e).__name__


def domain(tier, seed):
    return [(s, c, ch) for s in SIGS for c in CALLS for ch in CHANGERS if not isinstance(bind(s, c), str)]


def _changers(cs, name, n):
    if name == "normalize":
        return [cs.ArgumentNormalizer()], None
    if name == "swap01" and n >= 2:
        return [cs.ArgumentReorderer([1, 0] + list(range(2, n)))], None
    if name == "remove_last" and n >= 1:
        return [cs.ArgumentRemover(n - 1)], ("removed", n - 1)
    if name == "add0_default":
        return [cs.ArgumentAdder(0, "zz", "99")], ("added", "zz")
    if name == "add_end_value":
        return [cs.ArgumentAdder(n, "zz", None, "77")], ("added", "zz")
    if name == "inline_default1" and n >= 2:
        return [cs.ArgumentDefaultInliner(1)], None
    return None, None


_P = {}


def run_case(case):
    warnings.simplefilter("ignore")
    from rope.base.project import Project
    from rope.base import exceptions
    from rope.refactor import change_signature as cs
    if "p" not in _P:
        _P["d"] = tempfile.mkdtemp(prefix="verif-c06-")
        _P["p"] = Project(_P["d"], ropefolder=None)
        _P["f"] = _P["p"].root.create_file("m.py")
    p, f = _P["p"], _P["f"]
    sig, call, cname = case
    before = bind(sig, call)
    src = "def f(%s):\n    return dict(locals())\nr = f(%s)\n" % (sig, call)
    f.write(src)
    try:
        chg = cs.ChangeSignature(p, f, src.index("f("))
        n = len(chg.get_args())
    except exceptions.RopeError:
        return {"status": "skip", "why": "refused at construction"}
    changers, info = _changers(cs, cname, n)
    if changers is None:
        return {"status": "skip", "why": "changer not applicable"}
    try:
        ch = cs.ChangeSignature(p, f, src.index("f(")).get_changes(changers)
    except exceptions.RopeError:
        return {"status": "ok", "nontrivial": False, "key": repr(case)}
    except Exception as e:
        return {"status": "fail", "why": "internal %s: %s" % (type(e).__name__, str(e)[:80]), "clause": "refused with the library's error, never an internal exception",
                "observed": {"exception": type(e).__name__, "source": src}}
    new = ch.changes[0].new_contents if ch.changes else src
    ns = {}
    try:
        exec(new, ns)
        after = ns["r"]
    except SyntaxError:
        return {"status": "fail", "why": "the rewritten module does not parse", "clause": "result parses", "observed": {"exception": "SyntaxError", "source": src, "result": new}}
    except Exception as e:
        return {"status": "fail", "why": "the rewritten call fails with %s" % type(e).__name__, "clause": "each call still binds",
                "observed": {"exception": type(e).__name__, "source": src, "result": new}}
    surv = {k: v for k, v in before.items() if k in after}
    if any(after.get(k) != v for k, v in surv.items()):
        return {"status": "fail", "why": "a surviving parameter changed its value: before %r after %r" % (before, after),
                "clause": "each call passes to each surviving parameter exactly the value it passed before", "observed": {"source": src, "result": new}}
    return {"status": "ok", "nontrivial": True, "key": repr(case)}


# ---- multi-module / method / constructor scenarios -------------------------------------------------------------------------
PROJECTS = {
    "constructor_other_module": {
        "files": {"shapes.py": "class Box:\n    def __init__(self, width, height):\n        self.width = width\n        self.height = height\n",
                  "user.py": "from shapes import Box\nb = Box(2, 3)\nprint(b.width, b.height)\n"},
        "target": ("shapes.py", "__init__"), "changer": "swap12"},
    "dotted_receiver": {
        "files": {"user.py": "class Adder:\n    def __init__(self):\n        self.total = 100\n\n    def add(self, x, y):\n        return self.total + x - y\n\n\nclass Stats:\n    def __init__(self):\n        self.adder = Adder()\n        self.total = 0\n\n    def add(self, x, y):\n        return -1\n\n\nstats = Stats()\nprint(stats.adder.add(5, 2))\n"},
        "target": ("user.py", "add"), "changer": "swap12"},
    "same_text_two_shapes": {
        "files": {"user.py": "class Shape:\n    def __init__(self, tag):\n        self.tag = tag\n\n    def scale(self, factor, origin=0):\n        return (self.tag, factor, origin)\n\n\ndef bound():\n    shape = Shape('s')\n    item, step = 1, 6\n    return shape.scale(item, step)\n\n\ndef unbound():\n    shape = Shape\n    item, step = Shape('t'), 6\n    return shape.scale(item, step)\n\n\nprint(bound(), unbound())\n"},
        "target": ("user.py", "scale"), "changer": ("adder", 1, "extra", None, "0")},
    "method_keyword_and_default": {
        "files": {"user.py": "class C:\n    def m(self, a=1, b=5):\n        return (a, b)\n\n\nc = C()\nprint(c.m(1), c.m(1, 2), c.m(b=3, a=4), C.m(c, 7), c.m())\n"},
        "target": ("user.py", "m"), "changer": "swap12"},
    "classmethod_and_static": {
        "files": {"user.py": "class K:\n    @classmethod\n    def make(cls, a, b):\n        return (a, b)\n\n    @staticmethod\n    def st(a, b):\n        return (a, b)\n\n\nprint(K.make(1, 2), K().make(3, 4), K.st(5, 6))\n"},
        "target": ("user.py", "make"), "changer": "swap12"},
}


def project_domain(tier, seed):
    return sorted(PROJECTS)


def project_case(name):
    warnings.simplefilter("ignore")
    import re
    from rope.base.project import Project
    from rope.base import exceptions
    from rope.refactor import change_signature as cs
    sc = PROJECTS[name]
    root = tempfile.mkdtemp(prefix="verif-c06p-")
    try:
        for path, src in sc["files"].items():
            with open(os.path.join(root, path), "w") as f:
                f.write(src)

        def run():
            r = subprocess.run([sys.executable, "-B", "user.py"], cwd=root, capture_output=True, text=True, timeout=30)
            return r.stdout + ("!rc=%d %s" % (r.returncode, (r.stderr.strip().splitlines() or [""])[-1]) if r.returncode else "")
        want = run()
        p = Project(root, ropefolder=None)
        path, word = sc["target"]
        res = p.get_resource(path)
        off = re.search(r"def %s\b" % word, sc["files"][path]).start() + 4
        try:
            chg = cs.ChangeSignature(p, res, off)
            n = len(chg.get_args())
            if sc["changer"] == "swap12":
                order = list(range(n))
                order[1], order[2] = order[2], order[1]      # swap the two parameters after self/cls
                changers = [cs.ArgumentReorderer(order)]
            else:
                _, idx, nm, dflt, val = sc["changer"]
                changers = [cs.ArgumentAdder(idx, nm, dflt, val)]
            p.do(chg.get_changes(changers))
        except exceptions.RefactoringError:
            return {"status": "ok", "nontrivial": False, "key": name}
        got = run()
        p.close()
        if got != want:
            return {"status": "fail", "why": "changing the signature of %s changes the program's output: %r -> %r" % (word, want, got),
                    "clause": "each call passes to each surviving parameter exactly the value it passed before", "observed": {"files": sc["files"]}}
        return {"status": "ok", "nontrivial": True, "key": name}
    finally:
        shutil.rmtree(root, ignore_errors=True)

"""Reference binder (spec function prototype): maps every tracked identifier token of a module to its binding (scope id, name)."""
import ast, re

class Scope:
    def __init__(self, kind, node, parent):
        self.kind, self.node, self.parent = kind, node, parent      # kind: module | function | class | comp
        self.bound, self.globals, self.nonlocals = set(), set(), set()
        self.id = id(node)
    def func_parent(self):
        s = self.parent
        while s is not None and s.kind == "class": s = s.parent
        return s

def offsets(src):
    starts = [0]
    for line in src.splitlines(True): starts.append(starts[-1] + len(line))
    return lambda lineno, col: starts[lineno - 1] + len(src.splitlines(True)[lineno - 1].encode("utf-8")[:col].decode("utf-8"))

class Binder(ast.NodeVisitor):
    def __init__(self, src):
        self.src, self.off = src, offsets(src)
        self.tree = ast.parse(src)
        self.scope_of = {}          # ast node -> Scope in which it is evaluated
        self.uses = []              # (offset, name, scope)   tracked tokens
        self.module = Scope("module", self.tree, None)
        self.cur = self.module
        self.visit(self.tree)
    # ----- helpers
    def bind(self, name, scope=None):
        s = scope or self.cur
        if s.kind == "comp" and scope is None: pass
        s.bound.add(name)
    def token(self, offset, name, scope=None): self.uses.append((offset, name, scope or self.cur))
    def find_name_after(self, node, name, start=None):
        base = self.off(node.lineno, node.col_offset) if start is None else start
        m = re.compile(r"\b%s\b" % re.escape(name)).search(self.src, base)
        return m.start()
    def walrus_scope(self):
        s = self.cur
        while s.kind == "comp": s = s.parent
        return s
    # ----- scopes
    def visit_FunctionDef(self, node):
        for d in node.decorator_list: self.visit(d)
        self.bind(node.name); self.token(self.find_name_after(node, node.name, self.src.index("def", self.off(node.lineno, node.col_offset)) + 3), node.name)
        a = node.args
        for dflt in a.defaults + [k for k in a.kw_defaults if k is not None]: self.visit(dflt)
        for arg in a.posonlyargs + a.args + a.kwonlyargs + ([a.vararg] if a.vararg else []) + ([a.kwarg] if a.kwarg else []):
            if arg.annotation: self.visit(arg.annotation)
        if node.returns: self.visit(node.returns)
        inner = Scope("function", node, self.cur); outer, self.cur = self.cur, inner
        for arg in a.posonlyargs + a.args + a.kwonlyargs + ([a.vararg] if a.vararg else []) + ([a.kwarg] if a.kwarg else []):
            self.bind(arg.arg); self.token(self.off(arg.lineno, arg.col_offset), arg.arg)
        for st in node.body: self.visit(st)
        self.cur = outer
    visit_AsyncFunctionDef = visit_FunctionDef
    def visit_Lambda(self, node):
        a = node.args
        for dflt in a.defaults + [k for k in a.kw_defaults if k is not None]: self.visit(dflt)
        inner = Scope("function", node, self.cur); outer, self.cur = self.cur, inner
        for arg in a.posonlyargs + a.args + a.kwonlyargs + ([a.vararg] if a.vararg else []) + ([a.kwarg] if a.kwarg else []):
            self.bind(arg.arg); self.token(self.off(arg.lineno, arg.col_offset), arg.arg)
        self.visit(node.body); self.cur = outer
    def visit_ClassDef(self, node):
        for d in node.decorator_list + node.bases + [k.value for k in node.keywords]: self.visit(d)
        self.bind(node.name); self.token(self.find_name_after(node, node.name, self.src.index("class", self.off(node.lineno, node.col_offset)) + 5), node.name)
        inner = Scope("class", node, self.cur); outer, self.cur = self.cur, inner
        for st in node.body: self.visit(st)
        self.cur = outer
    def _comp(self, node, elts):
        gens = node.generators
        self.visit(gens[0].iter)                                   # first iterable: enclosing scope
        inner = Scope("comp", node, self.cur); outer, self.cur = self.cur, inner
        for i, g in enumerate(gens):
            if i > 0: self.visit(g.iter)
            self.visit(g.target)
            for c in g.ifs: self.visit(c)
        for e in elts: self.visit(e)
        self.cur = outer
    def visit_ListComp(self, node): self._comp(node, [node.elt])
    visit_SetComp = visit_GeneratorExp = visit_ListComp
    def visit_DictComp(self, node): self._comp(node, [node.key, node.value])
    # ----- binding constructs
    def visit_Name(self, node):
        scope = self.cur
        if isinstance(node.ctx, (ast.Store, ast.Del)):
            self.bind(node.id, scope)
        self.token(self.off(node.lineno, node.col_offset), node.id, scope)
    def visit_NamedExpr(self, node):
        self.visit(node.value)
        s = self.walrus_scope(); s.bound.add(node.target.id)
        self.token(self.off(node.target.lineno, node.target.col_offset), node.target.id, s)
    def visit_Global(self, node):
        pos = self.off(node.lineno, node.col_offset)
        for n in node.names:
            self.cur.globals.add(n); pos = self.find_name_after(node, n, pos); self.token(pos, n); pos += len(n)
    def visit_Nonlocal(self, node):
        pos = self.off(node.lineno, node.col_offset)
        for n in node.names:
            self.cur.nonlocals.add(n); pos = self.find_name_after(node, n, pos); self.token(pos, n); pos += len(n)
    def visit_Import(self, node):
        for al in node.names:
            bound = al.asname or al.name.split(".")[0]
            self.bind(bound)
            start = self.off(al.lineno, al.col_offset)
            if al.asname: self.token(self.find_name_after(al, al.asname, start + len(al.name)), bound)
            elif "." not in al.name: self.token(start, bound)
    def visit_ImportFrom(self, node):
        for al in node.names:
            if al.name == "*": continue
            bound = al.asname or al.name; self.bind(bound)
            start = self.off(al.lineno, al.col_offset)
            if al.asname: self.token(self.find_name_after(al, al.asname, start + len(al.name)), bound)
            else: self.token(start, bound)
    def visit_ExceptHandler(self, node):
        if node.type: self.visit(node.type)
        if node.name:
            self.bind(node.name); self.token(self.find_name_after(node, node.name, self.off(node.type.end_lineno, node.type.end_col_offset)), node.name)
        for st in node.body: self.visit(st)
    def visit_MatchAs(self, node):
        if node.pattern: self.visit(node.pattern)
        if node.name:
            self.bind(node.name)
            start = self.off(node.pattern.end_lineno, node.pattern.end_col_offset) if node.pattern else self.off(node.lineno, node.col_offset)
            self.token(self.find_name_after(node, node.name, start), node.name)
    def visit_MatchStar(self, node):
        if node.name: self.bind(node.name); self.token(self.find_name_after(node, node.name), node.name)
    def visit_MatchMapping(self, node):
        for k in node.keys: self.visit(k)
        for q in node.patterns: self.visit(q)
        if node.rest:
            self.bind(node.rest); self.token(self.find_name_after(node, node.rest, self.off(node.patterns[-1].end_lineno, node.patterns[-1].end_col_offset) if node.patterns else None), node.rest)
    def visit_keyword(self, node): self.visit(node.value)      # keyword *names* in calls are not tracked
    def visit_Attribute(self, node): self.visit(node.value)    # attribute names are not tracked
    # ----- resolution
    def resolve(self, name, scope):
        """-> binding key (scope id, name) or ('builtin', name)"""
        s = scope
        if name in s.globals: return (self.module.id, name)
        if name in s.nonlocals:
            t = s.func_parent()
            while t is not None and t.kind != "module":
                if name in t.bound and name not in t.nonlocals and t.kind != "class": return (t.id, name)
                t = t.func_parent()
            return ("unresolved-nonlocal", name)
        if name in s.bound: return (s.id, name)
        t = s.func_parent() if s.kind != "module" else None
        while t is not None:
            if name in t.globals: return (self.module.id, name)
            if name in t.bound and t.kind != "class":
                if name in t.nonlocals: t = t.func_parent(); continue
                return (t.id, name)
            t = t.func_parent() if t.kind != "module" else None
        return ("builtin", name)
    def bindings(self):
        """-> {binding key: sorted list of token offsets}"""
        out = {}
        for off, name, scope in self.uses:
            out.setdefault(self.resolve(name, scope), set()).add(off)
        return {k: sorted(v) for k, v in out.items()}

if __name__ == "__main__":
    src = "x = 1\ndef f(a, *, k=x):\n    global g\n    g = a\n    def h():\n        nonlocal a\n        a = [x for x in range(k) if (y := x)]\n        return y\n    return h\nclass C:\n    x = 2\n    def m(self): return x\n"
    b = Binder(src)
    for k, v in b.bindings().items(): print(k[1], [ (o, src[o:o+len(k[1])]) for o in v])

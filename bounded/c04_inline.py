"""B3 stand-in for C04: inlining against the interpreter's own call binding.
 pairs    : 7 signatures x every ordered pair of valid call shapes in one module, body `return (params...)`: after inlining, each call site must evaluate to
            the tuple the interpreter's binding produces for that call (independently of the other site) and the definition must be gone; or refused.
 variable : once-assigned variables and parameter defaults.
 projects : method with a dotted receiver, a caller whose local clashes with a local of the inlined body, a destination module importing a
            sub-module under an alias (the needed import must be added), two modules."""
import itertools
import os
import shutil
import subprocess
import sys
import tempfile
import warnings

SIGS = {"a": "(a,)", "a, b": "(a, b)", "a, b=20": "(a, b)", "a=10, b=20": "(a, b)", "a, b=20, c=30": "(a, b, c)", "a, *, k=40": "(a, k)", "a, /, b=20": "(a, b)"}
CALLS = ["1", "1, 2", "a=1", "1, b=2", "b=2, a=1", "1, 2, 3", "1, c=3", "1, k=4", "b=2", "", "1, b=2, c=3"]


def expected(sig, body, call):
    ns = {}
    try:
        exec("def f(%s):\n    return %s\nr = f(%s)\n" % (sig, body, call), ns)
        return ns["r"]
    except Exception:
        return "ERR"


def domain(tier, seed):
    out = []
    for sig, body in SIGS.items():
        valid = [c for c in CALLS if expected(sig, body, c) != "ERR"]
        for c1, c2 in itertools.product(valid, repeat=2):
            out.append((sig, c1, c2))
    return out


_P = {}


def run_case(case):
    warnings.simplefilter("ignore")
    from rope.base.project import Project
    from rope.base import exceptions
    from rope.refactor import inline
    if "p" not in _P:
        _P["d"] = tempfile.mkdtemp(prefix="verif-c04-")
        _P["p"] = Project(_P["d"], ropefolder=None)
        _P["f"] = _P["p"].root.create_file("m.py")
    p, f = _P["p"], _P["f"]
    sig, c1, c2 = case
    body = SIGS[sig]
    src = "def f(%s):\n    return %s\n\nr1 = f(%s)\nr2 = f(%s)\n" % (sig, body, c1, c2)
    f.write(src)
    try:
        ch = inline.create_inline(p, f, src.index("f(")).get_changes()
    except exceptions.RopeError:
        return {"status": "ok", "nontrivial": False, "key": repr(case)}
    except Exception as e:
        return {"status": "fail", "why": "internal %s: %s" % (type(e).__name__, str(e)[:80]), "clause": "refused with the library's error, never an internal exception",
                "observed": {"exception": type(e).__name__, "source": src}}
    new = ch.changes[0].new_contents
    ns = {}
    try:
        exec(new, ns)
    except Exception as e:
        return {"status": "fail", "why": "the inlined module fails with %s" % type(e).__name__, "clause": "result parses and runs",
                "observed": {"exception": type(e).__name__, "source": src, "result": new}}
    e1, e2 = expected(sig, body, c1), expected(sig, body, c2)
    if (ns.get("r1"), ns.get("r2")) != (e1, e2):
        which = "second call site only (state carried over from the first)" if ns.get("r1") == e1 else "a call site"
        return {"status": "fail", "why": "%s receives wrong parameter values: expected %r, got %r" % (which, (e1, e2), (ns.get("r1"), ns.get("r2"))),
                "clause": "every call site receives the body with arguments bound to the right parameters, independently of the other call sites",
                "observed": {"source": src, "result": new}}
    if "def f" in new:
        return {"status": "fail", "why": "the definition is still there", "clause": "the removed definition is no longer referenced", "observed": {"result": new}}
    return {"status": "ok", "nontrivial": c1 != c2, "key": repr(case)}


PROJECTS = {
    "dotted_receiver_method": {
        "files": {"user.py": "class Engine:\n    def __init__(self):\n        self.power = 10\n\n    def boost(self, n, factor=1):\n        return self.power * n * factor\n\n\nclass Car:\n    def __init__(self):\n        self.engine = Engine()\n        self.power = 1000\n\n\ncar = Car()\nprint(car.engine.boost(5, factor=2))\n"},
        "target": ("user.py", "boost")},
    "local_name_conflict_in_function": {
        "files": {"user.py": "def helper(x):\n    total = x + 100\n    return total\n\n\ndef caller():\n    total = 5\n    y = helper(9)\n    return total, y\n\n\nprint(caller())\n"},
        "target": ("user.py", "helper")},
    "needs_import_in_other_module": {
        "files": {"pkg/__init__.py": "VALUE = 3\n", "pkg/util.py": "def twice(v):\n    return v * 2\n",
                  "lib.py": "import pkg\n\n\ndef compute(n):\n    return pkg.VALUE + n\n",
                  "user.py": "import pkg.util as util\nimport lib\nprint(util.twice(2), lib.compute(4))\n"},
        "target": ("lib.py", "compute")},
    "multi_statement_body_separate_calls": {
        "files": {"user.py": "def g(a, b=3):\n    c = a * b\n    return c + 1\n\n\nr1 = g(2)\nr2 = g(2, 5)\nr3 = g(b=1, a=4)\nprint(r1, r2, r3)\n"},
        "target": ("user.py", "g")},
    "multi_statement_body_calls_on_one_line": {
        "files": {"user.py": "def g(a, b=3):\n    c = a * b\n    return c + 1\n\n\nprint(g(2), g(2, 5), g(b=1, a=4))\n"},
        "target": ("user.py", "g")},
    "same_call_text_in_two_scopes_one_clashing": {
        "files": {"user.py": "def scale(a):\n    t = a * 2\n    return t + 1\n\n\ndef first():\n    r = scale(3)\n    return r\n\n\ndef second():\n    t = 100\n    r = scale(3)\n"
                             "    return t + r\n\n\nprint(first(), second())\n"},
        "target": ("user.py", "scale")},
    "call_on_continuation_line_after_block": {
        "files": {"user.py": "def area(w):\n    t = w * 2\n    return t + 1\n\n\ndef run(flag):\n    total = 0\n    if flag:\n        total = 10\n    total += max(1,\n        area(2))\n"
                             "    return total\n\n\nprint(run(True), run(False))\n"},
        "target": ("user.py", "area")},
    "argument_mentions_clashing_host_name": {
        "files": {"user.py": "def helper(x):\n    total = x + 100\n    return total\n\n\ntotal = 7\nz = helper(total)\nprint(z, total)\n"},
        "target": ("user.py", "helper")},
}


def project_domain(tier, seed):
    return sorted(PROJECTS)


def project_case(name):
    warnings.simplefilter("ignore")
    import re
    from rope.base.project import Project
    from rope.base import exceptions
    from rope.refactor import inline
    sc = PROJECTS[name]
    root = tempfile.mkdtemp(prefix="verif-c04p-")
    try:
        for path, src in sc["files"].items():
            full = os.path.join(root, path)
            os.makedirs(os.path.dirname(full), exist_ok=True)
            with open(full, "w") as f:
                f.write(src)

        def run():
            r = subprocess.run([sys.executable, "-B", "user.py"], cwd=root, capture_output=True, text=True, timeout=30)
            return r.stdout + ("!rc=%d %s" % (r.returncode, (r.stderr.strip().splitlines() or [""])[-1]) if r.returncode else "")
        want = run()
        p = Project(root, ropefolder=None)
        path, word = sc["target"]
        off = re.search(r"def %s\b" % word, sc["files"][path]).start() + 4
        try:
            p.do(inline.create_inline(p, p.get_resource(path), off).get_changes())
        except exceptions.RefactoringError:
            return {"status": "ok", "nontrivial": False, "key": name}
        got = run()
        p.close()
        if got != want:
            return {"status": "fail", "why": "inlining %s changes the program's output: %r -> %r" % (word, want, got),
                    "clause": "the project behaves identically after inlining", "observed": {"files": sc["files"]}}
        left = [pth for pth in sc["files"] if re.search(r"\b%s\(" % word, open(os.path.join(root, pth)).read())]
        if left:
            return {"status": "fail", "why": "%s is still referenced in %s" % (word, left), "clause": "the removed definition is no longer referenced anywhere"}
        return {"status": "ok", "nontrivial": True, "key": name}
    finally:
        shutil.rmtree(root, ignore_errors=True)

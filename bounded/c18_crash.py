"""B3 stand-in for C18: crash states of a real save, then reopen and use the project.
Two families of crash states of `project.close()`:
  prefix  : the data file holds only its first k bytes (k = every prefix length: what dying inside pickle.dump after the in-place
            truncation leaves), for the history file and the objectdb file of a small project with two sessions of data;
  op      : the process dies right before the n-th file operation (open / write / truncate / close / os.replace / os.rename) that
            close() performs on the data files (simulated by raising out of an instrumented open() in rope.base.project; everything
            already written stays on disk).
After each, a new Project on the directory must open, `project.history` must load with the old, the new or an empty list pair, undoing
the last change (if any) must work, and analysing a module must not raise."""
import builtins
import os
import pickle
import shutil
import tempfile
import warnings

PREFS = dict(save_history=True, save_objectdb=True)
SRC1 = "def f(a):\n    return a\n\n\nx = f(1)\n"
SRC2 = "def f(a):\n    return [a]\n\n\nx = f('s')\n"


class _Crash(BaseException):
    pass


def _session1(root):
    from rope.base.project import Project
    from rope.base import change
    p = Project(root, **PREFS)
    f = p.root.create_file("m.py")
    f.write(SRC1)
    p.do(change.ChangeContents(f, SRC1 + "y = f(2)\n"))
    p.pycore.analyze_module(f)
    p.close()


def _session2_open(root):
    from rope.base.project import Project
    from rope.base import change
    p = Project(root, **PREFS)
    f = p.get_file("m.py")
    p.do(change.ChangeContents(f, SRC2))
    p.do(change.ChangeContents(p.root.get_child("m.py"), SRC2 + "z = f(3)\n")) if False else None
    p.pycore.analyze_module(f)
    return p


def _hist_sig(p):
    return ([str(c) + ":" + repr(getattr(c, "new_contents", None)) for c in p.history.undo_list],
            [str(c) for c in p.history.redo_list])


def _use(root, allowed_hist):
    """Open, ask for history, undo, analyse.  -> None or failure text"""
    from rope.base.project import Project
    try:
        q = Project(root, **PREFS)
    except Exception as e:
        return "opening the project raised %s: %s" % (type(e).__name__, e), type(e).__name__
    try:
        try:
            sig = _hist_sig(q)
        except Exception as e:
            return "project.history raised %s: %s" % (type(e).__name__, e), type(e).__name__
        if sig not in allowed_hist:
            return "history after the crash is neither the old, the new nor the empty version: %r" % (sig,), None
        try:
            m = q.get_resource("m.py")
            q.get_pymodule(m)
            q.pycore.analyze_module(m)
            q.get_pymodule(m)["x"].get_object().get_type()
        except Exception as e:
            return "analysing a module raised %s: %s" % (type(e).__name__, e), type(e).__name__
        if sig[0]:
            try:
                q.history.undo()
            except Exception as e:
                return "undo after reopening raised %s: %s" % (type(e).__name__, e), type(e).__name__
        return None
    finally:
        try:
            q.close()
        except Exception:
            pass


def _baseline():
    """-> (root with OLD data saved, allowed history signatures, new-version bytes per data file, old bytes per data file)"""
    root = tempfile.mkdtemp(prefix="verif-c18-")
    _session1(root)
    rp = os.path.join(root, ".ropeproject")
    old = {n: open(os.path.join(rp, n), "rb").read() for n in ("history", "objectdb")}
    from rope.base.project import Project
    q = Project(root, **PREFS)
    old_sig = _hist_sig(q)
    q.close()
    m_old = open(os.path.join(root, "m.py"), "rb").read()
    # a complete second session, to learn the new version
    root2 = tempfile.mkdtemp(prefix="verif-c18-")
    shutil.rmtree(root2)
    shutil.copytree(root, root2)
    p = _session2_open(root2)
    p.close()
    new = {n: open(os.path.join(root2, ".ropeproject", n), "rb").read() for n in ("history", "objectdb")}
    q = Project(root2, **PREFS)
    new_sig = _hist_sig(q)
    q.close()
    m_new = open(os.path.join(root2, "m.py"), "rb").read()
    shutil.rmtree(root2, ignore_errors=True)
    return root, [old_sig, new_sig, ([], [])], old, new, m_old, m_new


_BASE = {}


def _base():
    if "b" not in _BASE:
        warnings.simplefilter("ignore")
        _BASE["b"] = _baseline()
    return _BASE["b"]


def domain(tier, seed):
    root, allowed, old, new, m_old, m_new = _base()
    cases = [("prefix", n, k) for n in ("history", "objectdb") for k in range(len(new[n]) + 1)]
    cases += [("prefix-old", n, k) for n in ("history", "objectdb") for k in range(0, len(old[n]) + 1, 3 if tier == "quick" else 1)]
    cases += [("op", "", k) for k in range(1, 40)]
    # the process dies after exactly k bytes have gone through write() on the data files during the REAL close() (whatever way the save opens,
    # overwrites or truncates the files): every k up to the total the two pickles need, and a margin for variants that write more
    total = len(new["history"]) + len(new["objectdb"]) + 64
    cases += [("byte", "", k) for k in range(0, total)]
    return cases


def run_case(case):
    warnings.simplefilter("ignore")
    kind, name, k = case
    root0, allowed, old, new, m_old, m_new = _base()
    root = tempfile.mkdtemp(prefix="verif-c18-")
    shutil.rmtree(root)
    shutil.copytree(root0, root)
    try:
        rp = os.path.join(root, ".ropeproject")
        if kind in ("prefix", "prefix-old"):
            src = new if kind == "prefix" else old
            if kind == "prefix":       # the other data file and the module are already the new version or still old: try new
                for n in new:
                    open(os.path.join(rp, n), "wb").write(new[n])
                open(os.path.join(root, "m.py"), "wb").write(m_new)
            open(os.path.join(rp, name), "wb").write(src[name][:k])
            r = _use(root, allowed)
            if r:
                return {"status": "fail", "why": "%s cut to %d of %d bytes: %s" % (name, k, len(src[name]), r[0]),
                        "clause": "a crash state of the save opens and is usable", "observed": {"exception": r[1]}}
            return {"status": "ok", "nontrivial": 0 < k < len(src[name])}
        # ---- op-level crash ------------------------------------------------------------------------------
        import rope.base.project as rp_mod
        p = _session2_open(root)
        count = [0]
        real_open = builtins.open

        bytes_mode = kind == "byte"
        written = [0]

        def tick():
            if bytes_mode:
                return
            count[0] += 1
            if count[0] == k:
                raise _Crash()

        class F:
            def __init__(self, f, counted=True):
                self._f = f
                self._counted = counted

            def write(self, data):
                tick()
                if bytes_mode and self._counted:
                    room = k - written[0]
                    if len(data) > room:
                        # the process dies inside this write: only the first `room` bytes reach the file
                        self._f.write(data[:room])
                        self._f.flush()
                        written[0] += room
                        raise _Crash()
                    written[0] += len(data)
                return self._f.write(data)

            def truncate(self, *a):
                tick()
                return self._f.truncate(*a)

            def close(self):
                self._f.close()

            def __enter__(self):
                return self

            def __exit__(self, *a):
                self._f.close()

            def __getattr__(self, n):
                return getattr(self._f, n)

        def tracing_open(path, mode="r", *a, **kw):
            if ".ropeproject" in str(path) and any(c in mode for c in "wa+"):
                tick()
                # (the .json side files are never read by rope: their bytes are not counted)
                return F(real_open(path, mode, *a, **kw), counted=not str(path).endswith(".json"))
            return real_open(path, mode, *a, **kw)

        real_replace, real_rename = os.replace, os.rename

        def t_replace(a, b, *x, **kw):
            tick()
            return real_replace(a, b, *x, **kw)

        def t_rename(a, b, *x, **kw):
            tick()
            return real_rename(a, b, *x, **kw)
        rp_mod.open = tracing_open
        os.replace, os.rename = t_replace, t_rename
        crashed = False
        try:
            p.close()
        except _Crash:
            crashed = True
        finally:
            del rp_mod.open
            os.replace, os.rename = real_replace, real_rename
        if not crashed:
            return {"status": "skip", "why": "close() performs fewer than %d data-file %s" % (k, "bytes" if bytes_mode else "operations")}
        r = _use(root, allowed)
        if r:
            return {"status": "fail", "why": "process dies %s of close(): %s" % ("after %d data-file bytes" % k if bytes_mode else "before data-file operation %d" % k, r[0]),
                    "clause": "a crash state of the save opens and is usable", "observed": {"exception": r[1]}}
        return {"status": "ok"}
    finally:
        shutil.rmtree(root, ignore_errors=True)

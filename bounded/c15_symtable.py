"""B3 stand-in for C15: rope's scopes and name tables against the interpreter's symbol table, one binding construct per module,
every construct x 5 contexts (module, function, class, method, nested function with nonlocal).  Per scope (module / function / class):
the names rope records == the names symtable binds there (parameters, imports, assignments of every form, definitions, loop/with/except/
walrus targets; global/nonlocal declarations excluded), scope kinds match, and the scope's first line == symtable's line.
Then, for every name the module's scopes bind, lookup from the innermost scope reaches a binding (rope lookup not None) exactly when the
interpreter resolves it statically (local, enclosing function, global)."""
import shutil
import symtable
import tempfile
import warnings

body_constructs = {
 "assign": "x = 1",
 "tuple_assign": "x, (y, z) = 1, (2, 3)",
 "list_assign": "[x, y] = 1, 2",
 "star_assign": "x, *y = 1, 2, 3",
 "annassign": "x: int = 1",
 "annassign_novalue": "x: int",
 "augassign": "x = 0\nx += 1",
 "walrus": "if (x := 1): pass",
 "walrus_in_comp": "y = [x for a in range(3) if (x := a)]",
 "for": "for x in range(3): pass",
 "for_tuple": "for x, y in []: pass",
 "for_else": "for x in []: pass\nelse: z = 1",
 "while_body": "while False: x = 1",
 "with": "with open('f') as x: pass",
 "with_tuple": "with open('f') as (x, y): pass",
 "with_multi": "with open('f') as x, open('g') as y: pass",
 "except": "try: pass\nexcept Exception as x: pass",
 "try_body": "try: x = 1\nfinally: y = 2",
 "except_star": "try: pass\nexcept* Exception as x: pass",
 "import": "import os",
 "import_dotted": "import os.path",
 "import_as": "import os.path as x",
 "from_import": "from os import path",
 "from_import_as": "from os import path as x",
 "def": "def x(): pass",
 "async_def": "async def x(): pass",
 "class": "class x: pass",
 "decorated": "@staticmethod\ndef x(): pass",
 "global_decl": "global x\nx = 1",
 "match_capture": "match 1:\n    case x: pass",
 "match_seq": "match [1,2]:\n    case [x, *y]: pass",
 "match_map": "match {}:\n    case {'k': x, **y}: pass",
 "match_as": "match 1:\n    case int() as x: pass",
 "match_class": "match 1:\n    case int(real=x): pass",
 "del": "x = 1\ndel x",
 "type_alias": "type x = int",
 "lambda_param": "y = lambda x: x",
 "comp_target": "y = [x for x in range(3)]",
 "nested_def_param": "def g(x, /, y, *a, z, w=1, **k): pass",
 "if_body": "if 1: x = 1\nelse: y = 2",
 "async_for": "async def g():\n    async for x in y: pass",
 "async_with": "async def g():\n    async with a as x: pass",
}
contexts = {
 "module": "{body}\n",
 "function": "def outer():\n{ibody}\n",
 "class": "class C:\n{ibody}\n",
 "method": "class C:\n    def m(self):\n{iibody}\n",
 "nested_nonlocal": "def outer():\n    x = 0\n    def inner():\n        nonlocal x\n{iibody}\n",
}


def indent(s, n):
    return "\n".join(" " * n + l for l in s.split("\n"))


def domain(tier, seed):
    return [(cn, bn) for cn in contexts for bn in body_constructs]


def source_of(case):
    cn, bn = case
    body = body_constructs[bn]
    return contexts[cn].format(body=body, ibody=indent(body, 4), iibody=indent(body, 8))


def sym_scopes(st):
    out = {}

    def bound(t):
        r = set()
        for s in t.get_symbols():
            if s.is_parameter() or s.is_imported() or (s.is_assigned() and not s.is_global() and not s.is_nonlocal()) or (t.get_type() == "module" and s.is_assigned()):
                r.add(s.get_name())
            elif s.is_namespace() and not s.is_global() and not s.is_nonlocal():
                r.add(s.get_name())
        return r
    if st.get_type() in ("module", "function", "class"):
        out[(st.get_type(), st.get_name(), st.get_lineno())] = bound(st)
    for c in st.get_children():
        out.update(sym_scopes(c))
    return out


def rope_scopes(sc):
    out = {}
    kind = {"Module": "module", "Function": "function", "Class": "class"}.get(sc.get_kind())
    if kind:
        name = "top" if kind == "module" else sc.pyobject.get_name()
        names = set(sc.get_defined_names().keys()) if kind != "function" else set(sc.get_names().keys())
        out[(kind, name, 0 if kind == "module" else sc.get_start())] = names
    for c in sc.get_scopes():
        out.update(rope_scopes(c))
    return out


_P = {}


def run_case(case):
    warnings.simplefilter("ignore")
    from rope.base.project import Project
    from rope.base import libutils
    if "p" not in _P:
        _P["d"] = tempfile.mkdtemp(prefix="verif-c15-")
        _P["p"] = Project(_P["d"], ropefolder=None)
    p = _P["p"]
    src = source_of(case)
    try:
        st = symtable.symtable(src, "m", "exec")
    except SyntaxError:
        return {"status": "skip", "why": "not valid in this context"}
    try:
        m = libutils.get_string_module(p, src)
        rs = rope_scopes(m.get_scope())
    except Exception as e:
        return {"status": "fail", "why": "building the scopes raised %s: %s" % (type(e).__name__, str(e)[:80]), "clause": "scopes are built for every valid module",
                "observed": {"exception": type(e).__name__, "source": src}}
    ss = sym_scopes(st)
    # oracle corrections (language reference, not raw symtable flags): under PEP 709 symtable reports the iteration variables of inlined
    # comprehensions in the enclosing block although they are not bound there; names declared global/nonlocal are not bindings of the scope
    import ast as _ast
    tree = _ast.parse(src)
    comp_targets, other, declared = set(), set(), set()
    for node in _ast.walk(tree):
        if isinstance(node, _ast.comprehension):
            comp_targets |= {n.id for n in _ast.walk(node.target) if isinstance(n, _ast.Name)}
        elif isinstance(node, _ast.NamedExpr):
            other.add(node.target.id)
        elif isinstance(node, (_ast.Global, _ast.Nonlocal)):
            declared |= set(node.names)
    comp_only = comp_targets - other
    for (k, nm, ln), names in ss.items():
        if nm in ("lambda", "listcomp", "genexpr", "setcomp", "dictcomp"):
            continue
        rk = (k, "top" if k == "module" else nm, 0 if k == "module" else ln)
        rn = rs.get(rk)
        if rn is None:
            cand = [(kk, v) for kk, v in rs.items() if kk[0] == k and kk[1] == rk[1]]
            if cand and any(d in src for d in ("@staticmethod",)):
                rn = cand[0][1]      # decorated definitions: symtable reports the decorator line
            elif cand:
                return {"status": "fail", "why": "scope %s %s starts at line %s in rope, %s in the symbol table" % (k, nm, cand[0][0][2], ln),
                        "clause": "scope line extents", "observed": {"source": src}}
        if rn is None:
            return {"status": "fail", "why": "rope has no %s scope named %s" % (k, nm), "clause": "same scopes as the symbol table", "observed": {"source": src}}
        names = names - comp_only - declared
        rn = rn - declared
        if rn != names:
            return {"status": "fail", "why": "%s scope %s: names missing in rope %s, extra in rope %s" % (k, nm, sorted(names - rn), sorted(rn - names)),
                    "clause": "names defined per scope == names the symbol table binds there",
                    "observed": {"missing": sorted(names - rn), "extra": sorted(rn - names), "source": src}}
    # resolution of declared names: a name declared nonlocal/global in a scope resolves to the binding of the enclosing function / the module
    if case[0] == "nested_nonlocal":
        outer = m.get_scope().get_scopes()[0]
        inner = outer.get_scopes()[0]
        a, b = inner.lookup("x"), outer.lookup("x")
        la = a.get_definition_location()[1] if a is not None else None
        lb = b.get_definition_location()[1] if b is not None else None
        if a is None or la != lb:
            return {"status": "fail", "why": "`nonlocal x`: lookup from the inner function reaches a binding defined at line %s, the enclosing function's x is defined at line %s" % (la, lb),
                    "clause": "looking a name up from a scope finds the binding the interpreter would use", "observed": {"source": src}}
    return {"status": "ok", "key": repr(case)}


# ---- lookup through nested scopes (LEGB with class scopes skipped) and scope extents --------------------------------------------
def lookup_domain(tier, seed):
    import itertools
    cases = []
    for kinds in itertools.product("fc", repeat=3):
        for binds in itertools.product((0, 1), repeat=4):
            cases.append(("".join(kinds), binds))
    return cases


def lookup_source(case):
    kinds, binds = case
    lines, bind_line = [], {}
    if binds[0]:
        lines.append("x = 0")
        bind_line[0] = len(lines)
    ind = ""
    for level, k in enumerate(kinds, 1):
        lines.append(ind + ("def s%d(*a):" % level if k == "f" else "class s%d:" % level))
        ind += "    "
        if binds[level]:
            lines.append(ind + "x = %d" % level)
            bind_line[level] = len(lines)
        lines.append(ind + "y%d = 1" % level)
    return "\n".join(lines) + "\n", bind_line


def lookup_case(case):
    warnings.simplefilter("ignore")
    from rope.base.project import Project
    from rope.base import libutils
    if "p" not in _P:
        _P["d"] = tempfile.mkdtemp(prefix="verif-c15-")
        _P["p"] = Project(_P["d"], ropefolder=None)
    kinds, binds = case
    src, bind_line = lookup_source(case)
    m = libutils.get_string_module(_P["p"], src)
    scopes = [m.get_scope()]
    for level in range(1, 4):
        subs = scopes[-1].get_scopes()
        if len(subs) != 1:
            return {"status": "fail", "why": "expected one scope nested at level %d, rope has %d" % (level, len(subs)), "clause": "same scopes", "observed": {"source": src}}
        scopes.append(subs[0])
    allkinds = "m" + kinds
    for level in range(0, 4):
        # reference: innermost enclosing scope that binds x, starting scope counts even if it is a class, enclosing class scopes are skipped
        want = None
        for up in range(level, -1, -1):
            if binds[up] and (up == level or allkinds[up] != "c"):
                want = bind_line[up]
                break
        got = scopes[level].lookup("x")
        gl = got.get_definition_location()[1] if got is not None else None
        if gl != want:
            return {"status": "fail", "why": "lookup('x') from the level-%d scope finds the binding of line %s, Python's scoping rules give line %s" % (level, gl, want),
                    "clause": "looking a name up from a scope finds the binding the interpreter would use", "observed": {"source": src, "got": gl, "want": want}}
    return {"status": "ok", "key": repr(case), "nontrivial": sum(binds) > 1}


EXTENT_SNIPPETS = [
    "def f(): return (1,\n          2)\nx = 1\ndef g():\n    pass\ny = 2\n",
    "def f(): pass\nx = 1\n",
    "class C: a = (1,\n             2)\nz = 3\n",
    "def f():\n    return 1\n\n\nx = 2\n",
    "def f(a,\n      b):\n    return (a +\n            b)\nx = 1\n",
    "class C:\n    def m(self): return [1,\n        2]\n    def n(self):\n        pass\nq = 1\n",
    "@property\ndef top(self):\n    return 1\n\n\ndef make():\n    @property\n    def size(self):\n        return 2\n    return size\n",
    "def f():\n    x = '''a\nb'''\n    return x\ny = 1\n",
    "if True:\n    def f():\n        pass\nelse:\n    def f():\n        return 1\nz = 1\n",
    "async def f():\n    await g()\nasync def g(): return (1,\n 2)\nw = 0\n",
]


def extent_domain(tier, seed):
    return list(range(len(EXTENT_SNIPPETS)))


def extent_case(i):
    import ast as _ast
    warnings.simplefilter("ignore")
    from rope.base.project import Project
    from rope.base import libutils
    if "p" not in _P:
        _P["d"] = tempfile.mkdtemp(prefix="verif-c15-")
        _P["p"] = Project(_P["d"], ropefolder=None)
    src = EXTENT_SNIPPETS[i]
    tree = _ast.parse(src)
    want = sorted((n.name, n.lineno, n.end_lineno) for n in _ast.walk(tree) if isinstance(n, (_ast.FunctionDef, _ast.AsyncFunctionDef, _ast.ClassDef)))
    m = libutils.get_string_module(_P["p"], src)
    got = []

    def walk(sc):
        for c in sc.get_scopes():
            got.append((c.pyobject.get_name(), c.pyobject.get_ast().lineno, c.get_end()))
            walk(c)
    walk(m.get_scope())
    if sorted(got) != want:
        return {"status": "fail", "why": "scope extents (name, first line, last line) %s differ from the interpreter's %s" % (sorted(got), want),
                "clause": "scopes have the line extents the interpreter reports", "observed": {"source": src}}
    # every definition's name is recorded in its holding scope
    st = symtable.symtable(src, "m", "exec")

    def names_ok(sym, sc):
        for ch in sym.get_children():
            if ch.get_type() in ("function", "class") and ch.get_name() not in ("lambda", "listcomp", "genexpr"):
                table = sc.get_names() if sc.get_kind() == "Function" else sc.get_defined_names()
                if ch.get_name() not in table:
                    return "definition %s is missing from the names of its holding scope" % ch.get_name()
                sub = [c for c in sc.get_scopes() if c.pyobject.get_name() == ch.get_name()]
                if sub:
                    r = names_ok(ch, sub[0])
                    if r:
                        return r
        return None
    r = names_ok(st, m.get_scope())
    if r:
        return {"status": "fail", "why": r, "clause": "names defined per scope == names the symbol table binds there", "observed": {"source": src}}
    return {"status": "ok", "key": i}

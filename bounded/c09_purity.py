"""B3 stand-ins for C09.
 grid      : 12 refactorings x every offset of a 17-line module: computing the changes is run under an *effect monitor* (every file-system mutator of
             os / shutil / builtins.open(write modes) / FileSystemCommands is intercepted) and a disk snapshot; the outcome must be a change object or one of
             rope's own errors; no mutator may be called, the snapshot must be unchanged.
 announced : performing the changes modifies exactly the announced resources, all inside the project: out-of-project library, ignored folders and
             patterns (incl. the any-depth `//` form), a module moved into an ignored folder before a rename, `resources=` restrictions."""
import builtins
import os
import shutil
import tempfile
import warnings

SRC = '''import os
from os import path as pth
GLOBAL = 1
class Base:
    attr = 1
    def meth(self, arg, *rest, kw=2, **kws):
        local = arg + self.attr
        for i in range(local):
            if (w := i) > 2:
                print(w, pth, os.sep)
        return [c for c in rest if c]
def func(a, b=GLOBAL):
    with open(a) as fh:
        data = fh.read()
    return Base().meth(data, kw=b)
x = func("f", 2)
'''
KINDS = ["Rename", "Inline", "ChangeSignature", "Move", "EncapsulateField", "IntroduceFactory", "MethodObject", "LocalToField", "UseFunction",
         "IntroduceParameter", "ExtractVariable", "ExtractMethod"]


def snap(d):
    out = {}
    for r, ds, fs in os.walk(d):
        for x in ds:
            out[os.path.relpath(os.path.join(r, x), d)] = "DIR"
        for x in fs:
            with open(os.path.join(r, x), "rb") as f:
                out[os.path.relpath(os.path.join(r, x), d)] = f.read()
    return out


class EffectViolation(BaseException):
    pass


class monitor:
    """Intercepts every way of changing the disk; any call is recorded (and refused)."""

    def __init__(self):
        self.calls = []

    def __enter__(self):
        self.saved = []
        mon = self

        def deny(name):
            def f(*a, **kw):
                mon.calls.append((name, repr(a)[:120]))
                raise EffectViolation(name)
            return f
        for mod, names in ((os, ["remove", "unlink", "mkdir", "makedirs", "rename", "replace", "rmdir", "removedirs", "truncate", "symlink", "link"]),
                           (shutil, ["move", "rmtree", "copy", "copy2", "copyfile", "copytree"])):
            for n in names:
                self.saved.append((mod, n, getattr(mod, n)))
                setattr(mod, n, deny("%s.%s" % (mod.__name__, n)))
        real_open = builtins.open
        self.saved.append((builtins, "open", real_open))

        def guarded_open(file, mode="r", *a, **kw):
            if any(c in mode for c in "wax+"):
                mon.calls.append(("open", "%r %r" % (file, mode)))
                raise EffectViolation("open(%r, %r)" % (file, mode))
            return real_open(file, mode, *a, **kw)
        builtins.open = guarded_open
        return self

    def __exit__(self, *exc):
        for mod, n, v in self.saved:
            setattr(mod, n, v)
        return False


def _refactor(kind, p, f, o):
    from rope.refactor import rename, inline, change_signature as cs, move, encapsulate_field, introduce_factory, method_object, localtofield, usefunction, introduce_parameter, extract
    n = len(SRC)
    return {
        "Rename": lambda: rename.Rename(p, f, o).get_changes("zzz"),
        "Inline": lambda: inline.create_inline(p, f, o).get_changes(),
        "ChangeSignature": lambda: cs.ChangeSignature(p, f, o).get_changes([cs.ArgumentNormalizer()]),
        "Move": lambda: move.create_move(p, f, o).get_changes(p.get_file("dest.py")),
        "EncapsulateField": lambda: encapsulate_field.EncapsulateField(p, f, o).get_changes(),
        "IntroduceFactory": lambda: introduce_factory.IntroduceFactory(p, f, o).get_changes("create"),
        "MethodObject": lambda: method_object.MethodObject(p, f, o).get_changes("NewClass"),
        "LocalToField": lambda: localtofield.LocalToField(p, f, o).get_changes(),
        "UseFunction": lambda: usefunction.UseFunction(p, f, o).get_changes(),
        "IntroduceParameter": lambda: introduce_parameter.IntroduceParameter(p, f, o).get_changes("newp"),
        "ExtractVariable": lambda: extract.ExtractVariable(p, f, o, min(o + 3, n)).get_changes("ev"),
        "ExtractMethod": lambda: extract.ExtractMethod(p, f, o, min(o + 9, n)).get_changes("em"),
    }[kind]()


_P = {}


def grid_domain(tier, seed):
    return [(k, o) for k in KINDS for o in range(len(SRC))]


def grid_case(case):
    warnings.simplefilter("ignore")
    from rope.base.project import Project
    from rope.base import exceptions
    if "p" not in _P:
        root = tempfile.mkdtemp(prefix="verif-c09-")
        p = Project(root, ropefolder=None)
        f = p.root.create_file("m.py")
        f.write(SRC)
        p.root.create_file("dest.py").write("")
        _P.update(root=root, p=p, f=f, base=snap(root))
    p, f, root = _P["p"], _P["f"], _P["root"]
    kind, o = case
    with monitor() as mon:
        try:
            _refactor(kind, p, f, o)
            outcome = "changes"
        except exceptions.RopeError as e:
            outcome = "refused"
        except EffectViolation as e:
            outcome = "effect"
        except Exception as e:
            outcome = "internal:" + type(e).__name__
            exc = e
    if mon.calls or outcome == "effect":
        return {"status": "fail", "why": "computing the changes of %s at offset %d called %s" % (kind, o, mon.calls[:2]),
                "clause": "computing the changes of any refactoring never modifies anything on disk", "observed": {"calls": mon.calls[:3]}}
    if snap(root) != _P["base"]:
        return {"status": "fail", "why": "computing the changes of %s at offset %d changed the disk" % (kind, o),
                "clause": "computing the changes of any refactoring never modifies anything on disk"}
    if outcome.startswith("internal:"):
        return {"status": "fail", "why": "%s at offset %d (%r) ends in an internal %s: %s" % (kind, o, SRC[o:o + 8], outcome[9:], str(exc)[:60]),
                "clause": "a request rope cannot honour is refused with one of the library's own error types, never with an internal exception",
                "observed": {"exception": outcome[9:], "refactoring": kind}}
    return {"status": "ok", "nontrivial": outcome == "changes", "key": repr(case)}


# ---- announced == touched, all inside the project ---------------------------------------------------------------------
def _mk(base, files):
    for path, src in files.items():
        full = os.path.join(base, path)
        os.makedirs(os.path.dirname(full), exist_ok=True)
        with open(full, "w") as f:
            f.write(src)


LIB = {"lib/extlib.py": "def helper(a, b=1):\n    return a + b\n\n\nclass K:\n    field = 1\n"}
USER = "import extlib\nx = extlib.helper(1, 2)\nk = extlib.K()\nprint(k.field)\n"


def _scen_out_of_project(kind):
    def run(base):
        from rope.base.project import Project
        from rope.refactor import rename, inline, change_signature, encapsulate_field, introduce_factory
        _mk(base, dict(LIB, **{"proj/m.py": USER}))
        p = Project(os.path.join(base, "proj"), ropefolder=None, python_path=[os.path.join(base, "lib")])
        f = p.get_file("m.py")
        fn = {"rename_func": lambda: rename.Rename(p, f, USER.index("helper")).get_changes("aid"),
              "inline_func": lambda: inline.create_inline(p, f, USER.index("helper")).get_changes(),
              "chsig": lambda: change_signature.ChangeSignature(p, f, USER.index("helper")).get_changes([change_signature.ArgumentReorderer([1, 0])]),
              "rename_module": lambda: rename.Rename(p, f, USER.index("extlib")).get_changes("newlib"),
              "encapsulate": lambda: encapsulate_field.EncapsulateField(p, f, USER.index("field")).get_changes(),
              "factory": lambda: introduce_factory.IntroduceFactory(p, f, USER.index("K()")).get_changes("create")}[kind]
        return p, fn
    return run


def _scen_ignored(kind):
    def run(base):
        from rope.base.project import Project
        from rope.refactor import rename, move
        files = {"proj/core.py": "def compute(v):\n    return v + 1\n", "proj/user.py": "from core import compute\nprint(compute(1))\n",
                 "proj/gen/deep/x_pb2.py": "from core import compute\ny = compute(2)\n", "proj/attic/old.py": "from core import compute\nz = compute(3)\n",
                 "proj/helper.py": "from core import compute\nh = compute(4)\n"}
        _mk(base, files)
        p = Project(os.path.join(base, "proj"), ropefolder=None, ignored_resources=["gen//*_pb2.py", "attic", "*.pyc", "*~"])
        if kind == "rename_with_ignored":
            fn = lambda: rename.Rename(p, p.get_file("core.py"), 4).get_changes("calc")
        else:   # warm the file list, move a module into the ignored folder through rope, then rename
            p.get_files()
            p.get_file("helper.py").move("attic/helper.py")
            fn = lambda: rename.Rename(p, p.get_file("core.py"), 4).get_changes("calc")
        # documented meaning of the patterns, independent of rope's matcher: `attic` ignores the folder, `gen//*_pb2.py` any depth below gen
        fn.must_stay = {"gen/deep/x_pb2.py", "attic/old.py", "attic/helper.py"}
        return p, fn
    return run


def _scen_resources_restriction(base):
    from rope.base.project import Project
    from rope.refactor import encapsulate_field
    files = {"proj/shapes.py": "class Box:\n    size = 1\n", "proj/caller.py": "import shapes\nb = shapes.Box()\nprint(b.size)\n",
             "proj/other.py": "import shapes\nc = shapes.Box()\nc.size = 5\n"}
    _mk(base, files)
    p = Project(os.path.join(base, "proj"), ropefolder=None)
    src = files["proj/shapes.py"]
    fn = lambda: encapsulate_field.EncapsulateField(p, p.get_file("shapes.py"), src.index("size")).get_changes(resources=[p.get_file("caller.py")])
    fn.allowed = {"caller.py"}
    return p, fn


SCENARIOS = {("out_of_project", k): _scen_out_of_project(k) for k in ("rename_func", "inline_func", "chsig", "rename_module", "encapsulate", "factory")}
SCENARIOS.update({("ignored", k): _scen_ignored(k) for k in ("rename_with_ignored", "moved_into_ignored_then_rename")})
SCENARIOS[("resources", "encapsulate_restricted")] = _scen_resources_restriction


def announced_domain(tier, seed):
    return sorted(SCENARIOS)


def announced_case(key):
    warnings.simplefilter("ignore")
    from rope.base import exceptions
    base = tempfile.mkdtemp(prefix="verif-c09a-")
    try:
        p, fn = SCENARIOS[key](base)
        before = snap(base)
        try:
            with monitor() as mon:
                ch = fn()
        except exceptions.RopeError:
            if snap(base) != before:
                return {"status": "fail", "why": "a refused request changed the disk", "clause": "a refused request leaves the disk untouched"}
            return {"status": "ok", "nontrivial": False, "key": repr(key)}
        except EffectViolation as e:
            return {"status": "fail", "why": "computing the changes called %s" % e, "clause": "computing the changes never modifies anything on disk"}
        except Exception as e:
            return {"status": "fail", "why": "internal %s: %s" % (type(e).__name__, str(e)[:80]),
                    "clause": "a request rope cannot honour is refused with one of the library's own error types, never with an internal exception",
                    "observed": {"exception": type(e).__name__}}
        announced = set()
        for r in ch.get_changed_resources():
            if r.project is not p:
                return {"status": "fail", "why": "the change announces %s, which is not a resource of the project" % r.real_path,
                        "clause": "all changed resources are inside the project", "observed": {"resource": r.real_path}}
            if p.is_ignored(r):
                return {"status": "fail", "why": "the change announces the ignored resource %s" % r.path, "clause": "never an ignored module", "observed": {"resource": r.path}}
            if r.path in getattr(fn, "must_stay", ()):
                return {"status": "fail", "why": "the change announces %s, which the project's ignored_resources patterns exclude" % r.path,
                        "clause": "never an ignored module", "observed": {"resource": r.path}}
            announced.add(os.path.join("proj", r.path))
        allowed = getattr(fn, "allowed", None)
        if allowed is not None and not {a[5:] for a in announced} <= allowed:
            return {"status": "fail", "why": "the change touches %s although resources= restricts it to %s" % (sorted(announced), sorted(allowed)),
                    "clause": "exactly the resources the change object lists / the request allows"}
        try:
            p.do(ch)
        except Exception as e:
            return {"status": "fail", "why": "performing the announced changes raised %s: %s" % (type(e).__name__, str(e)[:80]),
                    "clause": "performing them modifies exactly the resources the change object lists", "observed": {"exception": type(e).__name__}}
        after = snap(base)
        changed = {k for k in set(before) | set(after) if before.get(k) != after.get(k) and after.get(k) != "DIR" and before.get(k) != "DIR"}
        if not changed <= announced:
            return {"status": "fail", "why": "performing the changes modified %s, announced were %s" % (sorted(changed - announced), sorted(announced)),
                    "clause": "performing them modifies exactly the resources the change object lists", "observed": {"unannounced": sorted(changed - announced)}}
        outside = [k for k in changed if not k.startswith("proj" + os.sep) and not k.startswith("proj/")]
        if outside:
            return {"status": "fail", "why": "files outside the project were modified: %s" % outside, "clause": "never anything outside the project root"}
        p.close()
        return {"status": "ok", "nontrivial": bool(changed), "key": repr(key)}
    finally:
        shutil.rmtree(base, ignore_errors=True)

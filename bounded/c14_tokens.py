"""B3 stand-in for C14: rope's view of source text against the tokenizer, on every valid text of a small-scope domain.
 strings : texts of <= 5 (thorough 6) symbols over {a ' " f { } # \\n \\\\ r b}  (+ a fixed list of prefixed / escaped / f-string literals)
 code    : texts of <= 4 (thorough 5) symbols over {a b1 . ( ) [ ] ' " # \\\\\\n \\n space ; = , :}
 clauses : ignored regions == STRING / COMMENT / f-string token extents; real_code keeps the length and every character outside those regions
           (up to the whitespace substitutions); logical lines (both finders) == tokenizer statement boundaries; the word at every offset of a NAME
           token is that token; the primary at the last name of an attribute chain is the whole chain."""
import io
import itertools
import tokenize
import warnings

S_ALPHA = ["a", "'", '"', "f", "{", "}", "#", "\n", "\\", "r", "b"]
C_ALPHA = ["a", "b1", ".", "(", ")", "[", "]", "'", '"', "#", "\\\n", "\n", " ", ";", "=", ",", ":"]
FIXED = [
    "x = rf'n={count}'\n", "x = Rf'{a}'\n", "x = fr'{a}' + rF'{b}'\n", "x = RF\"{a}\"\n", "x = br'a' + Rb'b' + u'c'\n", "x = f'{a!r:>{w}}'\n",
    "sep = \"\\\\\"\nx = 1\ny = 2\n", "p = 'C:\\\\dir\\\\'\nq = 3\n", "d = \"\"\"x\\\\\"\"\"\nz = 1\n", "s = '\\\\\\''\nt = 2\n",
    "s = 'a' \\\n    'b'\nu = 1\n", "x = (1,\n     2)\ny = 3\n", "x = [\n  1,  # c (\n  2]\ny = 1\n", "if a:\n    b = '''q\nr'''\nc = 1\n",
    "x = 1  # comment ' quote\ny = \"#\"\n", "a = '#' # '\n",
    "x = f'{''}'\n", "x = f'{a\n}'\n",
]
CHAINS = ["match.group", "re.match", "type(obj).__name__", "_('x').format", "case.value", "a.b.c", "self.x.y", "other.span", "f(1)[2].g", "lambda_.x", "print.q", "match"]


def domain(tier, seed):
    out = []
    ns = 6 if tier == "thorough" else 5
    nc = 5 if tier == "thorough" else 4
    for L in range(1, ns + 1):
        for tup in itertools.product(S_ALPHA, repeat=L):
            out.append(("s", "".join(tup) + "\n"))
    for L in range(1, nc + 1):
        for tup in itertools.product(C_ALPHA, repeat=L):
            out.append(("c", "".join(tup) + "\n"))
    out += [("s", t) for t in FIXED] + [("c", t) for t in FIXED]
    out += [("p", c) for c in CHAINS]
    return out


def _starts(src):
    starts = [0]
    for l in src.splitlines(True):
        starts.append(starts[-1] + len(l))
    return starts


def tok_regions(src):
    out = []
    starts = _starts(src)
    off = lambda p: starts[p[0] - 1] + p[1]
    fstart = None
    depth = 0
    for t in tokenize.generate_tokens(io.StringIO(src).readline):
        if t.type == tokenize.FSTRING_START:
            if depth == 0:
                fstart = off(t.start)
            depth += 1
        elif t.type == tokenize.FSTRING_END:
            depth -= 1
            if depth == 0:
                out.append((fstart, off(t.end)))
        elif depth == 0 and t.type in (tokenize.STRING, tokenize.COMMENT):
            out.append((off(t.start), off(t.end)))
    return out


def stmt_regions(src):
    out = []
    prev_end = 0
    has_code = False
    for t in tokenize.generate_tokens(io.StringIO(src).readline):
        if t.type in (tokenize.INDENT, tokenize.DEDENT, tokenize.ENDMARKER, tokenize.COMMENT):
            continue
        if t.type == tokenize.NL:
            if not has_code:
                prev_end = t.start[0]
            continue
        if t.type == tokenize.NEWLINE:
            out.append((prev_end + 1, t.start[0]))
            prev_end = t.start[0]
            has_code = False
            continue
        has_code = True
    return out


def name_tokens(src):
    starts = _starts(src)
    res = []
    depth = 0
    for t in tokenize.generate_tokens(io.StringIO(src).readline):
        if t.type == tokenize.NAME:
            res.append((starts[t.start[0] - 1] + t.start[1], starts[t.end[0] - 1] + t.end[1], t.string))
    return res


def fail(why, clause, src, **obs):
    return {"status": "fail", "why": why, "clause": clause, "observed": dict(obs, source=src)}


def run_case(case):
    warnings.simplefilter("ignore")
    from rope.base import simplify, codeanalyze, worder
    kind, s = case
    if kind == "p":
        src = "x = %s\n" % s
        w = worder.Worder(src)
        end = 4 + len(s)
        # offset on the last identifier of the chain
        names = [n for n in name_tokens(src) if n[0] >= 4]
        last = names[-1]
        import ast
        node = ast.parse(s, mode="eval").body
        want = s if isinstance(node, (ast.Attribute, ast.Name)) else None
        if want is not None:
            got = w.get_primary_at(last[0])
            if got != want:
                return fail("primary at the last name of %r is %r" % (s, got), "the dotted expression at an identifier's offset is its attribute chain", src)
        for (a, b, text) in names:
            if w.get_word_at(a) != text:
                return fail("word at %d is %r, token is %r" % (a, w.get_word_at(a), text), "the word at an identifier's offset is that identifier's token", src)
        return {"status": "ok", "key": repr(case)}
    try:
        compile(s, "x", "exec")
        tr = tok_regions(s)
        regs = stmt_regions(s)
        names = name_tokens(s)
    except (SyntaxError, tokenize.TokenError, ValueError, IndentationError):
        return {"status": "skip", "why": "not a valid source text"}
    if kind == "s":
        rr = [(a, b) for a, b, _ in simplify.ignored_regions(s)]
        if rr != tr:
            return fail("string/comment regions %s, tokenizer %s" % (rr, tr), "regions treated as strings and comments == tokenizer string and comment tokens", s)
        rc = simplify.real_code(s)
        if len(rc) != len(s):
            return fail("simplified text has length %d, source %d" % (len(rc), len(s)), "the simplified text has the same length", s)
        inside = set()
        for a, b in tr:
            inside |= set(range(a, b))
        for i, (c, d) in enumerate(zip(s, rc)):
            if i not in inside and c != d and not (c in "\\\n\t;" and d in " \n"):
                return fail("character %d outside the ignored regions changed from %r to %r" % (i, c, d), "same characters outside those regions", s)
        w = worder.Worder(s)
        for (a, b, text) in names:
            if any(x <= a < y for x, y in tr if not s[x:y].lower().lstrip("rb").startswith("f")):
                continue
            for off in range(a, b):
                if w.get_word_at(off) != text:
                    return fail("word at offset %d is %r, the NAME token there is %r" % (off, w.get_word_at(off), text),
                                "the word at an identifier's offset is that identifier's token", s)
        return {"status": "ok", "key": s, "nontrivial": bool(tr)}
    lines = codeanalyze.SourceLinesAdapter(s)
    src_lines = s.split("\n")
    for gen_name, gen in (("custom", codeanalyze.custom_generator), ("tokenizer", lambda l: list(codeanalyze.tokenizer_generator(l)))):
        got = [tuple(r) for r in gen(lines)]
        got = [r for r in got if src_lines[r[0] - 1].strip() and not src_lines[r[0] - 1].lstrip().startswith("#")]
        if ";" not in s and got != regs:
            return fail("logical lines (%s finder) %s, tokenizer statement boundaries %s" % (gen_name, got, regs),
                        "logical-line boundaries == tokenizer statement boundaries", s, finder=gen_name)
    w = worder.Worder(s)
    for (a, b, text) in names:
        for off in range(a, b):
            if w.get_word_at(off) != text or w.get_word_range(off) != (a, b):
                return fail("word at offset %d is %r %s, the NAME token is %r %s" % (off, w.get_word_at(off), w.get_word_range(off), text, (a, b)),
                            "the word at an identifier's offset is that identifier's token", s)
    return {"status": "ok", "key": s, "nontrivial": len(regs) > 1}

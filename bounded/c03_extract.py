"""B3 stand-in for C03: extract method / variable against the interpreter.
 grid   : functions `def f(c, d): x = 0; y = 0; <3 statements out of 14 templates>; return x, y`, every contiguous region of the 3 statements extracted into
          `g` (16 464 extractions): either refused with RefactoringError, or the module parses and f(c, d) returns / prints / raises exactly as before for every
          (c, d) in {0, 1, 2}^2.
 fixed  : regions that must be refused or handled (break/continue in loops and loop-else, return, yield, partial expressions), extract variable,
          names reused as comprehension targets, similar=True with local functions."""
import contextlib
import io
import itertools
import shutil
import tempfile
import warnings

STMTS = [
    "x = 1", "y = x", "x += 1", "x = x + y",
    "if c:\n    x = 2", "if c:\n    x = 2\nelse:\n    x = 3", "if c:\n    if d:\n        pass\n    x = 1",
    "if c:\n    y = 1\nelif d:\n    x = y",
    "for i in range(c):\n    x = x + i", "for i in range(c):\n    y = i", "while d:\n    d -= 1\n    y = x",
    "print(x, y)", "try:\n    x = int(c)\nexcept ValueError:\n    y = 0", "x, y = y, x",
]


def _indent(s):
    return "\n".join("    " + l for l in s.split("\n"))


def domain(tier, seed):
    cases = []
    for combo in itertools.product(range(len(STMTS)), repeat=3):
        cases.append(("grid", combo))
    cases += [("fixed", i) for i in range(len(FIXED))]
    return cases


def _behaviour(src, fname="f", inputs=None):
    ns = {}
    try:
        exec(compile(src, "m", "exec"), ns)
    except BaseException as e:
        return "DEFINE:" + type(e).__name__
    out = []
    for args in (inputs or [(c, d) for c in (0, 1, 2) for d in (0, 1, 2)]):
        buf = io.StringIO()
        try:
            with contextlib.redirect_stdout(buf):
                r = ns[fname](*args)
            out.append((args, repr(r), buf.getvalue()))
        except BaseException as e:
            out.append((args, "!" + type(e).__name__, buf.getvalue()))
    return out


_P = {}


def _proj():
    import os
    if _P.get("pid") != os.getpid():
        from rope.base.project import Project
        d = tempfile.mkdtemp(prefix="verif-c03-")
        p = Project(d, ropefolder=None)
        _P.update(pid=os.getpid(), p=p, f=p.root.create_file("m.py"))
    return _P["p"], _P["f"]


def run_case(case):
    warnings.simplefilter("ignore")
    from rope.base import exceptions
    from rope.refactor.extract import ExtractMethod, ExtractVariable
    p, f = _proj()
    kind, arg = case
    if kind == "fixed":
        return _fixed(p, f, FIXED[arg])
    body = [STMTS[k] for k in arg]
    results = []
    for a in range(3):
        for b in range(a + 1, 4):
            pre, reg, post = body[:a], body[a:b], body[b:]
            src = "def f(c, d):\n    x = 0\n    y = 0\n" + "".join(_indent(s) + "\n" for s in pre)
            start = len(src)
            src += "".join(_indent(s) + "\n" for s in reg)
            end = len(src)
            src += "".join(_indent(s) + "\n" for s in post) + "    return x, y\n"
            f.write(src)
            try:
                ch = ExtractMethod(p, f, start, end).get_changes("g")
            except exceptions.RopeError:
                results.append({"status": "ok", "nontrivial": False})
                continue
            except Exception as e:
                results.append({"status": "fail", "why": "ExtractMethod raised %s: %s" % (type(e).__name__, str(e)[:60]),
                                "clause": "a region that cannot be extracted is refused with the refactoring error", "observed": {"exception": type(e).__name__, "source": src},
                                "witness_case": [list(arg), a, b, src]})
                continue
            new = ch.changes[0].new_contents
            want, got = _behaviour(src), _behaviour(new)
            if want != got:
                diff = next(((w, g) for w, g in zip(want, got) if w != g), (want, got)) if isinstance(got, list) else (None, got)
                results.append({"status": "fail", "why": "extracting %r changes behaviour: before %s after %s" % (" ; ".join(reg), diff[0], diff[1]),
                                "clause": "the module behaves identically (same output, same exceptions) for every input",
                                "observed": {"source": src, "result": new, "region": reg, "after": post}, "witness_case": [list(arg), a, b, src]})
            else:
                results.append({"status": "ok", "nontrivial": True, "key": repr((arg, a, b))})
    return {"status": "multi", "results": results}


# (source, region start marker, region end marker, kind, expectation: "refuse" | "same", fname, inputs)
FIXED = [
    ("def f(xs):\n    for a in xs:\n        for b in a:\n            if b:\n                pass\n        else:\n            break\n    return 1\n",
     "        for b in a:", "            break\n", "method", "refuse_or_same", "f", [([[1], [0]],), ([],)]),
    ("def f(xs):\n    t = 0\n    for a in xs:\n        if a:\n            continue\n        t += a\n    return t\n", "        if a:", "            continue\n", "method", "refuse_or_same", "f", [([1, 0, 2],)]),
    ("def f(a):\n    if a:\n        return 1\n    b = 2\n    return b\n", "    if a:", "        return 1\n", "method", "refuse_or_same", "f", [(0,), (1,)]),
    ("def f(n):\n    for i in range(n):\n        yield i\n    return\n", "        yield i", "        yield i\n", "method", "refuse_or_same", "f", None),
    ("def f(name, people):\n    header = 'x' + name\n    shown = [name for name in people if name]\n    return header, shown\n",
     "    header = ", "if name]\n", "method", "same", "f", [("n", ["a", "", "b"]),]),
    ("def f(a, b):\n    c = (a + b) * 2\n    return c\n", "(a + b)", "(a + b)", "variable", "same", "f", [(1, 2)]),
    ("def f(a, b):\n    c = a + b * 2\n    return c\n", "a + b", "a + b", "variable", "refuse_or_same", "f", [(1, 2)]),
    ("def f(names, key):\n    def norm(s):\n        return s.lower()\n    res = sorted(names, key=key)\n    return res\n\n\ndef h(names):\n    res = sorted(names, key=len)\n    return res\n",
     "    res = sorted(names, key=key)", "key=key)\n", "method_similar", "same", "h", [(["zz", "a", "ccc"],)]),
    ("def report(items, names):\n    def key(v):\n        return v.lower()\n    out = sorted(items, key=key)\n    def key(v):\n        return v.lower()\n    res = sorted(names, key=len)\n    return out, res\n",
     "    def key", "key=key)\n", "method_similar", "same", "report", [(["b", "A", "c"], ["zz", "a", "ccc"])]),
    ("def f(c):\n    try:\n        x = int(c)\n    except ValueError:\n        x = 5\n    return x\n", "    try:", "        x = 5\n", "method", "same", "f", [("1",), ("z",)]),
    ("def f(c):\n    x = 0\n    with open(c) as fh:\n        x = 1\n    return x\n", "    with open", "        x = 1\n", "method", "same", "f", [("/dev/null",)]),
]


def _fixed(p, f, spec):
    from rope.base import exceptions
    from rope.refactor.extract import ExtractMethod, ExtractVariable
    src, m1, m2, kind, expect, fname, inputs = spec
    start = src.index(m1)
    end = src.index(m2, start) + len(m2)
    f.write(src)
    try:
        if kind == "variable":
            ch = ExtractVariable(p, f, start, end).get_changes("ev")
        else:
            ch = ExtractMethod(p, f, start, end).get_changes("g", similar=(kind == "method_similar"))
    except exceptions.RopeError:
        if expect == "same":
            return {"status": "ok", "nontrivial": False, "key": m1}
        return {"status": "ok", "nontrivial": True, "key": m1}
    except Exception as e:
        return {"status": "fail", "why": "extraction raised %s: %s" % (type(e).__name__, str(e)[:60]), "clause": "refused with the refactoring error",
                "observed": {"exception": type(e).__name__, "source": src}, "witness_case": ["fixed", src]}
    new = ch.changes[0].new_contents
    try:
        compile(new, "m", "exec")
    except SyntaxError as e:
        return {"status": "fail", "why": "the module no longer parses after the extraction: %s" % e, "clause": "yields a module that parses",
                "observed": {"source": src, "result": new}, "witness_case": ["fixed", src]}
    if inputs is not None:
        want, got = _behaviour(src, fname, inputs), _behaviour(new, fname, inputs)
        if want != got:
            return {"status": "fail", "why": "behaviour changed: before %s after %s" % (want, got), "clause": "the module behaves identically",
                    "observed": {"source": src, "result": new}, "witness_case": ["fixed", src]}
    return {"status": "ok", "nontrivial": True, "key": m1}

"""B3 stand-in for C16: real files through rope's File / ChangeContents API.
 domain: bodies = all sequences of <= 3 tokens out of {a, é, €(only where the codec has it), blank} joined and terminated by one newline convention
         (LF / CRLF / CR), with or without the final newline; header in {none, utf-8 cookie, latin-1 cookie on line 1, shebang + latin-1 cookie on
         line 2, iso-8859-15 cookie, UTF-8 BOM, form feed before the cookie, NEL (0x85) in a latin-1 comment before the cookie line}.
 clauses: (1) writing back the text that was read leaves the bytes unchanged; (2) an edit that appends one line changes exactly that; the encoding and
         the newline convention of every other line are preserved; (3) undo restores the original bytes; (4) the same through one long-lived File
         object whose file is converted to another convention behind rope's back (validate in between); (5) text written reads back equal."""
import itertools
import os
import re
import shutil
import tempfile
import warnings

NLS = {"LF": "\n", "CRLF": "\r\n", "CR": "\r"}
HEADERS = {
    "none": ("", "utf-8"), "utf8": ("# -*- coding: utf-8 -*-", "utf-8"), "latin1": ("# -*- coding: latin-1 -*-", "latin-1"),
    "line2": ("#!/usr/bin/python\n# vim: set fileencoding=latin-1 :", "latin-1"), "iso15": ("# coding=iso-8859-15", "iso-8859-15"),
    "bom": ("﻿# plain", "utf-8"), "ff": ("\f# coding: latin-1", "latin-1"), "nel": ("# caf\x85 latin-1 comment\n# coding: latin-1", "latin-1"),
    "double": ("# encoding coding: latin-1", "latin-1"),
}
TOKENS = ["a = 1", "s = 'é'", "t = '€'", ""]


def domain(tier, seed):
    cases = []
    ks = (0, 1, 2, 3) if tier == "thorough" else (0, 1, 2)
    for h in HEADERS:
        for k in ks:
            for body in itertools.product(TOKENS, repeat=k):
                if HEADERS[h][1] == "latin-1" and any("€" in t for t in body):
                    continue
                for nl in NLS:
                    for final in (True, False):
                        cases.append((h, body, nl, final))
    return cases


def build(case):
    h, body, nl, final = case
    lines = ([x for x in HEADERS[h][0].split("\n")] if HEADERS[h][0] else []) + list(body)
    text = NLS[nl].join(lines) + (NLS[nl] if final and lines else "")
    return text, text.encode(HEADERS[h][1])


def run_case(case):
    warnings.simplefilter("ignore")
    from rope.base.project import Project
    from rope.base.change import ChangeContents
    h, body, nl, final = case
    text, data = build(case)
    if "\n" not in text and "\r" not in text:
        nl_eff = "\n"
    else:
        nl_eff = NLS[nl]
    root = tempfile.mkdtemp(prefix="verif-c16-")
    try:
        path = os.path.join(root, "m.py")
        with open(path, "wb") as f:
            f.write(data)
        p = Project(root, ropefolder=None)
        r = p.get_file("m.py")
        got = r.read()
        # (1) identity write
        p.do(ChangeContents(r, got))
        now = open(path, "rb").read()
        if now != data:
            return {"status": "fail", "why": "writing back the text that was read changed the bytes", "clause": "read then write leaves bytes unchanged",
                    "observed": {"before": repr(data)[:120], "after": repr(now)[:120]}}
        # (2) an edit preserves everything else
        add = "z = 'ü'" if HEADERS[h][1] != "ascii" else "z = 1"
        new_text = got + ("" if got.endswith("\n") or not got else "\n") + add + "\n"
        p.do(ChangeContents(r, new_text))
        now = open(path, "rb").read()
        sep = "" if text.endswith(nl_eff) or not text else nl_eff
        want = (text + sep + add + nl_eff).encode(HEADERS[h][1])
        if now != want:
            return {"status": "fail", "why": "an edit that appends one line did not preserve encoding / newline convention of the rest",
                    "clause": "a change preserves encoding, newline convention and non-ASCII characters", "observed": {"want": repr(want)[:160], "got": repr(now)[:160]}}
        # (5) text written reads back equal
        if r.read() != new_text:
            return {"status": "fail", "why": "text written through rope does not read back equal", "clause": "text written reads back equal"}
        # (3) undo restores the bytes
        p.history.undo()
        now = open(path, "rb").read()
        if now != data:
            return {"status": "fail", "why": "undo of the edit did not restore the original bytes", "clause": "undo restores bytes",
                    "observed": {"before": repr(data)[:120], "after": repr(now)[:120]}}
        # (4) long-lived File object, convention changed behind rope's back
        other = {"LF": "CRLF", "CRLF": "CR", "CR": "LF"}[nl]
        data2 = build((h, body, other, final))[1]
        text2 = build((h, body, other, final))[0]
        with open(path, "wb") as f:
            f.write(data2)
        p.validate(r)
        got2 = r.read() if False else None
        p.do(ChangeContents(r, (p.get_file("m.py").read() if False else new_text)))
        now = open(path, "rb").read()
        nl2 = NLS[other] if ("\n" in text2 or "\r" in text2) else "\n"
        sep2 = "" if text2.endswith(nl2) or not text2 else nl2
        want2 = (text2 + sep2 + add + nl2).encode(HEADERS[h][1])
        if now != want2:
            return {"status": "fail", "why": "after the file was converted to %s outside rope and validated, an edit through the same File object wrote another convention" % other,
                    "clause": "a change preserves the file's current newline convention", "observed": {"want": repr(want2)[:160], "got": repr(now)[:160]}}
        p.close()
        return {"status": "ok", "nontrivial": bool(body) or h != "none", "key": repr(case)}
    finally:
        shutil.rmtree(root, ignore_errors=True)


# ---- cookie detection vs the PEP 263 pattern ---------------------------------------------------------------
PEP263 = re.compile(r"^[ \t\f]*#.*?coding[:=][ \t]*([-_.a-zA-Z0-9]+)")


def cookie_domain(tier, seed):
    alpha = ["#", "c", "oding", ":", "=", " ", "-", "l1", ".", "x", "\t"]
    n = 6 if tier == "thorough" else 5
    out = []
    for k in range(n + 1):
        for t in itertools.product(alpha, repeat=k):
            out.append("".join(t))
    return out


def cookie_case(line):
    from rope.base.fscommands import read_str_coding
    for src in (line + "\nx = 1\n", "#!/bin/sh\n" + line + "\nx\n", "\n\n" + line + "\n"):
        want = None
        for ln in src.split("\n", 2)[:2]:
            m = PEP263.match(ln)
            if m:
                want = m.group(1)
                break
        for variant, s in (("str", src), ("bytes", src.encode("utf-8"))):
            got = read_str_coding(s)
            if got != want:
                return {"status": "fail", "why": "read_str_coding(%s) = %r, the PEP 263 pattern gives %r" % (variant, got, want),
                        "clause": "declared encoding == group 1 of the PEP 263 pattern on the first two lines", "observed": {"got": got, "want": want},
                        "witness_case": src}
    return {"status": "ok", "nontrivial": "coding" in line, "key": line}

"""B3 stand-in for C08 over a fixed corpus: every .py file of rope itself (working tree) and of ropetest, the first 120 stdlib modules, and a list of
one-construct snippets.  Per module: annotation succeeds; write_ast(tree) == source; every annotated node's region lies inside its parent's;
write_ast(node) == source[node.region]; every expression node's region text re-parses (as is, or parenthesised) to the same node; the region covers the
interpreter's own (lineno, col_offset)..(end_lineno, end_col_offset) span."""
import ast
import glob
import os
import sysconfig
import warnings

REPO = os.environ.get("VERIF_REPO", "/repo")

SNIPPETS = [
    "x = (  # see (note\n    a) + b\n", "y = (  # ...(\n tbl[k])(arg)\n", "z = (  # ...(\n a + b).real\n", "x = (a)  # (\ny = (b)\n",
    "if a:\n    pass\nelif b:\n    x = '\\x0c'\nelif c:\n    pass\n", "s = 'a\\u2028b'\nif s:\n    pass\nelif s:\n    pass\n", "x = 1\n\x0cy = 2\nif x:\n    pass\nelif y:\n    pass\n",
    "def f():\n    'doc'\n    'second'\n    return 1\n", "class C:\n    name = 'a'\n    'attribute doc'\n    other = 2\n", "def g():\n    yield 'x'\n    'y'.upper()\n    return 2\n",
    "def h():\n    if a:\n        s = 'p'\n        'q'\n    t = 1\n", "x = 'a' 'b'\ny = ('c'\n     'd')\n",
    "def f(a, /, b, *args, c, d=1, **kw):\n    pass\n", "def f(*, c=1):\n    pass\n", "lambda a, *b, c=1, **d: a\n", "async def f():\n    async with a as b, c as d:\n        await e\n    async for x in y:\n        pass\n",
    "x = [i for i in range(3) if i for j in i]\ny = {k: v for k, v in z}\nw = {a for a in b}\ng = (q for q in r)\n", "try:\n    pass\nexcept (A, B) as e:\n    pass\nelse:\n    pass\nfinally:\n    pass\n",
    "try:\n    pass\nexcept* E as g:\n    pass\n", "with a as (b, c), d:\n    pass\n", "with (a as b, c as d):\n    pass\n", "x = a if b else c\ny = not a and b or c\nz = a < b <= c != d is not e in f not in g\n",
    "x[1:2, ::3, ...] = y[::-1]\ndel a[0], b.c\n", "print(f'{a!r:>{w}} {b=} {{}}', rf'n={c}', b'x', 1_000, 2., .5e-3, 0x1F, 1j)\n", "@dec(1)\n@other\nclass K(Base, metaclass=M, **kw):\n    x: int = 1\n    y: 'str'\n",
    "global_ = 1\ndef f():\n    global global_\n    def g():\n        nonlocal_ = 1\n        def h():\n            nonlocal nonlocal_\n", "match v:\n    case [a, *b] | {'k': c, **d} if a:\n        pass\n    case K(x=1, y=_) as e:\n        pass\n    case _:\n        pass\n",
    "type X[T] = list[T]\ndef f[T: int, *Ts, **P](a: T) -> T:\n    return a\nclass C[T]:\n    pass\n", "x = (yield)\n" if False else "def f():\n    x = yield\n    y = yield from g()\n    return (yield 1)\n",
    "a = b = c\na += 1\na: int\n(a) = 1\n(a, b) = c, d = 1, 2\n[a, *b] = c\n", "while a:\n    break\nelse:\n    pass\nfor i in j:\n    continue\nelse:\n    pass\n", "assert a, 'm'\nraise E from f\nimport a.b as c, d\nfrom . import e\nfrom ..f import (g as h, i)\n",
    "x = a @ b ** -c // d % e << f >> g & h ^ i | ~j\nx = (a, )\nx = ()\nx = a,\nx = [*a, *b]\nx = {**a, 'k': 1}\nx = f(*a, k=1, **b)\n", "x = a[b](c).d[e:f]\nx = (a := 1)\nx = lambda: (yield)\n",
    "if True:\n    x = 1 # c\n    # only comment\n\n    y = 2\n", "x = '''multi\nline''' \"\"\"and\nmore\"\"\"\n", "x = {\n    'a': 1,  # c\n    'b': 2,\n}\n", "def f(\n    a,  # first\n    b=2,  # second (\n):\n    pass\n",
    "class A: pass\nclass B(A): x = 1; y = 2\ndef f(): return 1\n", "x = 1; y = 2; z = 3\n", "if a: pass\nelif b: pass\nelse: pass\n",
    # a comment and a real parenthesis on a later line inside ONE gap between two tokens; triple-quoted strings with doubled quotes over several lines
    "f(a, # c\n (b))\n", "y = (a  # c\n     ) + b\n", "z = g(  # (\n    (a),  # )\n    (b))\n", "w = [\n    (a  # x)\n     ),\n    (b)]\n",
    'x = """Return ""quoted"" text.\n\n    More.\n    """\ny = 1\n', "x = \'\'\'It\'\'s ''here''\n ok\n\'\'\'\n", 'def f():\n    """Doc ""a"" b.\n\n    c ""d"".\n    """\n    return 1\n',
    "x = not a\ny = -a\nz = +a\nw = await_ if a else b\n", "x = a.b.c.d(e)(f)[g]\n", "x = \"a\" if b else 'c' \"d\"\n", "def f():\n    return\n\n\n\nx = 1\n",
]


def domain(tier, seed):
    files = sorted(glob.glob(os.path.join(REPO, "rope", "**", "*.py"), recursive=True)) + sorted(glob.glob("/repo/ropetest/**/*.py", recursive=True))
    std = sorted(glob.glob(os.path.join(sysconfig.get_paths()["stdlib"], "*.py")))[:120 if tier == "thorough" else 40]
    return [("file", f) for f in files + std] + [("snippet", i) for i in range(len(SNIPPETS))]


def _norm_dump(node):
    return ast.dump(node, annotate_fields=True, include_attributes=False).replace("ctx=Store()", "ctx=Load()").replace("ctx=Del()", "ctx=Load()")


def check(src):
    from rope.refactor import patchedast
    try:
        tree = patchedast.get_patched_ast(src, True)
    except Exception as e:
        return ("annotation raised %s: %s" % (type(e).__name__, str(e)[:90]), "annotating a valid module succeeds", type(e).__name__)
    if patchedast.write_ast(tree) != src:
        return ("writing the annotated tree back does not reproduce the source", "writing the annotated tree back reproduces the source character for character", None)
    lines = [l + "\n" for l in src.split("\n")]          # the interpreter counts lines by \n / \r\n only (not form feed, NEL, U+2028)
    starts = [0]
    for l in lines:
        starts.append(starts[-1] + len(l))
    in_fstring = set()
    for n in ast.walk(tree):
        if isinstance(n, ast.JoinedStr):
            for d in ast.walk(n):
                in_fstring.add(id(d))

    def off(lineno, col):
        return starts[lineno - 1] + len(lines[lineno - 1].encode("utf-8")[:col].decode("utf-8", "ignore")) if lineno - 1 < len(lines) else len(src)
    for parent in ast.walk(tree):
        if not hasattr(parent, "region"):
            continue        # the statement speaks about annotated nodes only
        ps, pe = parent.region
        if hasattr(parent, "sorted_children") and patchedast.write_ast(parent) != src[ps:pe]:
            return ("region text of a %s node at %s differs from its written form" % (type(parent).__name__, parent.region),
                    "every node's region is exactly the text of that construct", None)
        for ch in ast.iter_child_nodes(parent):
            if hasattr(ch, "region"):
                cs, ce = ch.region
                if not (ps <= cs <= ce <= pe):
                    return ("region %s of a %s lies outside its parent %s %s" % (ch.region, type(ch).__name__, type(parent).__name__, parent.region),
                            "every node's region lies inside its parent's region", None)
        if isinstance(parent, ast.expr) and hasattr(parent, "lineno") and not isinstance(parent, (ast.Starred, ast.JoinedStr, ast.FormattedValue, ast.Slice, ast.Tuple, ast.GeneratorExp)) and id(parent) not in in_fstring:
            a, b = off(parent.lineno, parent.col_offset), off(parent.end_lineno, parent.end_col_offset)
            if not (ps <= a and b <= pe):
                return ("region %s of a %s does not cover the interpreter's span (%d, %d): %r" % (parent.region, type(parent).__name__, a, b, src[a:b][:80]),
                        "the region agrees with the interpreter's own node positions", None)
            text = src[ps:pe]
            if len(text) < 400 and "\n" not in text.strip() or len(text) < 120:
                ok = False
                for cand in (text.strip(), "(" + text.strip() + ")", "(\n" + text + "\n)"):
                    try:
                        n2 = ast.parse(cand, mode="eval").body
                    except SyntaxError:
                        continue
                    if _norm_dump(n2) == _norm_dump(parent):
                        ok = True
                        break
                if not ok and not isinstance(parent, (ast.Yield, ast.YieldFrom, ast.Await, ast.NamedExpr, ast.Constant)):
                    return ("the region text %r of a %s does not re-parse to the same node" % (text[:60], type(parent).__name__),
                            "the region re-parses to the same node", None)
    return None


def run_case(case):
    warnings.simplefilter("ignore")
    kind, arg = case
    if kind == "file":
        try:
            src = open(arg, encoding="utf-8").read()
            ast.parse(src)
        except Exception:
            return {"status": "skip", "why": "not parseable by this interpreter"}
        name = arg
    else:
        src = SNIPPETS[arg]
        try:
            ast.parse(src)
        except SyntaxError:
            return {"status": "skip", "why": "snippet not valid for this interpreter"}
        name = "snippet %d" % arg
    r = check(src)
    if r:
        return {"status": "fail", "why": "%s: %s" % (name, r[0]), "clause": r[1], "observed": {"exception": r[2], "source": src if kind == "snippet" else arg},
                "witness_case": [kind, src if kind == "snippet" else arg]}
    return {"status": "ok", "key": name, "nontrivial": len(src) > 20}

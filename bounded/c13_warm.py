"""B3 stand-in (random exploration + fixed scenarios) for C13: a long-lived project against a freshly opened one on the same directory.
 random   : histories of 14 steps drawn (seeded) from {write, create, remove, move file, move package, external write / remove / create + validate,
            undo, redo, query}; after every step every query (files, python files, find_module, module source, top-level attributes with their definition
            locations, attribute names of the objects they denote, package attributes) must agree between the warm and a fresh project.
 scenarios: the file list after moving a file to an ignored name with a warm cache; a package that gains a sub-module (through rope, and externally +
            validate) while it is cached; a class reached through two package levels after its module was edited (through rope, and externally)."""
import os
import random
import shutil
import tempfile
import time
import warnings
from rope.base import exceptions

def queries(p):
    out = {}
    out["files"] = sorted(f.path for f in p.get_files())
    out["pyfiles"] = sorted(f.path for f in p.get_python_files())
    for name in ("a", "b", "pkg", "pkg.m", "pkg.n", "pkg2", "pkg2.m", "c"):
        r = p.find_module(name)
        out["find:" + name] = r.path if r is not None else None
    for f in sorted(p.get_python_files(), key=lambda f: f.path):
        try:
            m = p.get_pymodule(f)
            out["src:" + f.path] = m.source_code
            attrs = {}
            for k, v in m.get_attributes().items():
                try:
                    loc = v.get_definition_location()
                    attrs[k] = (loc[0].get_resource().path if loc[0] is not None and loc[0].get_resource() is not None else None, loc[1])
                except Exception as e:
                    attrs[k] = "EXC " + type(e).__name__
            out["attrs:" + f.path] = attrs
            deep = {}
            for k, v in m.get_attributes().items():
                try:
                    deep[k] = sorted(v.get_object().get_attributes().keys())[:40]
                except Exception as e:
                    deep[k] = "EXC " + type(e).__name__
            out["deep:" + f.path] = deep
        except exceptions.ModuleSyntaxError:
            out["src:" + f.path] = "SYNTAX"
    for dirpath, dirs, files in os.walk(p.address):
        if "__init__.py" in files:
            rel = os.path.relpath(dirpath, p.address).replace(os.sep, "/")
            try:
                out["pkgattrs:" + rel] = sorted(p.pycore.resource_to_pyobject(p.get_folder(rel)).get_attributes().keys())
            except Exception as e:
                out["pkgattrs:" + rel] = "EXC " + type(e).__name__
    return out
contents = ["x = 1\n", "def f():\n    return 1\n", "from a import x\ny = x\n", "import pkg.m\nz = pkg.m\n", "from pkg import m\n", "class K:\n    attr = 2\n"]
paths = ["a.py", "b.py", "c.py", "pkg/__init__.py", "pkg/m.py", "pkg/n.py"]
RANDOM_CONTENTS = ["x = 1\n", "def f():\n    return 1\n", "class K:\n    attr = 2\n", "import os\nsep = os.sep\n", "v = [1, 2]\nw = v\n", "class L(object):\n    def m(self):\n        return self\n"]


def _content(rng, path):
    # random histories use self-contained modules only: cross-module inference is order dependent in two known ways (fixed scenarios `self_import` and
    # `import_of_missing_module_appears_later`), which would otherwise dominate and hide other families; cross-module coherence is covered by scenarios
    return rng.choice(RANDOM_CONTENTS)


def _content_unused(rng, path):
    """a module is never given content that imports its own package (self-referential inference is order dependent in rope: recorded as a known
    finding through the fixed scenario `self_import`, and excluded from the random domain so that the exploration can see other families)"""
    c = rng.choice(contents)
    if path.startswith("pkg") and "pkg" in c:
        return contents[0]
    return c


def _would_overwrite(ch, undo):
    """undoing / redoing a move whose target path has meanwhile been re-created would overwrite that file (known finding of C11: a move onto an
    existing file silently replaces it); such steps are left out of the random histories"""
    from rope.base import change
    if isinstance(ch, change.ChangeSet):
        return any(_would_overwrite(c, undo) for c in ch.changes)
    if isinstance(ch, change.MoveResource):
        return (ch.resource if undo else ch.new_resource).exists()
    return False


def ops(rng, p, root):
    kind = rng.choice(["write", "write", "create", "remove", "move", "movepkg", "ext_write", "ext_remove", "ext_create", "undo", "redo", "query"])
    try:
        if kind == "write":
            f = rng.choice(sorted(p.get_files(), key=lambda r: r.path) or [None])
            if f: f.write(_content(rng, f.path))
        elif kind == "create":
            path = rng.choice(paths)
            d = os.path.dirname(path)
            if d and not p.get_folder(d).exists(): p.root.create_folder(d)
            if not p.get_file(path).exists():
                parent = p.get_folder(d) if d else p.root
                parent.create_file(os.path.basename(path)).write(_content(rng, path))
        elif kind == "remove":
            f = rng.choice(sorted(p.get_files(), key=lambda r: r.path) or [None])
            if f: f.remove()
        elif kind == "move":
            f = rng.choice(sorted(p.get_files(), key=lambda r: r.path) or [None])
            if f:
                dest = rng.choice(["a.py", "b.py", "c.py"])
                if not p.get_file(dest).exists(): f.move(dest)
        elif kind == "movepkg":
            if p.get_folder("pkg").exists() and not p.get_folder("pkg2").exists(): p.get_folder("pkg").move("pkg2")
            elif p.get_folder("pkg2").exists() and not p.get_folder("pkg").exists(): p.get_folder("pkg2").move("pkg")
        elif kind == "ext_write":
            fs = sorted(p.get_files(), key=lambda r: r.path)
            if fs:
                f = rng.choice(fs); time.sleep(0.01)
                open(f.real_path, "w").write(_content(rng, f.path) + "# %d\n" % rng.randrange(10**6)); p.validate()
        elif kind == "ext_remove":
            fs = sorted(p.get_files(), key=lambda r: r.path)
            if fs: os.remove(rng.choice(fs).real_path); p.validate()
        elif kind == "ext_create":
            path = os.path.join(root, rng.choice(["a.py", "b.py", "c.py"]))
            if not os.path.exists(path): open(path, "w").write(_content(rng, path)); p.validate()
        elif kind == "undo":
            if p.history.undo_list and not _would_overwrite(p.history.undo_list[-1], True): p.history.undo()
        elif kind == "redo":
            if p.history.redo_list and not _would_overwrite(p.history.redo_list[-1], False): p.history.redo()
        elif kind == "query":
            queries(p)
    except (exceptions.RopeError, NotImplementedError, OSError) as e:
        pass
    return kind


def domain(tier, seed):
    n = 400 if tier == "thorough" else 100
    return [("random", seed * 100000 + i) for i in range(n)] + [("scenario", s) for s in sorted(SCENARIOS)]


def _diff(warm, fresh):
    keys = sorted(k for k in set(warm) | set(fresh) if warm.get(k) != fresh.get(k))
    return keys, {k: (warm.get(k), fresh.get(k)) for k in keys[:2]}


def _compare(p, root):
    from rope.base.project import Project
    warm = queries(p)
    q = Project(root, ropefolder=None)
    fresh = queries(q)
    q.close()
    if warm != fresh:
        return _diff(warm, fresh)
    return None


def run_case(case):
    warnings.simplefilter("ignore")
    from rope.base.project import Project
    kind, arg = case
    root = tempfile.mkdtemp(prefix="verif-c13-")
    try:
        p = Project(root, ropefolder=None)
        if kind == "random":
            rng = random.Random(arg)
            trace = []
            for step in range(14):
                trace.append(ops(rng, p, root))
                if rng.random() < 0.5:
                    queries(p)
                d = _compare(p, root)
                if d:
                    return {"status": "fail", "why": "after %s the warm project differs from a fresh one at %s" % (trace, d[0][:3]),
                            "clause": "every query returns the same answer as on a freshly opened project", "observed": {"first_difference": repr(d[1])[:400], "trace": trace},
                            "witness_case": ["random", arg, trace]}
            p.close()
            return {"status": "ok", "key": arg}
        steps = SCENARIOS[arg]
        for i, st in enumerate(steps):
            st(p, root)
            d = _compare(p, root)
            if d:
                return {"status": "fail", "why": "scenario %s: after step %d the warm project differs from a fresh one at %s" % (arg, i + 1, d[0][:3]),
                        "clause": "every query returns the same answer as on a freshly opened project", "observed": {"first_difference": repr(d[1])[:400]}}
        p.close()
        return {"status": "ok", "key": arg}
    finally:
        shutil.rmtree(root, ignore_errors=True)


def _w(path, text):
    def step(p, root):
        full = os.path.join(root, path)
        os.makedirs(os.path.dirname(full), exist_ok=True)
        time.sleep(0.01)
        with open(full, "w") as f:
            f.write(text)
        p.validate()
    return step


def _rw(path, text):
    def step(p, root):
        d = os.path.dirname(path)
        parent = p.get_folder(d) if d else p.root
        f = p.get_file(path)
        if not f.exists():
            f = parent.create_file(os.path.basename(path))
        f.write(text)
    return step


def _mv(src, dst):
    return lambda p, root: p.get_resource(src).move(dst)


def _q(p, root):
    queries(p)


def _undo(p, root):
    p.history.undo()


SCENARIOS = {
    "self_import": [_w("pkg/__init__.py", ""), _rw("pkg/m.py", "import pkg.m\nz = pkg.m\n"), _q, _rw("pkg/m.py", "import pkg.m\nz = pkg.m\nq = 1\n")],
    "import_of_missing_module_appears_later": [_rw("b.py", "from a import x\ny = x\n"), _q, _w("a.py", "x = 1\n")],
    "import_of_missing_module_created_via_rope": [_rw("b.py", "from a import x\ny = x\n"), _q, _rw("a.py", "x = 1\n")],
    "move_to_ignored_name": [_w("old.py", "x = 1\n"), _w("keep.py", "y = 2\n"), _q, _mv("old.py", "old.py~"), _q, _undo, _q, _mv("old.py", "old.pyc")],
    "package_gains_submodule_via_rope": [_w("pkg/__init__.py", ""), _w("pkg/one.py", "a = 1\n"), _w("main.py", "from pkg import extra\nimport pkg\nv = pkg\n"), _q,
                                         _rw("pkg/extra.py", ""), _q, _rw("pkg/more.py", "")],
    "package_gains_submodule_externally": [_w("pkg/__init__.py", ""), _w("main.py", "from pkg import extra\nimport pkg\nv = pkg\n"), _q, _w("pkg/extra.py", ""), _q],
    "nested_package_class_edited_via_rope": [_w("pkg/__init__.py", ""), _w("pkg/sub/__init__.py", ""), _w("pkg/sub/mod.py", "class X:\n    a = 1\n"),
                                             _w("main.py", "import pkg.sub.mod\nfrom pkg import sub\nv = pkg.sub.mod.X\nw = sub.mod.X\n"), _q,
                                             _rw("pkg/sub/mod.py", "class X:\n    a = 1\n    b = 2\n"), _q, _rw("pkg/sub/mod.py", "class X:\n    c = 3\n")],
    "nested_package_class_edited_externally": [_w("pkg/__init__.py", ""), _w("pkg/sub/__init__.py", ""), _w("pkg/sub/mod.py", "class X:\n    a = 1\n"),
                                               _w("main.py", "import pkg.sub.mod\nfrom pkg import sub\nv = pkg.sub.mod.X\nw = sub.mod.X\n"), _q,
                                               _w("pkg/sub/mod.py", "class X:\n    a = 1\n    b = 2\n"), _q],
}

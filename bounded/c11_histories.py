"""B3 stand-in for C11: histories of real changes on a real temp project.
For every applicable sequence of k distinct changes from a pool (edits, moves of a file and of a folder, creations, nested edits):
 A. plain undo of everything step by step restores each earlier snapshot; redo re-creates each later one; lists move accordingly;
    undo with nothing to undo / redo with nothing to redo is refused with HistoryError and no effect.
 B. selective undo of the change at every index (drop False/True): the undone set is exactly the reference dependency closure
    (later changes touching the same, a containing or a contained resource), the tree equals the tree obtained by replaying only
    the remaining changes on a fresh project, the undo list is the remaining changes in order, the redo list grows by the undone
    ones (or is unchanged with drop=True, so a following redo is refused); a new change clears redo."""
import itertools
import os
import shutil
import tempfile
import warnings

POOL = {
    "e_a": ("edit", "a.txt", "A2\n"), "e_a2": ("edit", "a.txt", "A3\n"), "e_b": ("edit", "b.txt", "B2\n"),
    "mv_a": ("move", "a.txt", "c.txt"), "e_c": ("edit", "c.txt", "C2\n"),
    "e_n": ("edit", "pkg/sub/n.txt", "N2\n"), "mv_pkg": ("move", "pkg", "lib"), "e_ln": ("edit", "lib/sub/n.txt", "N3\n"),
    "rm_b": ("remove", "b.txt"), "mv_a_b": ("move_over", "a.txt", "b.txt"),
    "cd": ("create_folder", "", "nd"), "cfd": ("create_file", "nd", "x.txt"), "e_m": ("edit", "pkg/m.txt", "M2\n"),
}
NAMES = sorted(POOL)


def snap(d):
    out = {}
    for r, ds, fs in os.walk(d):
        for x in ds:
            out[os.path.relpath(os.path.join(r, x), d)] = "DIR"
        for x in fs:
            with open(os.path.join(r, x), "rb") as f:
                out[os.path.relpath(os.path.join(r, x), d)] = f.read()
    return out


def fresh():
    from rope.base.project import Project
    root = tempfile.mkdtemp(prefix="verif-c11-")
    p = Project(root, ropefolder=None)
    p.root.create_file("a.txt").write("A1\n")
    p.root.create_file("b.txt").write("B1\n")
    pkg = p.root.create_folder("pkg")
    pkg.create_file("m.txt").write("M1\n")
    pkg.create_folder("sub").create_file("n.txt").write("N1\n")
    p.history.clear()
    return root, p


def mk(p, desc):
    from rope.base import change
    kind = desc[0]
    if kind == "edit":
        f = p.get_file(desc[1])
        if not f.exists():
            raise LookupError(desc[1])
        return change.ChangeContents(f, desc[2])
    if kind in ("move", "move_over"):
        try:
            r = p.get_resource(desc[1])
        except Exception:
            raise LookupError(desc[1])
        if p.get_file(desc[2]).exists() != (kind == "move_over"):
            raise LookupError("destination exists" if kind == "move" else "destination missing")
        return change.MoveResource(r, desc[2], exact=True)
    if kind == "remove":
        r = p.get_file(desc[1])
        if not r.exists():
            raise LookupError(desc[1])
        return change.RemoveResource(r)
    parent = p.get_folder(desc[1]) if desc[1] else p.root
    if not parent.exists():
        raise LookupError(desc[1])
    return change.CreateFolder(parent, desc[2]) if kind == "create_folder" else change.CreateFile(parent, desc[2])


def paths_of(desc):
    if desc[0] in ("edit", "remove"):
        return [desc[1]]
    if desc[0] in ("move", "move_over"):
        return [desc[1], desc[2]]
    return [(desc[1] + "/" if desc[1] else "") + desc[2]]


def related(a, b):
    return a == b or a.startswith(b + "/") or b.startswith(a + "/")


def closure(descs, i):
    """reference dependency closure of selective undo (the statement's 'later changes that touch the same resources')"""
    res = [i]
    touched = set(paths_of(descs[i]))
    for j in range(i + 1, len(descs)):
        if any(related(q, t) for q in paths_of(descs[j]) for t in touched):
            res.append(j)
            touched |= set(paths_of(descs[j]))
    return res


def do_all(p, names):
    chs = []
    for n in names:
        c = mk(p, POOL[n])
        p.do(c)
        chs.append(c)
    return chs


def fail(why, clause, **obs):
    return {"status": "fail", "why": why, "clause": clause, "observed": obs}


def run_seq(names):
    warnings.simplefilter("ignore")
    from rope.base import exceptions
    results = []
    names = list(names)
    descs = [POOL[n] for n in names]
    # ---- A: plain undo / redo ---------------------------------------------------------------------
    root, p = fresh()
    try:
        snaps = [snap(root)]
        try:
            chs = []
            for n in names:
                c = mk(p, POOL[n])
                p.do(c)
                chs.append(c)
                snaps.append(snap(root))
        except LookupError:
            return {"status": "skip", "why": "sequence not applicable"}
        key = "+".join(names)

        def res(r, what):
            if r["status"] == "fail":
                r["witness_case"] = [names, what]
            results.append(r)
        try:
            p.history.redo()
            res(fail("redo with an empty redo list was not refused", "redo refused when nothing to redo"), "A")
        except exceptions.HistoryError:
            pass
        ok = True
        for k in range(len(names), 0, -1):
            try:
                undone = p.history.undo()
            except NotImplementedError as e:
                r = fail("undo of %s raised NotImplementedError" % names[k - 1], "undo restores the tree before the last change", exception="NotImplementedError")
                res(r, "A")
                ok = False
                break
            if snap(root) != snaps[k - 1]:
                res(fail("undo #%d did not restore the tree before %s" % (len(names) - k + 1, names[k - 1]), "tree after undo == tree before the change"), "A")
                ok = False
                break
            if undone != [chs[k - 1]] or p.history.undo_list != chs[:k - 1] or p.history.redo_list != list(reversed(chs[k - 1:])):
                res(fail("history lists wrong after undo", "undo moves exactly the last change to the redo list"), "A")
                ok = False
                break
        if ok:
            before = snap(root)
            try:
                p.history.undo()
                res(fail("undo with an empty undo list was not refused", "undo refused when nothing to undo"), "A")
            except exceptions.HistoryError:
                if snap(root) != before or p.history.undo_list:
                    res(fail("refused undo had an effect", "refused undo has no effect"), "A")
            for k in range(1, len(names) + 1):
                p.history.redo()
                if snap(root) != snaps[k]:
                    res(fail("redo #%d did not re-create the tree after %s" % (k, names[k - 1]), "tree after redo == tree after the change"), "A")
                    ok = False
                    break
                if p.history.undo_list != chs[:k] or p.history.redo_list != list(reversed(chs[k:])):
                    res(fail("history lists wrong after redo", "redo moves exactly the last undone change back"), "A")
                    ok = False
                    break
        if ok and len(names) >= 2:
            p.history.undo()
            c = mk(p, ("create_file", "", "zz.txt"))
            p.do(c)
            if p.history.redo_list:
                res(fail("a new change did not clear the redo list", "new change clears redo"), "A")
        if ok:
            results.append({"status": "ok", "key": key + "/A"})
    finally:
        p.close()
        shutil.rmtree(root, ignore_errors=True)
    # ---- B: selective undo ------------------------------------------------------------------------------
    for i in range(len(names)):
        for drop in (False, True):
            root, p = fresh()
            try:
                chs = do_all(p, names)
                want = closure(descs, i)
                try:
                    undone = p.history.undo(chs[i], drop=drop)
                except Exception as e:
                    if isinstance(e, NotImplementedError):
                        shutil.rmtree(root, ignore_errors=True)
                        root, p = fresh()   # the failed undo may have left the tree half-undone (C10 finding); not this clause's business
                    r = fail("selective undo of #%d raised %s: %s" % (i, type(e).__name__, e), "selective undo succeeds", exception=type(e).__name__)
                    r["witness_case"] = [names, "undo #%d drop=%s" % (i, drop)]
                    results.append(r)
                    continue
                got = sorted(chs.index(c) for c in undone)
                r = None
                if got != want:
                    r = fail("selective undo of #%d undid changes %s, the dependency closure is %s" % (i, got, want),
                             "undoes precisely the later changes that touch the same resources", undone=got, expected=want)
                else:
                    root2, p2 = fresh()
                    try:
                        for j, n in enumerate(names):
                            if j not in want:
                                p2.do(mk(p2, POOL[n]))
                        if snap(root) != snap(root2):
                            a, b = snap(root), snap(root2)
                            r = fail("tree after selective undo of #%d differs from never having made changes %s" % (i, want),
                                     "tree equals the one obtained by never having made them",
                                     differs_at=sorted(k for k in set(a) | set(b) if a.get(k) != b.get(k)))
                    finally:
                        p2.close()
                        shutil.rmtree(root2, ignore_errors=True)
                if r is None and p.history.undo_list != [c for j, c in enumerate(chs) if j not in want]:
                    r = fail("undo list after selective undo is not the remaining changes in order", "others stay in force")
                if r is None:
                    if drop:
                        if p.history.redo_list:
                            r = fail("drop=True left %d undone changes redoable" % len(p.history.redo_list), "dropped changes are not redoable")
                        else:
                            try:
                                p.history.redo()
                                r = fail("redo after undo(drop=True) was not refused", "dropped changes are not redoable")
                            except exceptions.HistoryError:
                                pass
                    elif sorted(chs.index(c) for c in p.history.redo_list) != want:
                        r = fail("redo list after selective undo is not the undone changes", "undone changes become redoable")
                if r is None:
                    results.append({"status": "ok", "key": "+".join(names) + "/B%d%s" % (i, drop), "nontrivial": len(want) > 1})
                else:
                    r["witness_case"] = [names, "undo #%d drop=%s" % (i, drop)]
                    results.append(r)
            finally:
                p.close()
                shutil.rmtree(root, ignore_errors=True)
    return {"status": "multi", "results": results}


def domain(tier, seed):
    ks = (1, 2, 3, 4) if tier == "thorough" else (1, 2, 3)
    return [combo for k in ks for combo in itertools.permutations(NAMES, k)]

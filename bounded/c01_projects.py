"""B3 stand-in for C01/C02 across modules: a fixed catalogue of small multi-module projects; every listed identifier is renamed (from its
definition and from every occurrence rope reports, in a fresh copy each time); the project must still run and print the same output, or the
rename must be refused with RefactoringError; the occurrence set must not depend on the occurrence used to ask; a second rename in the same
long-lived session must behave like the first."""
import os
import re
import shutil
import subprocess
import sys
import tempfile
import warnings

SCENARIOS = {
    "from_import_same_named_param": {
        "files": {"mod.py": "def scale(scale):\n    return scale * 2\n", "user.py": "from mod import scale\nprint(scale(3))\n"},
        "targets": [("mod.py", "scale", 0), ("mod.py", "scale", 1)]},
    "init_and_call_keyword": {
        "files": {"user.py": "class Scaler:\n    def __init__(self, factor):\n        self.factor = factor\n\n    def __call__(self, factor):\n        return self.factor * factor\n\n\ns = Scaler(factor=2)\nprint(s(factor=3))\n"},
        "targets": [("user.py", "factor", 0), ("user.py", "factor", 3)]},
    "nested_packages_two_renames": {
        "files": {"pkg1/__init__.py": "", "pkg1/pkg2/__init__.py": "", "pkg1/pkg2/mod.py": "def f():\n    return 1\n\n\ndef g():\n    return f() + 1\n",
                  "user.py": "import pkg1.pkg2.mod\nfrom pkg1 import pkg2\nprint(pkg1.pkg2.mod.f(), pkg2.mod.g())\n"},
        "targets": [("pkg1/pkg2/mod.py", "f", 0), ("pkg1/pkg2/mod.py", "g", 0)], "chain": True},
    "multi_name_global": {
        "files": {"user.py": "count = 0\ntotal = 0\n\n\ndef inc():\n    global count, total\n    count = count + 1\n    total += 2\n\n\ninc()\ninc()\nprint(count, total)\n"},
        "targets": [("user.py", "count", 0), ("user.py", "total", 0)]},
    "variable_named_like_module": {
        "files": {"config.py": "config = {'a': 1}\nother = 2\n", "user.py": "import config\nprint(config.config['a'], config.other)\n"},
        "targets": [("config.py", "config", 0), ("config.py", "other", 0)]},
    "kwargs_same_spelling": {
        "files": {"lib.py": "def make(kind, **kw):\n    return (kind, sorted(kw.items()))\n\n\ndef plain(kind, size=0):\n    return (kind, size)\n",
                  "user.py": "import lib\nsize = 3\nprint(lib.make('box', size=size), lib.plain('box', size=size))\n"},
        "targets": [("user.py", "size", 0), ("lib.py", "size", 0)]},
    "method_across_modules": {
        "files": {"shapes.py": "class Box:\n    def area(self):\n        return 6\n\n\ndef area():\n    return 1\n",
                  "user.py": "import shapes\nb = shapes.Box()\nprint(b.area(), shapes.area())\n"},
        "targets": [("shapes.py", "area", 0), ("shapes.py", "area", 1)]},
    "aliased_import": {
        "files": {"util.py": "def helper(v):\n    return v + 1\n", "user.py": "from util import helper as h\nimport util as u\nprint(h(1), u.helper(2))\n"},
        "targets": [("util.py", "helper", 0), ("util.py", "v", 0)]},
    "rf_string_field": {
        "files": {"user.py": "count = 3\nprint(rf'n={count}', f'{count + 1}', 'count')\n"},
        "targets": [("user.py", "count", 0)]},
}


def domain(tier, seed):
    return [(s, i) for s in sorted(SCENARIOS) for i in range(len(SCENARIOS[s]["targets"]))]


def _mk(files):
    root = tempfile.mkdtemp(prefix="verif-c01-")
    for path, src in files.items():
        full = os.path.join(root, path)
        os.makedirs(os.path.dirname(full), exist_ok=True)
        with open(full, "w") as f:
            f.write(src)
    return root


def _run(root):
    r = subprocess.run([sys.executable, "-B", "user.py"], cwd=root, capture_output=True, text=True, timeout=30,
                       env={"PATH": os.environ.get("PATH", ""), "PYTHONDONTWRITEBYTECODE": "1"})
    return r.stdout + ("!rc=%d %s" % (r.returncode, r.stderr.strip().splitlines()[-1] if r.stderr.strip() else "") if r.returncode else "")


def _offset(src, name, k):
    return [m.start() for m in re.finditer(r"\b%s\b" % re.escape(name), src)][k]


def run_case(case):
    warnings.simplefilter("ignore")
    from rope.base.project import Project
    from rope.base import exceptions
    from rope.contrib import findit
    from rope.refactor.rename import Rename
    sname, ti = case
    sc = SCENARIOS[sname]
    path, name, k = sc["targets"][ti]
    root0 = _mk(sc["files"])
    try:
        want = _run(root0)
        p0 = Project(root0, ropefolder=None)
        res0 = p0.get_resource(path)
        q0 = _offset(sc["files"][path], name, k)
        try:
            occ = sorted((l.resource.path, l.offset) for l in findit.find_occurrences(p0, res0, q0))
        except exceptions.RopeError:
            occ = []
        # query independence
        for rp, off in occ:
            again = sorted((l.resource.path, l.offset) for l in findit.find_occurrences(p0, p0.get_resource(rp), off))
            if again != occ:
                return {"status": "fail", "why": "occurrences of %r depend on the query point: asked at %s:%d -> %s, asked at the definition -> %s" % (name, rp, off, again, occ),
                        "clause": "the answer does not depend on which occurrence was used to ask", "observed": {"files": sc["files"]}}
        p0.close()
        queries = [(path, q0)] + [o for o in occ if o != (path, q0)]
        for rp, off in queries:
            root = _mk(sc["files"])
            try:
                p = Project(root, ropefolder=None)
                try:
                    p.do(Rename(p, p.get_resource(rp), off).get_changes("fresh_zq"))
                except exceptions.RefactoringError:
                    p.close()
                    continue
                got = _run(root)
                if got != want:
                    return {"status": "fail", "why": "renaming %r (asked at %s:%d) changes the program's output: %r -> %r" % (name, rp, off, want, got),
                            "clause": "the renamed project prints the same output", "observed": {"files": sc["files"]}}
                if sc.get("chain"):
                    # a second rename in the same session, asked from a use site in user.py
                    usrc = p.get_resource("user.py").read()
                    m = re.search(r"\bfresh_zq\b", usrc)
                    if m:
                        try:
                            p.do(Rename(p, p.get_resource("user.py"), m.start()).get_changes("fresh_two"))
                        except exceptions.RefactoringError as e:
                            return {"status": "fail", "why": "a second rename in the same session was refused: %s" % e,
                                    "clause": "a long-lived project answers like a fresh one", "observed": {"files": sc["files"]}}
                        got = _run(root)
                        if got != want:
                            return {"status": "fail", "why": "a second rename in the same session changes the output: %r -> %r" % (want, got),
                                    "clause": "the renamed project prints the same output", "observed": {"files": sc["files"]}}
                p.close()
            finally:
                shutil.rmtree(root, ignore_errors=True)
        return {"status": "ok", "key": repr(case), "nontrivial": len(occ) > 1}
    finally:
        shutil.rmtree(root0, ignore_errors=True)

"""B3 stand-in for C19: the similar-code finder against a reference structural matcher (written here from the statement: a match is an instance of the
pattern, equal wildcards bind equal code, every instance in the region is reported), and restructuring on a catalogue of modules x patterns.
 finder      : catalogue of 12 modules x 20 patterns (expression and statement patterns, repeated wildcards): multiset of matched nodes == reference.
 restructure : goal == pattern leaves the AST unchanged; text outside the matches is untouched; swapped / duplicated wildcards give the expected AST
               (computed by substituting the reference bindings into the goal); matches inside `finally`, out-of-source-order fields, float literals."""
import ast
import re
import warnings

CODES = [
    "x = a + b\ny = a + b * c\nz = (a + b) * c\nw = a + a\n",
    "if a:\n    f(a)\nelif b:\n    f(b)\nelse:\n    f(c)\n",
    "r = f(a, b)(c)[d].e\ns = f(a,\n      b)\nt = f(a, a)\n",
    "v = -a ** b\nu = a if b else c\nt = (a if b else c) + 1\n",
    "for i in x:\n    y = i\n    z = y + i\n",
    "p = not a or b and c\nq = a < b < c\nl = lambda a: a + 1\n",
    "d = {a: b, **c}\ne = [*a, b]\ng = f(*a, **b)\nh = a[b:c, d]\n",
    "try:\n    log(1)\n    x = 1\nexcept E:\n    log(2)\n    x = 2\nfinally:\n    log(4)\n    x = 4\n",
    "try:\n    log(1)\n    x = 1\nexcept E:\n    log(2)\n    x = 2\nelse:\n    log(3)\n    x = 3\nfinally:\n    log(4)\n    x = 4\n",
    "r = p.val if q.val else {k.val: 1, 2: m.val}\n",
    "def clamp(x, lo):\n    return min(x, 2.)\n\n\nv = min(y, 2.) + min(z, 3.5)\n",
    "a = b = c\nx, y = y, x\nx += a\nwhile x:\n    x -= 1\n    continue\n",
    "with open(f) as g:\n    h = g.read()\n    k = g.read()\nprint(h, k)\n",
]
PATTERNS = ["${a} + ${b}", "${a} + ${a}", "f(${a})", "f(${a}, ${b})", "f(${a}, ${a})", "${x}.val", "min(${a}, ${b})", "${a} if ${b} else ${c}", "-${a}", "${a} < ${b}",
            "${f}(${a})", "log(${n})\nx = ${n}", "${x} = ${y}", "${x}.read()", "y = ${v}", "not ${a}", "${a}[${b}]", "lambda a: ${b}", "${a} * ${b}", "2."]


def domain(tier, seed):
    return [("find", ci, pi) for ci in range(len(CODES)) for pi in range(len(PATTERNS))] + \
           [("region", ci, pi) for ci in range(len(CODES)) for pi in range(len(PATTERNS))] + \
           [("restructure", ci, pi) for ci in range(len(CODES)) for pi in range(len(PATTERNS))]


def _to_py(pattern):
    return re.sub(r"\$\{(\w+)\}", r"__w_\1", pattern)


def _dump(n):
    return re.sub(r"ctx=(Store|Del)\(\)", "ctx=Load()", ast.dump(n))


def _ref_match(p, n, binding):
    if isinstance(p, ast.Name) and p.id.startswith("__w_"):
        if not isinstance(n, ast.AST):
            return False
        name = p.id[4:]
        if name in binding:
            return _dump(binding[name]) == _dump(n)
        if isinstance(n, (ast.expr_context, ast.operator, ast.cmpop, ast.boolop, ast.unaryop)):
            return False
        binding[name] = n
        return True
    if isinstance(p, ast.AST):
        if type(p) is not type(n):
            return False
        for (f1, c1), (f2, c2) in zip(ast.iter_fields(p), ast.iter_fields(n)):
            if isinstance(c1, ast.expr_context):
                continue
            if not _ref_match(c1, c2, binding):
                return False
        return True
    if isinstance(p, (list, tuple)):
        if not isinstance(n, (list, tuple)) or len(p) != len(n):
            return False
        return all(_ref_match(a, b, binding) for a, b in zip(p, n))
    return type(p) is type(n) and p == n


def reference_matches(code, pattern):
    tree = ast.parse(code)
    pt = ast.parse(_to_py(pattern)).body
    out = []
    if len(pt) == 1 and isinstance(pt[0], ast.Expr):
        pe = pt[0].value
        for n in ast.walk(tree):
            if isinstance(n, ast.expr):
                b = {}
                if _ref_match(pe, n, b):
                    out.append(("expr", _dump(n), {k: _dump(v) for k, v in b.items()}))
    else:
        for n in ast.walk(tree):
            for field in ("body", "orelse", "finalbody"):
                stmts = getattr(n, field, None)
                if isinstance(stmts, list) and stmts and isinstance(stmts[0], ast.stmt):
                    for i in range(len(stmts) - len(pt) + 1):
                        b = {}
                        if all(_ref_match(p, s, b) for p, s in zip(pt, stmts[i:i + len(pt)])):
                            out.append(("stmts", "|".join(_dump(s) for s in stmts[i:i + len(pt)]), {k: _dump(v) for k, v in b.items()}))
    return out


def run_case(case):
    warnings.simplefilter("ignore")
    from rope.refactor import similarfinder, restructure
    kind, ci, pi = case
    code, pattern = CODES[ci], PATTERNS[pi]
    ref = reference_matches(code, pattern)
    if kind == "region":
        # restrict the search to the second line of the module: reported matches lie inside it
        lines = code.split("\n")
        if len(lines) < 3:
            return {"status": "skip", "why": "one-line module"}
        s0 = len(lines[0]) + 1
        e0 = s0 + len(lines[1])
        try:
            ms = list(similarfinder.RawSimilarFinder(code).get_matches(pattern, start=s0, end=e0))
        except Exception as e:
            return {"status": "fail", "why": "get_matches raised %s: %s" % (type(e).__name__, str(e)[:80]), "clause": "matching succeeds",
                    "observed": {"exception": type(e).__name__, "code": code, "pattern": pattern}}
        for m in ms:
            a, b = m.get_region()
            if not (s0 <= a and b <= e0):
                return {"status": "fail", "why": "match %s lies outside the requested region %s" % ((a, b), (s0, e0)), "clause": "matches lie inside the requested region",
                        "observed": {"code": code, "pattern": pattern}}
        return {"status": "ok", "nontrivial": bool(ms), "key": repr(case)}
    if kind == "find":
        try:
            ms = list(similarfinder.RawSimilarFinder(code).get_matches(pattern))
        except Exception as e:
            return {"status": "fail", "why": "get_matches raised %s: %s" % (type(e).__name__, str(e)[:80]), "clause": "matching succeeds",
                    "observed": {"exception": type(e).__name__, "code": code, "pattern": pattern}}
        got = []
        for m in ms:
            if hasattr(m, "ast_list"):
                got.append(("stmts", "|".join(_dump(s) for s in m.ast_list)))
            else:
                got.append(("expr", _dump(m.ast)))
            s, e = m.get_region()
            if not (0 <= s <= e <= len(code)):
                return {"status": "fail", "why": "match region %s outside the text" % ((s, e),), "clause": "matches lie inside the requested region"}
        want = [(k, d) for k, d, b in ref]
        if sorted(got) != sorted(want):
            missing = [w for w in want if w not in got]
            extra = [g for g in got if g not in want]
            return {"status": "fail", "why": "pattern %r on module %d: %d instances not reported, %d reported matches are no instance" % (pattern, ci, len(missing), len(extra)),
                    "clause": "every reported match is a genuine instance and every instance in the region is reported",
                    "observed": {"code": code, "pattern": pattern, "missing": missing[:2], "extra": extra[:2]}}
        return {"status": "ok", "nontrivial": bool(want), "key": repr(case)}
    # restructure through the real API on a temp project: goal == pattern, and a goal that permutes / duplicates the wildcards
    import shutil, tempfile
    from rope.base.project import Project
    names = sorted(set(re.findall(r"\$\{(\w+)\}", pattern)))
    goals = [pattern]
    if len(names) >= 2:
        swapped = pattern
        swapped = swapped.replace("${%s}" % names[0], "\0").replace("${%s}" % names[1], "${%s}" % names[0]).replace("\0", "${%s}" % names[1])
        goals.append(swapped)
    root = tempfile.mkdtemp(prefix="verif-c19-")
    try:
        p = Project(root, ropefolder=None)
        f = p.root.create_file("m.py")
        for goal in goals:
            f.write(code)
            try:
                ch = restructure.Restructure(p, pattern, goal).get_changes()
                p.do(ch)
            except Exception as e:
                return {"status": "fail", "why": "restructuring %r -> %r raised %s: %s" % (pattern, goal, type(e).__name__, str(e)[:80]), "clause": "restructuring succeeds",
                        "observed": {"exception": type(e).__name__, "code": code, "pattern": pattern, "goal": goal}}
            out = f.read()
            # expected tree: every outermost instance replaced by the goal with the bound code inserted
            expected = _expected(code, pattern, goal)
            if expected is None:
                continue          # nested instances: composition order is not specified by the statement
            try:
                got = ast.dump(ast.parse(out))
            except SyntaxError:
                return {"status": "fail", "why": "restructuring %r -> %r gives text that does not parse" % (pattern, goal), "clause": "the result parses",
                        "observed": {"code": code, "pattern": pattern, "goal": goal, "result": out}}
            if got != expected:
                return {"status": "fail", "why": "restructuring %r -> %r on module %d: the result's syntax tree is not the module with each match replaced by the goal%s"
                        % (pattern, goal, ci, " (goal == pattern must leave the tree unchanged)" if goal == pattern else ""),
                        "clause": "each match is replaced by the goal with the bound code inserted so that it keeps its meaning; goal == pattern leaves the tree unchanged",
                        "observed": {"code": code, "pattern": pattern, "goal": goal, "result": out}, "witness_case": [pattern, goal, code]}
        p.close()
    finally:
        shutil.rmtree(root, ignore_errors=True)
    return {"status": "ok", "nontrivial": bool(ref), "key": repr(case)}


class _Subst(ast.NodeTransformer):
    def __init__(self, binding):
        self.b = binding

    def visit_Name(self, node):
        if node.id.startswith("__w_") and node.id[4:] in self.b:
            import copy
            return copy.deepcopy(self.b[node.id[4:]])
        return node


def _expected(code, pattern, goal):
    import copy
    tree = ast.parse(code)
    pt = ast.parse(_to_py(pattern)).body
    gt = ast.parse(_to_py(goal)).body
    expr = len(pt) == 1 and isinstance(pt[0], ast.Expr)
    matches = []
    if expr:
        for n in ast.walk(tree):
            if isinstance(n, ast.expr):
                b = {}
                if _ref_match(pt[0].value, n, b):
                    matches.append((n, b))
        ids = {id(n) for n, b in matches}
        for n, b in matches:
            for d in ast.walk(n):
                if d is not n and id(d) in ids:
                    return None

        class R(ast.NodeTransformer):
            def generic_visit(self, node):
                for n, b in matches:
                    if node is n:
                        return _Subst(b).visit(copy.deepcopy(gt[0].value))
                return super().generic_visit(node)

            def visit(self, node):
                for n, b in matches:
                    if node is n:
                        return _Subst(b).visit(copy.deepcopy(gt[0].value))
                return super().visit(node)
        new = R().visit(tree)
    else:
        found = []
        for n in ast.walk(tree):
            for field in ("body", "orelse", "finalbody"):
                stmts = getattr(n, field, None)
                if isinstance(stmts, list) and stmts and isinstance(stmts[0], ast.stmt):
                    i = 0
                    out = []
                    while i < len(stmts):
                        b = {}
                        if i + len(pt) <= len(stmts) and all(_ref_match(p_, s_, b) for p_, s_ in zip(pt, stmts[i:i + len(pt)])):
                            out += [_Subst(b).visit(copy.deepcopy(g)) for g in gt]
                            i += len(pt)
                        else:
                            out.append(stmts[i])
                            i += 1
                    setattr(n, field, out)
        new = tree
    ast.fix_missing_locations(new)
    try:
        return ast.dump(ast.parse(ast.unparse(new)))
    except Exception:
        return None

"""B3 stand-ins for C12.
 serializer : every value of a finite domain (atoms incl. "$", digit / non-ASCII-digit strings, bools; tuples/lists/dicts to depth 2, both
              versions): python_to_json either rejects with ValueError/TypeError/AssertionError or the value decodes, after json.dumps/loads,
              to an equal value of the same type, and the encoded form is unchanged by the JSON text round trip.
 reopen     : sequences of real changes (incl. nested change sets, folder move, non-ASCII names, undone changes, cleared history); close, reopen:
              same undo/redo lists (order, class, paths, contents, description, time), undo/redo after reopen reproduce the recorded trees.
 objectdb   : analysed module; close; reopen: same stored call/per-name information; a second session that only adds facts keeps them."""
import itertools
import json
import os
import shutil
import tempfile
import warnings

ATOMS = [None, 0, 1, -1, True, False, "", "a", "1", "01", "$", "items", "t", "l", "v", "references", "data", "١", "²", "４２", "1a", " 1"]


def _hashable(x):
    try:
        hash(x)
        return True
    except TypeError:
        return False


def _gen(depth):
    if depth == 0:
        yield from ATOMS
        return
    sub = list(_gen(depth - 1)) if depth <= 1 else ATOMS + [(), [], {}, (1,), [1], {"a": 1}, {1: 2}, {"1": 2}, {(1, "a"): [1]}, {None: None},
                                                           {"١": 1, ("k",): 2}]
    yield from ATOMS
    for n in range(0, 3):
        for combo in itertools.product(sub, repeat=n):
            yield tuple(combo)
            yield list(combo)
    keys = [k for k in sub if _hashable(k)]
    for n in range(0, 3):
        for ks in itertools.combinations(keys, n):
            for vs in itertools.product(sub[:12] + [(), [], {}], repeat=n):
                try:
                    yield dict(zip(ks, vs))
                except TypeError:
                    pass
    # several referenced keys together with an inline non-ASCII digit key
    yield {(1,): "a", (2,): "b", (3,): "c", ("k",): "d", "٣": "e"}
    yield {(1,): "a", 5: "b", None: "c", "7": "d", "²": "e", "x": "f"}
    # referenced keys whose VALUES contain dicts with referenced keys again (reference ids are allocated while the value is encoded)
    if depth >= 2:
        inner = [{1: 2}, {2: "x"}, {None: None}, {(1, "a"): [1]}, {"7": {3: 4}}, [{5: 6}], ({7: 8},)]
        for k in (1, None, (1,), "7", "x"):
            for v in inner:
                yield {k: v}
                yield {k: v, 9: {k: v}}
                yield [{k: v}, {k: {k: v}}]
        yield {1: {2: {3: {4: "deep"}}}}
        yield {(1,): {(2,): "a"}, (3,): {(4,): "b", 5: {6: "c"}}}


def typed_eq(a, b):
    if type(a) is not type(b):
        return False
    if isinstance(a, (list, tuple)):
        return len(a) == len(b) and all(typed_eq(x, y) for x, y in zip(a, b))
    if isinstance(a, dict):
        if len(a) != len(b):
            return False
        for k in a:
            kk = [k2 for k2 in b if typed_eq(k, k2)]
            if len(kk) != 1 or not typed_eq(a[k], b[kk[0]]):
                return False
        return True
    return a == b


def serializer_domain(tier, seed):
    vals = []
    for depth in (1, 2):
        for o in _gen(depth):
            vals.append(o)
    return [(o, v) for o in vals for v in (1, 2)]


def serializer_case(case):
    from rope.base.serializer import python_to_json, json_to_python
    o, v = case
    try:
        enc = python_to_json(o, v)
    except (ValueError, TypeError, AssertionError):
        return {"status": "skip", "why": "value not accepted"}
    try:
        text = json.dumps(enc)
        back = json.loads(text)
        dec = json_to_python(back)
    except Exception as e:
        return {"status": "fail", "why": "decoding raised %s: %s" % (type(e).__name__, e), "clause": "every accepted value decodes",
                "observed": {"exception": type(e).__name__, "encoded": repr(enc)[:200]}}
    if not typed_eq(dec, o):
        return {"status": "fail", "why": "decoded value differs: %r" % (dec,), "clause": "json_to_python(loads(dumps(python_to_json(o)))) == o (same types)",
                "observed": {"decoded": repr(dec)[:200], "encoded": repr(enc)[:200]}}
    if back != enc:
        return {"status": "fail", "why": "encoded form is not stable under the JSON text round trip", "clause": "loads(dumps(encoded)) == encoded"}
    return {"status": "ok", "nontrivial": isinstance(o, (list, tuple, dict)) and len(o) > 0, "key": repr(case)}


# ---------------------------------------------------------------------------------------------------------
def snap(d):
    out = {}
    for r, ds, fs in os.walk(d):
        if ".ropeproject" in r:
            continue
        for x in ds:
            if x != ".ropeproject":
                out[os.path.relpath(os.path.join(r, x), d)] = "DIR"
        for x in fs:
            with open(os.path.join(r, x), "rb") as f:
                out[os.path.relpath(os.path.join(r, x), d)] = f.read()
    return out


def desc(c, kinds=True):
    from rope.base import change
    k = (lambda r: type(r).__name__) if kinds else (lambda r: "")
    if isinstance(c, change.ChangeSet):
        return ("set", c.description, c.time, [desc(x, kinds) for x in c.changes])
    if isinstance(c, change.ChangeContents):
        return ("contents", c.resource.path, c.new_contents, c.old_contents, k(c.resource))
    if isinstance(c, change.MoveResource):
        return ("move", c.resource.path, c.new_resource.path, k(c.resource), k(c.new_resource))
    if isinstance(c, change.CreateResource):
        return ("create", c.resource.path, k(c.resource))
    if isinstance(c, change.RemoveResource):
        return ("remove", c.resource.path, k(c.resource))
    return ("?", repr(c))


STEPS = {
    "edit": lambda p, ch: ch.ChangeContents(p.get_file("mö.py"), "x = 'ü'\nline2\n"),
    "edit2": lambda p, ch: ch.ChangeContents(p.get_file("pkg/m.py"), "a = 2\n"),
    "mvfile": lambda p, ch: ch.MoveResource(p.get_file("mö.py"), "n.py"),
    "mvfolder": lambda p, ch: ch.MoveResource(p.get_folder("pkg"), "pkg2"),
    "mkfile": lambda p, ch: ch.CreateFile(p.root, "new.py"),
    "mkdir": lambda p, ch: ch.CreateFolder(p.root, "nd"),
    "nested": lambda p, ch: _nested(p, ch),
}


def _nested(p, ch):
    inner = ch.ChangeSet("inner")
    inner.add_change(ch.ChangeContents(p.get_file("b.py"), "b = 2\n"))
    outer = ch.ChangeSet("outer ünï")
    outer.add_change(inner)
    outer.add_change(ch.CreateFile(p.root, "made.py"))
    return outer


def _fresh(**prefs):
    from rope.base.project import Project
    root = tempfile.mkdtemp(prefix="verif-c12-")
    p = Project(root, **prefs)
    p.root.create_file("mö.py").write("x = 'é'\r\ny = 1\r\n")
    p.root.create_file("b.py").write("b = 1\n")
    p.root.create_folder("pkg").create_file("m.py").write("a = 1\n")
    p.history.clear()
    return root, p


def reopen_domain(tier, seed):
    names = sorted(STEPS)
    ks = (1, 2, 3) if tier == "thorough" else (1, 2)
    cases = []
    for k in ks:
        for combo in itertools.permutations(names, k):
            for undone in range(0, k + 1):
                cases.append((combo, undone, "keep"))
    cases += [(("edit", "mkfile"), 0, "clear"), (("edit", "mkfile"), 2, "dropall"), (("nested",), 0, "clear")]
    return cases


def reopen_case(case):
    warnings.simplefilter("ignore")
    from rope.base.project import Project
    from rope.base import change as ch
    combo, undone, mode = case
    root, p = _fresh(save_history=True)
    try:
        snaps = [snap(root)]
        try:
            for n in combo:
                p.do(STEPS[n](p, ch))
                snaps.append(snap(root))
        except Exception:
            return {"status": "skip", "why": "sequence not applicable"}
        for _ in range(undone):
            p.history.undo()
        if mode != "keep":
            p.close()                      # a first session leaves a non-empty history file behind
            p = Project(root, save_history=True)
            if mode == "clear":
                p.history.clear()
            else:
                while p.history.undo_list:
                    p.history.undo(drop=True)
                p.history.clear()
        before = ([desc(c) for c in p.history.undo_list], [desc(c) for c in p.history.redo_list])
        before_nk = ([desc(c, False) for c in p.history.undo_list], [desc(c, False) for c in p.history.redo_list])
        pos = len(p.history.undo_list)
        cur = snap(root)
        p.close()
        q = Project(root, save_history=True)
        try:
            after = ([desc(c) for c in q.history.undo_list], [desc(c) for c in q.history.redo_list])
            after_nk = ([desc(c, False) for c in q.history.undo_list], [desc(c, False) for c in q.history.redo_list])
            if after_nk != before_nk:
                return {"status": "fail", "why": "undo/redo lists differ after reopening: closed with %d/%d items, reopened with %d/%d"
                        % (len(before[0]), len(before[1]), len(after[0]), len(after[1])), "clause": "same undo and redo lists after reopen",
                        "observed": {"before": repr(before_nk)[:300], "after": repr(after_nk)[:300]}}
            if mode == "keep":
                # redo everything, then undo everything: trees must be the recorded ones
                k = pos
                while q.history.redo_list:
                    q.history.redo()
                    k += 1
                    if snap(root) != snaps[k]:
                        return {"status": "fail", "why": "redo after reopen did not reproduce the tree after step %d" % k,
                                "clause": "undo/redo after reopen restore the exact earlier trees"}
                while q.history.undo_list:
                    q.history.undo()
                    k -= 1
                    if snap(root) != snaps[k]:
                        return {"status": "fail", "why": "undo after reopen did not reproduce the tree after step %d" % k,
                                "clause": "undo/redo after reopen restore the exact earlier trees"}
            if after != before:
                return {"status": "fail", "why": "reloaded change differs in resource kind (File/Folder)", "clause": "same changes after reopen (resource kinds)",
                        "observed": {"before": repr(before)[:300], "after": repr(after)[:300]}}
            return {"status": "ok", "nontrivial": bool(before[0] or before[1]), "key": repr(case)}
        finally:
            q.close()
    finally:
        shutil.rmtree(root, ignore_errors=True)


# ---------------------------------------------------------------------------------------------------------
SRC = "def f(a):\n    return a\n\n\ndef g(b):\n    return [b]\n\n\nm = []\nm.append(1)\nx = f(1)\ny = g('s')\n"


def _db_state(p):
    db = p.pycore.object_info.objectdb
    out = {}
    for path in db.files.keys() if hasattr(db, "files") else []:
        fi = db.files[path]
        for scope_key in fi.keys():
            si = fi[scope_key]
            calls = sorted((repr(c.get_parameters()), repr(c.get_returned())) for c in si.get_call_infos())
            out[(path, scope_key)] = (calls, sorted((k, repr(v)) for k, v in si.per_name.items()))
    return out


def objectdb_domain(tier, seed):
    return [("one-session",), ("two-sessions-per-name-only",), ("two-sessions-new-call",)]


def objectdb_case(case):
    warnings.simplefilter("ignore")
    from rope.base.project import Project
    root = tempfile.mkdtemp(prefix="verif-c12-")
    try:
        p = Project(root, save_objectdb=True)
        f = p.root.create_file("mod.py")
        f.write(SRC)
        p.pycore.analyze_module(f)
        p.pycore.run_module(f).wait_process() if False else None
        s1 = _db_state(p)
        p.close()
        q = Project(root, save_objectdb=True)
        s2 = _db_state(q)
        if s1 != s2:
            q.close()
            return {"status": "fail", "why": "stored object information differs after reopening", "clause": "same stored object information after reopen",
                    "observed": {"before": repr(s1)[:300], "after": repr(s2)[:300]}}
        if case[0] == "one-session":
            q.close()
            return {"status": "ok", "nontrivial": bool(s1), "key": case[0]}
        db = q.pycore.object_info.objectdb
        if case[0] == "two-sessions-per-name-only":
            db.add_pername("mod.py", "", "extra", ("builtin", "list", ("builtin", "str")))
            for key in list(db.files["mod.py"].keys()):
                db.add_pername("mod.py", key, "extra2", ("none",))
        else:
            db.add_callinfo("mod.py", "f", (("builtin", "str"),), ("builtin", "str"))
        s3 = _db_state(q)
        q.close()
        r = Project(root, save_objectdb=True)
        s4 = _db_state(r)
        r.close()
        if s3 != s4:
            lost = sorted(str(k) for k in s3 if s3.get(k) != s4.get(k))
            return {"status": "fail", "why": "facts added in the second session were lost on close/reopen for scopes %s" % lost,
                    "clause": "same stored object information after reopen", "observed": {"lost_scopes": lost}}
        return {"status": "ok", "nontrivial": s3 != s2, "key": case[0]}
    finally:
        shutil.rmtree(root, ignore_errors=True)

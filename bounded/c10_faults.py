"""B3 stand-in for C10/C11: composites of real leaf changes on a real temp project, one injected fault
(file-system exception at the k-th fs call, or TaskHandle.stop() at the k-th observer callback), for do and undo.
Contract evaluated natively: on failure the tree (paths, kinds, bytes) and the history lists equal their old values."""
import itertools
import os
import shutil
import tempfile
import warnings

NAMES = ["edit_f", "edit_g", "move_f_h", "move_f_pk", "create_n", "create_dir", "create_in_dir", "remove_g", "move_pk", "edit_h"]


def snap(d):
    out = {}
    for r, ds, fs in os.walk(d):
        for x in ds:
            out[os.path.relpath(os.path.join(r, x), d)] = "DIR"
        for x in fs:
            with open(os.path.join(r, x), "rb") as f:
                out[os.path.relpath(os.path.join(r, x), d)] = f.read()
    return out


def _mk():
    from rope.base import fscommands

    class Faulty(fscommands.FileSystemCommands):
        def __init__(self):
            self.n = 0
            self.fail_at = None
            self.exc = OSError

        def _t(self):
            self.n += 1
            if self.fail_at is not None and self.n == self.fail_at:
                raise self.exc("injected fault at fs call %d" % self.n)

        def create_file(self, p):
            self._t()
            super().create_file(p)

        def create_folder(self, p):
            self._t()
            super().create_folder(p)

        def move(self, p, q):
            self._t()
            super().move(p, q)

        def remove(self, p):
            self._t()
            super().remove(p)

        def write(self, p, d):
            self._t()
            super().write(p, d)
    return Faulty()


def setup():
    from rope.base.project import Project
    root = tempfile.mkdtemp(prefix="verif-c10-")
    fs = _mk()
    p = Project(root, fscommands=fs, ropefolder=None)
    p.root.create_file("f.py").write("F1\n")
    p.root.create_file("g.py").write("G1\n")
    p.root.create_folder("pk").create_file("__init__.py")
    return root, fs, p


def build(p, combo):
    from rope.base import change
    f = p.get_file("f.py")
    g = p.get_file("g.py")
    pk = p.get_folder("pk")
    L = {
        "edit_f": lambda: change.ChangeContents(f, "F2\n"),
        "edit_g": lambda: change.ChangeContents(g, "G2\n"),
        "move_f_h": lambda: change.MoveResource(f, "h.py"),
        "move_f_pk": lambda: change.MoveResource(f, "pk/f.py", exact=True),
        "create_n": lambda: change.CreateFile(p.root, "n.py"),
        "create_dir": lambda: change.CreateFolder(p.root, "nd"),
        "create_in_dir": lambda: change.CreateFile(p.get_folder("nd"), "x.py"),
        "remove_g": lambda: change.RemoveResource(g),
        "move_pk": lambda: change.MoveResource(pk, "pk2"),
        "edit_h": lambda: change.ChangeContents(p.get_file("h.py"), "H2\n"),
    }
    cs = change.ChangeSet("composite " + "+".join(combo))
    for nm in combo:
        cs.add_change(L[nm]())
    return cs


class _BackendError(Exception):
    """what a VCS-backed FileSystemCommands may raise: an Exception that is neither OSError nor RopeError"""


def _hist(p):
    return (list(p.history.undo_list), list(p.history.redo_list))


def run_case(case):
    """case = (combo, direction 'do'|'undo', kind 'fs'|'stop'|'none', index)"""
    warnings.simplefilter("ignore")
    from rope.base import taskhandle
    combo, direction, kind, index = case
    root, fs, p = setup()
    try:
        try:
            cs = build(p, combo)
        except Exception:
            return {"status": "skip", "why": "composite cannot be built"}
        handle = taskhandle.TaskHandle("t")
        calls = [0]

        def observer():
            calls[0] += 1
            if kind == "stop" and calls[0] == index:
                handle.stop()
        handle.add_observer(observer)
        if direction == "undo":
            try:
                p.do(cs)
            except Exception:
                return {"status": "skip", "why": "composite fails naturally on do"}
        before = snap(root)
        hist = _hist(p)
        fs.n = 0
        fs.fail_at = index if kind in ("fs", "fs-other") else None
        fs.exc = OSError if kind == "fs" else _BackendError
        calls[0] = 0
        try:
            if direction == "do":
                p.do(cs, task_handle=handle)
            else:
                p.history.undo(task_handle=handle)
            outcome = "ok"
        except Exception as e:
            outcome = type(e).__name__
        fs.fail_at = None
        if outcome == "ok":
            return {"status": "ok", "nontrivial": False, "key": str(case), "fs_calls": fs.n, "callbacks": calls[0]}
        after = snap(root)
        if after != before:
            diff = sorted(k for k in set(before) | set(after) if before.get(k) != after.get(k))
            return {"status": "fail", "why": "tree not restored after %s failed with %s" % (direction, outcome), "clause": "tree == old(tree) on failure",
                    "observed": {"exception": outcome, "differs_at": diff}}
        if _hist(p) != hist:
            return {"status": "fail", "why": "history changed after %s failed with %s" % (direction, outcome), "clause": "undo/redo lists unchanged on failure",
                    "observed": {"exception": outcome}}
        return {"status": "ok", "nontrivial": True, "key": str(case)}
    finally:
        shutil.rmtree(root, ignore_errors=True)


def domain(tier, seed):
    """Every composite of k distinct leaf changes (k = 2 [,3]); for each, the fault-free run tells how many
    fs calls / observer callbacks the forward execution makes, and every index up to that is tried."""
    ks = (2, 3)
    cases = []
    for k in ks:
        for combo in itertools.permutations(NAMES, k):
            for direction in ("do", "undo"):
                cases.append((combo, direction, "probe", 0))
    return cases


def run_probe(case):
    """A probe case expands into all its fault indices (keeps the domain enumeration cheap and parallel)."""
    combo, direction, _, _ = case
    base = run_case((combo, direction, "none", 0))
    if base["status"] == "skip":
        return base
    if base["status"] == "fail":     # natural failure part-way that was not rolled back
        base["witness_case"] = [list(combo), direction, "natural", 0]
        return base
    results = []
    for kind, n in (("fs", base.get("fs_calls", 0)), ("fs-other", base.get("fs_calls", 0)), ("stop", base.get("callbacks", 0))):
        for idx in range(1, n + 1):
            r = run_case((combo, direction, kind, idx))
            if r["status"] == "fail":
                r["witness_case"] = [list(combo), direction, kind, idx]
                r["why"] += " [fault: %s at index %d]" % (kind, idx)
            results.append(r)
    return {"status": "multi", "results": results}

"""B3 stand-in for C20: completion and definition lookup at every cursor position of a fixed module.
 every offset            : code_assist returns (or raises rope's own error) -- no internal exception; every proposal extends the typed prefix.
 every line truncation   : the same on the module made invalid by cutting the current line at the cursor.
 probes                  : at chosen positions with a typed prefix, every visible name with that prefix is offered (locals, enclosing, globals, imported
                           names defined elsewhere, builtins), with later_locals True and False.
 definitions             : get_definition_location on every identifier token of the catalogue programs of C02 lands on a line holding a token of the same
                           binding (reference binder), never on a different binding of the same name; plus scenarios (keyword argument below a repaired
                           line, left operand of == inside a call)."""
import os
import shutil
import tempfile
import warnings

SRC = '''import os
from os import path as pth
GLOBAL = 1
class Base:
    attr = 1
    def meth(self, arg, *rest, kw=2, **kws):
        local = arg + self.attr
        for i in range(local):
            if (w := i) > 2:
                print(w, pth, os.sep)
        return [c for c in rest if c]
def func(a, b=GLOBAL):
    with open(a) as fh:
        try:
            data = fh.read()
        except OSError as err:
            data = str(err)
    return Base().meth(data, kw=b)
'''


def domain(tier, seed):
    from bounded import c02_binder
    cases = [("offset", o) for o in range(len(SRC) + 1)] + [("truncate", o) for o in range(len(SRC) + 1)]
    cases += [("probe", i) for i in range(len(PROBES))]
    cases += [("defs", pname) for pname in sorted(c02_binder.programs)]
    cases += [("scenario", s) for s in sorted(SCENARIOS)]
    return cases


_P = {}


def _proj():
    if _P.get("pid") != os.getpid():
        from rope.base.project import Project
        d = tempfile.mkdtemp(prefix="verif-c20-")
        p = Project(d, ropefolder=None)
        p.root.create_file("helpers.py").write("\n\n\n\n\n\n\n\n\n\n\n\n\n\n\ndef compute_total(xs):\n    return sum(xs)\n\n\ndef compute_mean(xs):\n    return 0\n")
        _P.update(pid=os.getpid(), d=d, p=p, f=p.root.create_file("m.py"))
    return _P["p"], _P["f"]


PROBE_MOD = '''from helpers import compute_total, compute_mean
import os
counter = 0
def outer(param_one, param_two=2):
    local_alpha = 1
    def inner(inner_arg):
        inner_local = 2
        return %s
    local_beta = 3
    return inner
class Klass:
    class_attr = 1
    def method(self, m_arg):
        m_local = 1
        return %s
top_value = %s
late_global = 5
'''
# (which hole, typed prefix, names that must be offered, later_locals)
PROBES = [
    (0, "inner_", {"inner_arg", "inner_local"}, True), (0, "local_", {"local_alpha", "local_beta"}, True), (0, "local_", {"local_alpha"}, False),
    (0, "param_", {"param_one", "param_two"}, True), (0, "compute_", {"compute_total", "compute_mean"}, True), (0, "compute_", {"compute_total", "compute_mean"}, False),
    (0, "coun", {"counter"}, True), (0, "pri", {"print"}, True), (0, "late_", {"late_global"}, True),
    (1, "m_", {"m_arg", "m_local"}, True), (1, "sel", {"self"}, True), (1, "compute_", {"compute_total", "compute_mean"}, False), (1, "Kla", {"Klass"}, True),
    (1, "o", {"os", "outer", "object", "open", "ord", "oct"}, True), (1, "class_", set(), True),
    (2, "compute_", {"compute_total", "compute_mean"}, False), (2, "compute_", {"compute_total", "compute_mean"}, True), (2, "coun", {"counter"}, False),
    (2, "late_", {"late_global"}, True), (2, "Kla", {"Klass"}, False), (2, "o", {"os", "outer"}, False),
]


def _assist(p, src, off, **kw):
    from rope.contrib import codeassist
    return codeassist.code_assist(p, src, off, **kw)


def run_case(case):
    warnings.simplefilter("ignore")
    from rope.base import exceptions
    from rope.contrib import codeassist
    p, f = _proj()
    kind, arg = case
    if kind in ("offset", "truncate"):
        src, off = SRC, arg
        if kind == "truncate":
            end = src.find("\n", off)
            end = len(src) if end < 0 else end
            src = src[:off] + src[end:]
        try:
            props = _assist(p, src, off)
            start = codeassist.starting_offset(src, off)
        except exceptions.RopeError:
            return {"status": "ok", "nontrivial": False, "key": repr(case)}
        except Exception as e:
            return {"status": "fail", "why": "code_assist at offset %d (%s) raised %s: %s" % (off, kind, type(e).__name__, str(e)[:60]),
                    "clause": "completion returns without an internal error", "observed": {"exception": type(e).__name__, "source": src}}
        prefix = src[start:off]
        for pr in props:
            if not pr.name.startswith(prefix):
                return {"status": "fail", "why": "proposal %r does not extend the typed text %r at offset %d" % (pr.name, prefix, off),
                        "clause": "every proposal extends the text typed so far", "observed": {"source": src}}
        return {"status": "ok", "nontrivial": bool(props), "key": repr(case)}
    if kind == "probe":
        hole, prefix, must, later = PROBES[arg]
        fill = ["0", "0", "0"]
        fill[hole] = prefix
        src = PROBE_MOD % tuple(fill)
        marker = ("return " if hole < 2 else "top_value = ") + prefix
        off = src.index(marker) + len(marker)
        try:
            names = {pr.name for pr in _assist(p, src, off, later_locals=later)}
        except Exception as e:
            return {"status": "fail", "why": "code_assist raised %s" % type(e).__name__, "clause": "completion returns without an internal error",
                    "observed": {"exception": type(e).__name__, "source": src}}
        if not must <= names:
            return {"status": "fail", "why": "after typing %r (later_locals=%s) the visible names %s are not offered" % (prefix, later, sorted(must - names)),
                    "clause": "every name visible there under Python's scoping rules with that prefix is offered", "observed": {"source": src, "offered": sorted(names)[:20]}}
        if prefix == "class_" and "class_attr" in names:
            return {"status": "fail", "why": "a class attribute is offered as a bare name inside a method", "clause": "every proposal names something referable at that position"}
        return {"status": "ok", "key": repr(case)}
    if kind == "defs":
        from bounded import c02_binder
        from bounded.refbinder import Binder
        src = c02_binder.programs[arg]
        f.write(src)
        groups = Binder(src).bindings()
        line_of = lambda o: src.count("\n", 0, o) + 1
        for key, offs in groups.items():
            if key[0] in ("builtin", "unresolved-nonlocal"):
                continue
            own = {line_of(o) for o in offs}
            others = set()
            for k2, o2 in groups.items():
                if k2 != key and k2[1] == key[1]:
                    others |= {line_of(o) for o in o2}
            for o in offs:
                try:
                    res, line = codeassist.get_definition_location(p, src, o, f)
                except exceptions.RopeError:
                    continue
                except Exception as e:
                    return {"status": "fail", "why": "get_definition_location raised %s at offset %d of %s" % (type(e).__name__, o, arg),
                            "clause": "definition lookup returns without an internal error", "observed": {"exception": type(e).__name__, "source": src}}
                if line is not None and line not in own and line in others:
                    return {"status": "fail", "why": "go-to-definition on %r at offset %d of %s leads to line %d, which belongs to a different binding of that name (own lines %s)"
                            % (key[1], o, arg, line, sorted(own)), "clause": "go-to-definition leads to the line where its binding is defined",
                            "observed": {"source": src}}
        return {"status": "ok", "key": repr(case)}
    src, word, k, want = SCENARIOS[arg]
    import re
    off = [m.start() for m in re.finditer(r"\b%s\b" % word, src)][k]
    try:
        res, line = codeassist.get_definition_location(p, src, off, maxfixes=3)
    except Exception as e:
        return {"status": "fail", "why": "get_definition_location raised %s" % type(e).__name__, "clause": "definition lookup returns without an internal error",
                "observed": {"exception": type(e).__name__, "source": src}}
    if line != want:
        return {"status": "fail", "why": "scenario %s: go-to-definition on %r leads to line %s, its binding is defined on line %d" % (arg, word, line, want),
                "clause": "go-to-definition leads to the line where its binding is defined", "observed": {"source": src}}
    return {"status": "ok", "key": repr(case)}


SCENARIOS = {
    "keyword_below_repaired_line": ("import os\nx = os.\n\n\n\ndef repeat(text, times=1):\n    return text * times\n\n\nprint(repeat('a', times=2))\n", "times", 2, 6),
    "left_operand_of_eq_in_call": ("def check(flag, strict=False):\n    return flag\n\n\nlimit = 3\ncount = 3\nprint(check(count == limit, strict=True))\n", "count", 1, 6),
    "keyword_argument": ("def check(flag, strict=False):\n    return flag\n\n\nprint(check(1, strict=True))\n", "strict", 1, 1),
    "param_after_incomplete_block": ("def f(alpha):\n    if alpha:\n        y = (\n    return alpha\n", "alpha", 2, 1),
}
